//! Format-level async readers against their synchronous twins.
//!
//! Every driver exists twice, generated from ONE macro body (`$m = sync | asyn`): the synchronous
//! driver runs over a `Cursor` and is the specification, the async driver runs over the poll adversary
//! inside the controlled executor. Both produce the same trace shape: header, every record rendered with
//! vnd's `render_*` functions, the virtual position before each record (where both readers expose one),
//! query results, error kinds, EOF.

use std::{
    io::{self, Cursor},
    num::NonZero,
    sync::Arc,
};

use futures::StreamExt;
use noodles_bam as bam;
use noodles_bcf as bcf;
use noodles_bgzf as bgzf;
use noodles_core::Region;
use noodles_cram as cram;
use noodles_csi::{
    self as csi,
    binning_index::index::reference_sequence::index::{BinnedIndex, LinearIndex},
};
use noodles_fasta as fasta;
use noodles_fastq as fastq;
use noodles_gff as gff;
use noodles_sam as sam;
use noodles_tabix as tabix;
use noodles_vcf as vcf;
use tokio::io::{AsyncBufRead, AsyncRead, AsyncSeek};
use vmc::{Chooser, Outcome, Violation, oracle::bgzf as ob};
use vnd::{
    Doc, Format,
    drive::{render_crai_record, render_fai_record, render_fasta_record, render_fastq_record, render_gff_line},
    render::{Limits, render_alignment_record, render_binning_index, render_feature_record, render_sam_header, render_variant_record, render_vcf_header},
};
use vrt::{
    CostModel, RtConfig,
    poll::{PollMode, PollReader},
};

use crate::{bgzf_level::check_info, cut::CutReader};

#[path = "foreign.rs"]
pub mod foreign;
#[path = "presence.rs"]
pub mod presence;
use presence::Prefill;

// ------------------------------------------------------------------------------------------ traces

/// The observable result of driving one reader over one document with one script.
#[derive(Default, Debug, Clone)]
pub struct Tr {
    /// Compared strictly (virtual positions appear resolved to flat uncompressed offsets).
    pub lines: Vec<String>,
    /// Raw virtual positions in order of appearance (an equivalent encoding of the same flat offset is
    /// accepted and counted, like at the BGZF level).
    pub raw: Vec<u64>,
    /// Returned byte counts of the read calls (not part of the statement; differences are counted).
    pub counts: Vec<usize>,
    /// Error messages (the statement compares errors; kinds are in `lines`, messages are counted).
    pub msgs: Vec<String>,
}

impl Tr {
    fn push(&mut self, s: String) {
        self.lines.push(s);
    }
    fn err(&mut self, what: &str, e: &io::Error) {
        self.lines.push(format!("{what}: Err(kind={:?})", e.kind()));
        self.msgs.push(e.to_string());
    }
}

/// Compressed offset -> flat uncompressed offset table of a BGZF document.
#[derive(Clone)]
pub struct VMap {
    members: Vec<(u64, u64, u64)>,
    flen: u64,
    total: u64,
}

impl VMap {
    pub fn new(bytes: &[u8]) -> Option<Self> {
        let ms = ob::walk(bytes).ok()?;
        let mut members = Vec::new();
        let mut u = 0u64;
        for m in &ms {
            members.push((m.offset as u64, u, m.data.len() as u64));
            u += m.data.len() as u64;
        }
        Some(Self { members, flen: bytes.len() as u64, total: u })
    }

    fn flat(&self, v: bgzf::VirtualPosition) -> String {
        let (c, u) = (v.compressed(), u64::from(v.uncompressed()));
        if c == self.flen && u == 0 {
            return format!("{}", self.total);
        }
        for &(co, us, len) in &self.members {
            if co == c && u <= len {
                return format!("{}", us + u);
            }
        }
        format!("unresolvable({c}:{u})")
    }
}

/// Uniform access to the virtual position of whatever the format reader sits on.
pub trait Vp {
    fn vpos(&self) -> Option<bgzf::VirtualPosition>;
}
impl<R: io::Read> Vp for bgzf::io::Reader<R> {
    fn vpos(&self) -> Option<bgzf::VirtualPosition> {
        Some(self.virtual_position())
    }
}
impl<R: AsyncRead> Vp for bgzf::r#async::io::Reader<R> {
    fn vpos(&self) -> Option<bgzf::VirtualPosition> {
        Some(self.virtual_position())
    }
}
impl<T> Vp for Cursor<T> {
    fn vpos(&self) -> Option<bgzf::VirtualPosition> {
        None
    }
}
impl Vp for PollReader {
    fn vpos(&self) -> Option<bgzf::VirtualPosition> {
        None
    }
}
impl Vp for CutReader {
    fn vpos(&self) -> Option<bgzf::VirtualPosition> {
        None
    }
}

fn at(t: &mut Tr, vm: Option<&VMap>, v: Option<bgzf::VirtualPosition>) -> String {
    match (vm, v) {
        (Some(vm), Some(v)) => {
            t.raw.push(u64::from(v));
            format!(" @{}", vm.flat(v))
        }
        _ => String::new(),
    }
}

// ------------------------------------------------------------------------------------------ cases

#[derive(Clone, Debug, PartialEq)]
pub enum Script {
    /// Sequential read of the whole document through API number `.0` (see `api_name`).
    Seq(u8),
    /// Header, then the given region queries one after the other on the same reader (`*` =
    /// `query_unmapped`). The label names the shape of the list for the fingerprint.
    Query(&'static str, Vec<String>),
    /// Header, then `query_unmapped`.
    Unmapped,
    /// Header, one record sequentially, then a query, then sequential reading continues.
    Mixed(String),
}

pub enum IndexData {
    Linear(csi::binning_index::Index<LinearIndex>),
    Binned(csi::binning_index::Index<BinnedIndex>),
    Crai(cram::crai::Index),
}

pub struct RCase {
    pub format: Format,
    pub name: String,
    pub bytes: Arc<Vec<u8>>,
    pub vmap: Option<VMap>,
    pub index: Option<Arc<IndexData>>,
    pub scripts: Vec<Script>,
    /// The synchronous trace of every script (the specification).
    pub expect: Vec<Tr>,
    pub lim: Limits,
    /// The async reader sits on the async BGZF reader and takes a worker count.
    pub workers_apply: bool,
    /// Foreign-layout twins of this document (same scripts, own bytes / index / expected traces); the
    /// layout is a free choice of `reader_body`.
    pub twins: Vec<RCase>,
    /// `Some(label)` for a twin.
    pub layout: Option<String>,
    /// Index of the richest record (the one the `…(pre-dirtied)` scripts put into the record object first).
    pub dirty: usize,
}

impl RCase {
    /// The same case with only the scripts selected by `keep` (None when nothing is left).
    pub fn restricted(&self, keep: &dyn Fn(&Script) -> bool) -> Option<RCase> {
        let idx: Vec<usize> = (0..self.scripts.len()).filter(|&i| keep(&self.scripts[i])).collect();
        if idx.is_empty() {
            return None;
        }
        Some(RCase {
            format: self.format,
            name: self.name.clone(),
            bytes: self.bytes.clone(),
            vmap: self.vmap.clone(),
            index: self.index.clone(),
            scripts: idx.iter().map(|&i| self.scripts[i].clone()).collect(),
            expect: idx.iter().map(|&i| self.expect[i].clone()).collect(),
            lim: self.lim,
            workers_apply: self.workers_apply,
            twins: self.twins.iter().filter_map(|t| t.restricted(keep)).collect(),
            layout: self.layout.clone(),
            dirty: self.dirty,
        })
    }

    fn sname(&self, script: &Script) -> String {
        match &self.layout {
            None => script_name(self.format, script),
            Some(l) => format!("{} layout={l}", script_name(self.format, script)),
        }
    }
}

pub fn api_name(format: Format, api: u8) -> &'static str {
    match (format, api) {
        (Format::Bam | Format::Sam | Format::SamGz | Format::Vcf | Format::VcfGz | Format::Bcf | Format::Fastq, 0) => "read_record",
        (Format::Bam | Format::Sam | Format::SamGz | Format::Vcf | Format::VcfGz, 1) => "read_record_buf",
        (Format::Bam | Format::Sam | Format::SamGz | Format::Vcf | Format::VcfGz | Format::Bcf, 2) => "records",
        (Format::Bam | Format::Sam | Format::SamGz | Format::Vcf | Format::VcfGz, 3) => "record_bufs",
        (Format::Fastq, 1) => "records",
        (Format::Fastq, 2) => "read_record(pre-dirtied)",
        (Format::Bam | Format::Sam | Format::SamGz | Format::Vcf | Format::VcfGz | Format::Bcf, 4) => "read_record(pre-dirtied)",
        (Format::Bam | Format::Sam | Format::SamGz | Format::Vcf | Format::VcfGz, 5) => "read_record_buf(pre-dirtied)",
        (Format::Gff, 4) => "read_line(pre-dirtied)",
        (Format::Cram, 0) => "records",
        (Format::Cram, 1) => "read_container",
        (Format::Fasta, _) => "read_definition+read_sequence",
        (Format::Gff, 0) => "read_line",
        (Format::Gff, 1) => "lines",
        (Format::Gff, 2) => "line_bufs",
        (Format::Gff, 3) => "record_bufs",
        (Format::Crai, 1) => "read_record",
        _ => "read_index",
    }
}

pub fn script_name(format: Format, s: &Script) -> String {
    match s {
        Script::Seq(a) => format!("seq-{}", api_name(format, *a)),
        Script::Query(label, _) => format!("query-{label}"),
        Script::Unmapped => "query_unmapped".into(),
        Script::Mixed(_) => "read-query-read".into(),
    }
}

fn parse_index(docs: &[Doc], of: &str) -> Option<IndexData> {
    let d = docs.iter().find(|d| d.index_of.as_deref() == Some(of))?;
    let fail = |e: io::Error| -> ! { vmc::machinery(format!("c16: corpus index {} unreadable: {e}", d.name)) };
    Some(match d.format {
        Format::Bai => IndexData::Linear(bam::bai::io::Reader::new(&d.bytes[..]).read_index().unwrap_or_else(|e| fail(e))),
        Format::Tbi => IndexData::Linear(tabix::io::Reader::new(&d.bytes[..]).read_index().unwrap_or_else(|e| fail(e))),
        Format::Csi => IndexData::Binned(csi::io::Reader::new(&d.bytes[..]).read_index().unwrap_or_else(|e| fail(e))),
        Format::Crai => {
            // not `read_index()`: in this tree it does not clear its line buffer between records and
            // rejects every index with two or more records (sync and async alike; see NOTES.md S1)
            let mut r = cram::crai::io::Reader::new(&d.bytes[..]);
            let mut rec = cram::crai::Record::default();
            let mut v = Vec::new();
            while r.read_record(&mut rec).unwrap_or_else(|e| fail(e)) != 0 {
                v.push(rec.clone());
            }
            IndexData::Crai(v)
        }
        _ => return None,
    })
}

/// Builds the index of a BGZF document with the synchronous indexer of its format.
fn build_index(doc: &Doc) -> Option<IndexData> {
    use std::io::Write;
    let mut t = tempfile::NamedTempFile::new().ok()?;
    t.write_all(&doc.bytes).ok()?;
    t.flush().ok()?;
    let fail = |e: io::Error| -> ! { vmc::machinery(format!("c16: sync indexer on {}: {e}", doc.name)) };
    Some(match doc.format {
        Format::Bam => IndexData::Linear(bam::fs::index(t.path()).unwrap_or_else(|e| fail(e))),
        Format::Bcf => IndexData::Binned(bcf::fs::index(t.path()).unwrap_or_else(|e| fail(e))),
        Format::SamGz => IndexData::Binned(sam::fs::index(t.path()).unwrap_or_else(|e| fail(e))),
        Format::VcfGz => IndexData::Linear(vcf::fs::index(t.path()).unwrap_or_else(|e| fail(e))),
        _ => return None,
    })
}

/// The same payload in different BGZF blocks: a block boundary 2 bytes after the header and 2 bytes into
/// every record (inside the BAM `block_size` / BCF `l_shared` prefix, inside a text line) when `every` is
/// None, else a boundary every `every` payload bytes.
pub fn reblocked(doc: &Doc, every: Option<usize>) -> Option<Doc> {
    use std::io::Write;
    if !matches!(doc.format, Format::Bam | Format::Bcf | Format::SamGz | Format::VcfGz) {
        return None;
    }
    let inner = doc.inner.as_ref()?;
    let payload = &inner.bytes[..];
    let mut cuts: Vec<usize> = match every {
        None => std::iter::once(inner.header_end + 2).chain(inner.record_ends.iter().map(|e| e + 2)).collect(),
        Some(k) => (1..).map(|i| i * k).take_while(|&c| c < payload.len()).collect(),
    };
    cuts.retain(|&c| c > 0 && c < payload.len());
    cuts.sort_unstable();
    cuts.dedup();
    if cuts.is_empty() {
        return None;
    }
    let mut w = bgzf::io::Writer::new(Vec::new());
    let mut prev = 0;
    let r: io::Result<Vec<u8>> = (|| {
        for &c in &cuts {
            w.write_all(&payload[prev..c])?;
            w.flush()?;
            prev = c;
        }
        w.write_all(&payload[prev..])?;
        w.finish()
    })();
    let bytes = r.unwrap_or_else(|e| vmc::machinery(format!("c16: reblocking {}: {e}", doc.name)));
    let tag = match every {
        None => "reblocked-in-prefix".to_string(),
        Some(k) => format!("reblocked-every-{k}"),
    };
    Some(vnd::corpus::make_doc(doc.format, format!("{}-{tag}", doc.name), &doc.set, bytes, false))
}

/// Builds the reader case of a corpus document (None: the format has no async reader).
pub fn make_rcase(docs: &[Doc], doc: &Doc) -> Option<RCase> {
    let f = doc.format;
    let regions = |label: &'static str, v: &[&str]| Script::Query(label, v.iter().map(|s| s.to_string()).collect());
    let (index, scripts): (Option<IndexData>, Vec<Script>) = match f {
        Format::Bam | Format::SamGz => {
            let idx = parse_index(docs, &doc.name).or_else(|| build_index(doc));
            let mut s = vec![Script::Seq(0), Script::Seq(1), Script::Seq(2), Script::Seq(3)];
            if idx.is_some() {
                s.push(regions("three-regions", &["sq0", "sq1:200-300", "sq0:1-20"]));
                s.push(regions("unknown-and-empty-references", &["sq1", "sq2", "nope", "sq0:100-130"]));
                // the same region twice, two regions that share their first chunk, and a region query
                // after query_unmapped after the same region query (stale seek state in the async reader)
                s.push(regions("same-region-twice", &["sq0", "sq0"]));
                s.push(regions("regions-sharing-first-chunk", &["sq0:1-20", "sq0:10-40"]));
                s.push(regions("region-unmapped-same-region", &["sq0", "*", "sq0"]));
                s.push(Script::Unmapped);
                s.push(Script::Mixed("sq0:15-125".into()));
            }
            (idx, s)
        }
        Format::Bcf => {
            let idx = parse_index(docs, &doc.name).or_else(|| build_index(doc));
            let mut s = vec![Script::Seq(0), Script::Seq(2)];
            if idx.is_some() {
                s.push(regions("three-regions", &["sq0", "sq1:200-300", "sq0:1-20"]));
                s.push(regions("empty-references", &["sq1", "sq2", "sq0:30-40"]));
                s.push(regions("same-region-twice", &["sq0", "sq0"]));
                s.push(regions("regions-sharing-first-chunk", &["sq0:1-20", "sq0:10-40"]));
                s.push(Script::Mixed("sq0:15-125".into()));
            }
            (idx, s)
        }
        Format::VcfGz => {
            let idx = parse_index(docs, &doc.name).or_else(|| build_index(doc));
            let mut s = vec![Script::Seq(0), Script::Seq(1), Script::Seq(2), Script::Seq(3)];
            if idx.is_some() {
                s.push(regions("three-regions", &["sq0", "sq1:200-300", "sq0:1-20"]));
                s.push(regions("empty-references", &["sq1", "sq2", "sq0:30-40"]));
                s.push(regions("same-region-twice", &["sq0", "sq0"]));
                s.push(regions("regions-sharing-first-chunk", &["sq0:1-20", "sq0:10-40"]));
                s.push(Script::Mixed("sq0:15-125".into()));
            }
            (idx, s)
        }
        Format::Sam | Format::Vcf | Format::Gff => (None, vec![Script::Seq(0), Script::Seq(1), Script::Seq(2), Script::Seq(3)]),
        Format::Cram => {
            let idx = parse_index(docs, &doc.name);
            let mut s = vec![Script::Seq(0), Script::Seq(1)];
            if idx.is_some() {
                s.push(regions("three-regions", &["sq0", "sq1:200-300", "sq0:1-20"]));
                s.push(regions("unknown-reference", &["sq1", "nope"]));
                s.push(regions("same-region-twice", &["sq0", "sq0"]));
                s.push(Script::Unmapped);
            }
            (idx, s)
        }
        Format::Fastq | Format::Crai => (None, vec![Script::Seq(0), Script::Seq(1)]),
        Format::Fasta | Format::Fai | Format::Bai | Format::Csi | Format::Tbi | Format::Gzi => (None, vec![Script::Seq(0)]),
        _ => return None,
    };
    let vmap = if matches!(f, Format::Bam | Format::Bcf | Format::SamGz | Format::VcfGz) {
        Some(VMap::new(&doc.bytes).unwrap_or_else(|| vmc::machinery(format!("c16: {} is not well-formed BGZF", doc.name))))
    } else {
        None
    };
    let mut lim = Limits::for_input(doc.bytes.len());
    lim.debug = false;
    let mut case = RCase {
        format: f,
        name: doc.name.clone(),
        bytes: doc.bytes.clone(),
        vmap,
        index: index.map(Arc::new),
        scripts,
        expect: Vec::new(),
        lim,
        workers_apply: matches!(f, Format::Bam | Format::Bcf | Format::SamGz | Format::VcfGz),
        twins: Vec::new(),
        layout: None,
        dirty: 0,
    };
    let expect: Vec<Tr> = case.scripts.iter().map(|s| sync_drive(&case, s)).collect();
    for (s, t) in case.scripts.iter().zip(&expect) {
        // the corpus is valid input: a sequential sync read that ends in an error means the corpus (or
        // this driver) is broken, not noodles
        let reached_eof = t.lines.last().map(|l| l.starts_with("end: EOF")).unwrap_or(false);
        if matches!(s, Script::Seq(_)) && !reached_eof {
            if f == Format::Crai && *s == Script::Seq(0) {
                // S1: the sync read_index rejects multi-record indexes; the async twin must then fail alike
                continue;
            }
            vmc::machinery(format!("c16: sync driver of {} {} did not reach EOF: {:?}", doc.name, script_name(f, s), t.lines.last()));
        }
    }
    case.expect = expect;
    if foreign::carries_twins(doc) {
        let (mut used, mut rejected) = (Vec::new(), Vec::new());
        for (label, bytes) in foreign::twins_of(doc) {
            match make_twin(&case, doc, &label, bytes, false) {
                Ok(t) => {
                    used.push(label);
                    case.twins.push(t);
                }
                Err(why) => rejected.push(format!("{label} ({why})")),
            }
        }
        eprintln!("[C16] foreign layouts {}: used: {}", doc.name, if used.is_empty() { "none".into() } else { used.join(" ") });
        if !rejected.is_empty() {
            eprintln!("[C16] foreign layouts {}: rejected by the sync reader (recorded, not judged): {}", doc.name, rejected.join("; "));
        }
        // presence-spanning record sequences under this document's header: the first candidate the sync
        // reader accepts
        for (label, bytes) in presence::presence_docs(doc) {
            match make_twin(&case, doc, &label, bytes, true) {
                Ok(t) => {
                    eprintln!("[C16] presence document {}+{label}: {} bytes, scripts: {}", doc.name, t.bytes.len(), t.scripts.iter().map(|s| script_name(f, s)).collect::<Vec<_>>().join(" "));
                    case.twins.push(t);
                    break;
                }
                Err(why) => eprintln!("[C16] presence document {}+{label}: rejected by the sync reader (recorded, not judged): {why}", doc.name),
            }
        }
    }
    Some(case)
}

/// A foreign-layout twin of `parent`: same scripts, the sync traces on the twin's own bytes as the
/// specification. `Err(why)` when the sync reader (or indexer) does not accept the layout.
fn make_twin(parent: &RCase, _doc: &Doc, label: &str, bytes: Vec<u8>, content: bool) -> Result<RCase, String> {
    let f = parent.format;
    let name = format!("{}+{label}", parent.name);
    let vmap = if parent.vmap.is_some() { Some(VMap::new(&bytes).ok_or("not well-formed BGZF for the independent walker")?) } else { None };
    let bytes = Arc::new(bytes);
    let index = match parent.index.as_deref() {
        None => None,
        Some(_) => {
            // virtual positions / container offsets differ: the index is rebuilt by the sync indexer
            match vmc::catch(|| try_build_index(f, &bytes)) {
                Ok(Ok(i)) => Some(Arc::new(i)),
                Ok(Err(e)) => return Err(format!("sync indexer: {e}")),
                Err((msg, _)) => return Err(format!("sync indexer panics: {msg}")),
            }
        }
    };
    let mut lim = Limits::for_input(bytes.len());
    lim.debug = false;
    // the layout matters below the record APIs: two sequential scripts, two query scripts, read-query-read
    // thorough tier (twins run at bound 2 there): one sequential and the query scripts only
    let thorough = std::env::args().any(|a| a == "thorough") || std::env::var("VERIF_TIER").as_deref() == Ok("thorough") || std::env::var_os("C16_THOROUGH_SETS").is_some();
    let keep = |s: &Script| match s {
        Script::Seq(a) => *a == 0 || (*a == 1 && !thorough),
        Script::Mixed(_) if thorough => false,
        Script::Query(l, _) => matches!(*l, "three-regions" | "unknown-and-empty-references" | "empty-references" | "unknown-reference"),
        Script::Unmapped => f == Format::Cram,
        Script::Mixed(_) => true,
    };
    let kept: Vec<usize> = (0..parent.scripts.len()).filter(|&i| keep(&parent.scripts[i]) || (content && !thorough && matches!(parent.scripts[i], Script::Seq(_)))).collect();
    let parent_lines: Vec<usize> = kept.iter().map(|&i| parent.expect[i].lines.len()).collect();
    let mut scripts: Vec<Script> = kept.iter().map(|&i| parent.scripts[i].clone()).collect();
    if content {
        // different content: every record API, plus the reusing APIs on a pre-dirtied record object
        match f {
            Format::Bam | Format::Sam | Format::SamGz | Format::Vcf | Format::VcfGz => scripts.extend([Script::Seq(4), Script::Seq(5)]),
            Format::Bcf | Format::Gff => scripts.push(Script::Seq(4)),
            Format::Fastq => scripts.push(Script::Seq(2)),
            _ => {}
        }
    }
    let mut case = RCase { format: f, name, bytes, vmap, index, scripts, expect: Vec::new(), lim, workers_apply: parent.workers_apply, twins: Vec::new(), layout: Some(label.to_string()), dirty: 0 };
    let mut expect_fix: Vec<usize> = Vec::new();
    let expect: Vec<Tr> = match vmc::catch(|| case.scripts.iter().map(|s| sync_drive(&case, s)).collect::<Vec<Tr>>()) {
        Ok(e) => e,
        Err((msg, file)) => return Err(format!("sync reader panics: {msg} in {file}")),
    };
    for (i, (s, t)) in case.scripts.iter().zip(&expect).enumerate() {
        let reached_eof = t.lines.last().map(|l| l.starts_with("end: EOF")).unwrap_or(false);
        if matches!(s, Script::Seq(_)) && !reached_eof && !(f == Format::Crai && *s == Script::Seq(0)) {
            return Err(format!("{}: {}", script_name(f, s), t.lines.last().cloned().unwrap_or_default()));
        }
        // the same content: a sequential trace of the twin has as many lines as the parent's
        if !content && matches!(s, Script::Seq(_)) && t.lines.len() != parent_lines[i] {
            return Err(format!("{}: sync reads {} lines, {} from the original", script_name(f, s), t.lines.len(), parent_lines[i]));
        }
    }
    if content {
        // the richest record: the longest line of the first sequential trace
        let mut best = (0usize, 0usize);
        let mut k = 0usize;
        for l in &expect[0].lines {
            if l.starts_with("rec[") || l.starts_with("line[") {
                if l.len() > best.1 {
                    best = (k, l.len());
                }
                k += 1;
            }
        }
        case.dirty = best.0;
        // the pre-dirtied traces depend on it
        for (i, s) in case.scripts.iter().enumerate() {
            if matches!((f, s), (Format::Fastq, Script::Seq(2)) | (_, Script::Seq(4 | 5))) {
                expect_fix.push(i);
            }
        }
    }
    case.expect = expect;
    for i in expect_fix {
        let s = case.scripts[i].clone();
        case.expect[i] = sync_drive(&case, &s);
    }
    Ok(case)
}

fn try_build_index(format: Format, bytes: &[u8]) -> io::Result<IndexData> {
    use std::io::Write;
    let mut t = tempfile::NamedTempFile::new()?;
    t.write_all(bytes)?;
    t.flush()?;
    Ok(match format {
        Format::Bam => IndexData::Linear(bam::fs::index(t.path())?),
        Format::Bcf => IndexData::Binned(bcf::fs::index(t.path())?),
        Format::SamGz => IndexData::Binned(sam::fs::index(t.path())?),
        Format::VcfGz => IndexData::Linear(vcf::fs::index(t.path())?),
        Format::Cram => IndexData::Crai(cram::fs::index(t.path())?),
        f => return Err(io::Error::other(format!("no indexer for {f}"))),
    })
}

// ------------------------------------------------------------------------------------------ paired drivers

macro_rules! aw {
    (sync, $e:expr) => {
        $e
    };
    (asyn, $e:expr) => {
        $e.await
    };
}

/// A sync iterator / a pinned async stream; `nx!` takes the next item of either.
macro_rules! st {
    (sync, $e:expr) => {
        $e
    };
    (asyn, $e:expr) => {
        std::pin::pin!($e)
    };
}
macro_rules! nx {
    (sync, $s:expr) => {
        $s.next()
    };
    (asyn, $s:expr) => {
        $s.next().await
    };
}

macro_rules! with_binning_index {
    ($case:expr, $idx:ident, $body:expr) => {
        match $case.index.as_deref() {
            Some(IndexData::Linear($idx)) => $body,
            Some(IndexData::Binned($idx)) => $body,
            _ => unreachable!("script needs a binning index"),
        }
    };
}

/// Drains an iterator / stream of `io::Result<record>` into `q[i]: …` lines.
macro_rules! drain {
    ($m:ident, $t:ident, $s:expr, $tag:literal, $render:expr) => {{
        let mut s = st!($m, $s);
        let mut i = 0usize;
        loop {
            match nx!($m, s) {
                None => break true,
                Some(Ok(rec)) => {
                    let line = $render(&rec);
                    $t.push(format!("{}[{i}]: {line}", $tag));
                }
                Some(Err(e)) => {
                    $t.err("end", &e);
                    break false;
                }
            }
            i += 1;
        }
    }};
}

/// Sequential APIs 0 (`read_record`) and 2 (`records()`) of BAM / SAM / VCF / BCF readers.
macro_rules! seq_lazy {
    ($m:ident, $t:ident, $r:ident, $vm:ident, $api:expr, $render:expr) => {{
        match $api {
            0 | 4 => {
                let mut rec = Default::default();
                if $api == 4 {
                    // the record object holds the richest record of the document before the first read
                    Prefill::prefill(&mut rec);
                }
                let mut i = 0usize;
                loop {
                    let before = at(&mut $t, $vm, $r.get_ref().vpos());
                    match aw!($m, $r.read_record(&mut rec)) {
                        Ok(0) => break,
                        Ok(n) => {
                            $t.counts.push(n);
                            let line = $render(&rec);
                            $t.push(format!("rec[{i}]:{before} {line}"));
                        }
                        Err(e) => {
                            $t.err("end", &e);
                            return $t;
                        }
                    }
                    i += 1;
                }
            }
            _ => {
                if !drain!($m, $t, $r.records(), "rec", $render) {
                    return $t;
                }
            }
        }
    }};
}

/// Sequential APIs 1 (`read_record_buf`) and 3 (`record_bufs()`).
macro_rules! seq_bufs {
    ($m:ident, $t:ident, $r:ident, $vm:ident, $api:expr, $header:ident, $render:expr) => {{
        match $api {
            1 | 5 => {
                let mut rec = Default::default();
                if $api == 5 {
                    Prefill::prefill(&mut rec);
                }
                let mut i = 0usize;
                loop {
                    let before = at(&mut $t, $vm, $r.get_ref().vpos());
                    match aw!($m, $r.read_record_buf(&$header, &mut rec)) {
                        Ok(0) => break,
                        Ok(n) => {
                            $t.counts.push(n);
                            let line = $render(&rec);
                            $t.push(format!("rec[{i}]:{before} {line}"));
                        }
                        Err(e) => {
                            $t.err("end", &e);
                            return $t;
                        }
                    }
                    i += 1;
                }
            }
            _ => {
                if !drain!($m, $t, $r.record_bufs(&$header), "rec", $render) {
                    return $t;
                }
            }
        }
    }};
}

/// Region queries, `query_unmapped` (when `$unmapped` is `yes`) and the read-query-read script on a BGZF
/// based reader with a binning index.
macro_rules! indexed_scripts {
    ($m:ident, $t:ident, $r:ident, $vm:ident, $case:ident, $script:ident, $header:ident, $render:expr, $unmapped:tt) => {{
        match $script {
            Script::Seq(_) => unreachable!(),
            Script::Query(_, regions) => {
                for region in regions {
                    if region == "*" {
                        // `query_unmapped` between region queries (it seeks through `seek()`, not `poll_seek`)
                        indexed_scripts!(@unmapped $unmapped, $m, $t, $r, $vm, $case, $render);
                        continue;
                    }
                    let parsed: Region = region.parse().expect("region literal");
                    let q = with_binning_index!($case, idx, $r.query(&$header, idx, &parsed));
                    match q {
                        Err(e) => $t.err(&format!("query {region}"), &e),
                        Ok(q) => {
                            $t.push(format!("query {region}:"));
                            if !drain!($m, $t, q.records(), "q", $render) {
                                return $t;
                            }
                        }
                    }
                    let after = at(&mut $t, $vm, $r.get_ref().vpos());
                    $t.push(format!("query {region} done{after}"));
                }
            }
            Script::Unmapped => {
                indexed_scripts!(@unmapped $unmapped, $m, $t, $r, $vm, $case, $render);
            }
            Script::Mixed(region) => {
                // one record sequentially
                let mut rec = Default::default();
                let before = at(&mut $t, $vm, $r.get_ref().vpos());
                match aw!($m, $r.read_record(&mut rec)) {
                    Ok(n) => {
                        $t.counts.push(n);
                        if n > 0 {
                            let line = $render(&rec);
                            $t.push(format!("rec[0]:{before} {line}"));
                        }
                    }
                    Err(e) => {
                        $t.err("end", &e);
                        return $t;
                    }
                }
                let parsed: Region = region.parse().expect("region literal");
                let q = with_binning_index!($case, idx, $r.query(&$header, idx, &parsed));
                match q {
                    Err(e) => $t.err(&format!("query {region}"), &e),
                    Ok(q) => {
                        $t.push(format!("query {region}:"));
                        if !drain!($m, $t, q.records(), "q", $render) {
                            return $t;
                        }
                    }
                }
                // and sequential reading continues from wherever the query left the stream
                let mut i = 1usize;
                loop {
                    let before = at(&mut $t, $vm, $r.get_ref().vpos());
                    match aw!($m, $r.read_record(&mut rec)) {
                        Ok(0) => break,
                        Ok(n) => {
                            $t.counts.push(n);
                            let line = $render(&rec);
                            $t.push(format!("rec[{i}]:{before} {line}"));
                        }
                        Err(e) => {
                            $t.err("end", &e);
                            return $t;
                        }
                    }
                    i += 1;
                }
            }
        }
    }};
    (@unmapped yes, $m:ident, $t:ident, $r:ident, $vm:ident, $case:ident, $render:expr) => {{
        // the stream type depends on the index type: each index arm drains its own stream
        let ok = with_binning_index!($case, idx, {
            match aw!($m, $r.query_unmapped(idx)) {
                Err(e) => {
                    $t.err("query_unmapped", &e);
                    true
                }
                Ok(q) => {
                    $t.push("query_unmapped:".to_string());
                    drain!($m, $t, q, "q", $render)
                }
            }
        });
        if !ok {
            return $t;
        }
        let after = at(&mut $t, $vm, $r.get_ref().vpos());
        $t.push(format!("query_unmapped done{after}"));
    }};
    (@unmapped no, $m:ident, $t:ident, $r:ident, $vm:ident, $case:ident, $render:expr) => {{
        no_query_unmapped();
    }};
}

fn no_query_unmapped() {
    unreachable!("no query_unmapped for this format")
}

macro_rules! finish {
    ($t:ident, $r:ident, $vm:ident) => {{
        let fin = at(&mut $t, $vm, $r.get_ref().vpos());
        $t.push(format!("end: EOF{fin}"));
        return $t;
    }};
}

// --- BAM / SAM.gz (alignment readers on BGZF, with queries) -----------------------------------------

macro_rules! aln_bgzf_body {
    ($m:ident, $r:ident, $case:ident, $script:ident) => {{
        let mut t = Tr::default();
        let vm = $case.vmap.as_ref();
        let lim = $case.lim;
        let header = match aw!($m, $r.read_header()) {
            Ok(h) => h,
            Err(e) => {
                t.err("end", &e);
                return t;
            }
        };
        let pos = at(&mut t, vm, $r.get_ref().vpos());
        t.push(format!("{}{pos}", render_sam_header(&header)));
        let render = |rec: &dyn sam::alignment::Record| render_alignment_record(&header, rec, &lim);
        match $script {
            Script::Seq(api @ (0 | 2 | 4)) => seq_lazy!($m, t, $r, vm, *api, |rec| render(rec)),
            Script::Seq(api) => seq_bufs!($m, t, $r, vm, *api, header, |rec| render(rec)),
            other => indexed_scripts!($m, t, $r, vm, $case, other, header, |rec| render(rec), yes),
        }
        finish!(t, $r, vm)
    }};
}

fn s_bam(case: &RCase, script: &Script) -> Tr {
    let mut r = bam::io::Reader::from(bgzf::io::Reader::new(Cursor::new(&case.bytes[..])));
    aln_bgzf_body!(sync, r, case, script)
}
async fn a_bam<S: AsyncRead + AsyncSeek + Unpin>(case: &RCase, script: &Script, src: S, w: usize) -> Tr {
    let mut r = bam::r#async::io::Reader::from(abgzf(src, w));
    aln_bgzf_body!(asyn, r, case, script)
}

fn s_samgz(case: &RCase, script: &Script) -> Tr {
    let mut r = sam::io::Reader::new(bgzf::io::Reader::new(Cursor::new(&case.bytes[..])));
    aln_bgzf_body!(sync, r, case, script)
}
async fn a_samgz<S: AsyncRead + AsyncSeek + Unpin>(case: &RCase, script: &Script, src: S, w: usize) -> Tr {
    let mut r = sam::r#async::io::Reader::new(abgzf(src, w));
    aln_bgzf_body!(asyn, r, case, script)
}

fn abgzf<S: AsyncRead>(src: S, w: usize) -> bgzf::r#async::io::Reader<S> {
    bgzf::r#async::io::reader::Builder::default().set_worker_count(NonZero::new(w).unwrap()).build_from_reader(src)
}

// --- plain SAM -------------------------------------------------------------------------------------

macro_rules! sam_body {
    ($m:ident, $r:ident, $case:ident, $script:ident) => {{
        let mut t = Tr::default();
        let vm: Option<&VMap> = None;
        let lim = $case.lim;
        let header = match aw!($m, $r.read_header()) {
            Ok(h) => h,
            Err(e) => {
                t.err("end", &e);
                return t;
            }
        };
        t.push(render_sam_header(&header));
        let render = |rec: &dyn sam::alignment::Record| render_alignment_record(&header, rec, &lim);
        match $script {
            Script::Seq(api @ (0 | 2 | 4)) => seq_lazy!($m, t, $r, vm, *api, |rec| render(rec)),
            Script::Seq(api) => seq_bufs!($m, t, $r, vm, *api, header, |rec| render(rec)),
            _ => unreachable!(),
        }
        finish!(t, $r, vm)
    }};
}

fn s_sam(case: &RCase, script: &Script) -> Tr {
    let mut r = sam::io::Reader::new(Cursor::new(&case.bytes[..]));
    sam_body!(sync, r, case, script)
}
async fn a_sam<S: AsyncBufRead + Unpin + Vp>(case: &RCase, script: &Script, src: S) -> Tr {
    let mut r = sam::r#async::io::Reader::new(src);
    sam_body!(asyn, r, case, script)
}

// --- VCF, VCF.gz, BCF ------------------------------------------------------------------------------

macro_rules! var_body {
    ($m:ident, $r:ident, $case:ident, $script:ident, $bufs:tt, $indexed:tt) => {{
        let mut t = Tr::default();
        let vm = $case.vmap.as_ref();
        let lim = $case.lim;
        let header = match aw!($m, $r.read_header()) {
            Ok(h) => h,
            Err(e) => {
                t.err("end", &e);
                return t;
            }
        };
        let pos = at(&mut t, vm, $r.get_ref().vpos());
        t.push(format!("{}{pos}", render_vcf_header(&header)));
        let render = |rec: &dyn vcf::variant::Record| render_variant_record(&header, rec, &lim);
        match $script {
            Script::Seq(api @ (0 | 2 | 4)) => seq_lazy!($m, t, $r, vm, *api, |rec| render(rec)),
            Script::Seq(api) => var_body!(@bufs $bufs, $m, t, $r, vm, *api, header, render),
            other => var_body!(@indexed $indexed, $m, t, $r, vm, $case, other, header, render),
        }
        finish!(t, $r, vm)
    }};
    (@bufs yes, $m:ident, $t:ident, $r:ident, $vm:ident, $api:expr, $header:ident, $render:ident) => {
        seq_bufs!($m, $t, $r, $vm, $api, $header, |rec| $render(rec))
    };
    (@bufs no, $m:ident, $t:ident, $r:ident, $vm:ident, $api:expr, $header:ident, $render:ident) => {{
        let _ = $api;
        unreachable!("no owned-record API in the async reader of this format")
    }};
    (@indexed yes, $m:ident, $t:ident, $r:ident, $vm:ident, $case:ident, $script:ident, $header:ident, $render:ident) => {
        indexed_scripts!($m, $t, $r, $vm, $case, $script, $header, |rec| $render(rec), no)
    };
    (@indexed no, $m:ident, $t:ident, $r:ident, $vm:ident, $case:ident, $script:ident, $header:ident, $render:ident) => {{
        let _ = $script;
        unreachable!("no queries on an uncompressed stream")
    }};
}

fn s_vcf(case: &RCase, script: &Script) -> Tr {
    let mut r = vcf::io::Reader::new(Cursor::new(&case.bytes[..]));
    var_body!(sync, r, case, script, yes, no)
}
async fn a_vcf<S: AsyncBufRead + Unpin + Vp>(case: &RCase, script: &Script, src: S) -> Tr {
    let mut r = vcf::r#async::io::Reader::new(src);
    var_body!(asyn, r, case, script, yes, no)
}

fn s_vcfgz(case: &RCase, script: &Script) -> Tr {
    let mut r = vcf::io::Reader::new(bgzf::io::Reader::new(Cursor::new(&case.bytes[..])));
    var_body!(sync, r, case, script, yes, yes)
}
async fn a_vcfgz<S: AsyncRead + AsyncSeek + Unpin>(case: &RCase, script: &Script, src: S, w: usize) -> Tr {
    let mut r = vcf::r#async::io::Reader::new(abgzf(src, w));
    var_body!(asyn, r, case, script, yes, yes)
}

fn s_bcf(case: &RCase, script: &Script) -> Tr {
    let mut r = bcf::io::Reader::from(bgzf::io::Reader::new(Cursor::new(&case.bytes[..])));
    var_body!(sync, r, case, script, no, yes)
}
async fn a_bcf<S: AsyncRead + AsyncSeek + Unpin>(case: &RCase, script: &Script, src: S, w: usize) -> Tr {
    let mut r = bcf::r#async::io::Reader::from(abgzf(src, w));
    var_body!(asyn, r, case, script, no, yes)
}

// --- CRAM ------------------------------------------------------------------------------------------

macro_rules! cram_body {
    ($m:ident, $r:ident, $case:ident, $script:ident, $repo:ident) => {{
        let mut t = Tr::default();
        let lim = $case.lim;
        let header = match aw!($m, $r.read_header()) {
            Ok(h) => h,
            Err(e) => {
                t.err("end", &e);
                return t;
            }
        };
        match aw!($m, $r.position()) {
            Ok(p) => t.push(format!("{} @{p}", render_sam_header(&header))),
            Err(e) => {
                t.err("position", &e);
                return t;
            }
        }
        let render = |rec: &dyn sam::alignment::Record| render_alignment_record(&header, rec, &lim);
        match $script {
            Script::Seq(0) => {
                if !drain!($m, t, $r.records(&header), "rec", |rec| render(rec)) {
                    return t;
                }
            }
            Script::Seq(_) => {
                let mut container = cram::io::reader::Container::default();
                let mut ci = 0usize;
                let mut i = 0usize;
                loop {
                    let before = match aw!($m, $r.position()) {
                        Ok(p) => p,
                        Err(e) => {
                            t.err("position", &e);
                            return t;
                        }
                    };
                    match aw!($m, $r.read_container(&mut container)) {
                        Ok(0) => break,
                        Ok(n) => {
                            t.counts.push(n);
                            let h = container.header();
                            t.push(format!(
                                "container[{ci}]: @{before} ctx={:?} records={} counter={} bases={} blocks={} landmarks={:?}",
                                h.reference_sequence_context(),
                                h.record_count(),
                                h.record_counter(),
                                h.base_count(),
                                h.block_count(),
                                h.landmarks()
                            ));
                            let ch = match container.compression_header() {
                                Ok(ch) => ch,
                                Err(e) => {
                                    t.err("end", &e);
                                    return t;
                                }
                            };
                            for slice in container.slices() {
                                let recs = slice.and_then(|slice| {
                                    let (core, ext) = slice.decode_blocks()?;
                                    let recs = slice.records($repo.clone(), &header, &ch, &core, &ext)?;
                                    Ok(recs.iter().map(|rec| render(rec)).collect::<Vec<_>>())
                                });
                                match recs {
                                    Ok(lines) => {
                                        for line in lines {
                                            t.push(format!("rec[{i}]: {line}"));
                                            i += 1;
                                        }
                                    }
                                    Err(e) => {
                                        t.err("end", &e);
                                        return t;
                                    }
                                }
                            }
                        }
                        Err(e) => {
                            t.err("end", &e);
                            return t;
                        }
                    }
                    ci += 1;
                }
            }
            Script::Query(_, regions) => {
                let Some(IndexData::Crai(idx)) = $case.index.as_deref() else { unreachable!() };
                for region in regions {
                    let parsed: Region = region.parse().expect("region literal");
                    match $r.query(&header, idx, &parsed) {
                        Err(e) => t.err(&format!("query {region}"), &e),
                        Ok(q) => {
                            t.push(format!("query {region}:"));
                            if !drain!($m, t, q.records(), "q", |rec| render(rec)) {
                                return t;
                            }
                        }
                    }
                    t.push(format!("query {region} done"));
                }
            }
            Script::Unmapped => {
                let Some(IndexData::Crai(idx)) = $case.index.as_deref() else { unreachable!() };
                match aw!($m, $r.query_unmapped(&header, idx)) {
                    Err(e) => t.err("query_unmapped", &e),
                    Ok(q) => {
                        t.push("query_unmapped:".to_string());
                        if !drain!($m, t, q, "q", |rec| render(rec)) {
                            return t;
                        }
                    }
                }
                t.push("query_unmapped done".to_string());
            }
            Script::Mixed(_) => unreachable!(),
        }
        match aw!($m, $r.position()) {
            Ok(p) => t.push(format!("end: EOF @{p}")),
            Err(e) => t.err("position", &e),
        }
        return t;
    }};
}

fn s_cram(case: &RCase, script: &Script) -> Tr {
    let repo = vnd::records::repository();
    let mut r = cram::io::reader::Builder::default().set_reference_sequence_repository(repo.clone()).build_from_reader(Cursor::new(&case.bytes[..]));
    cram_body!(sync, r, case, script, repo)
}
async fn a_cram<S: AsyncRead + AsyncSeek + Unpin>(case: &RCase, script: &Script, src: S) -> Tr {
    let repo = vnd::records::repository();
    let mut r = cram::r#async::io::reader::Builder::default().set_reference_sequence_repository(repo.clone()).build_from_reader(src);
    cram_body!(asyn, r, case, script, repo)
}

// --- FASTA -----------------------------------------------------------------------------------------

macro_rules! fasta_body {
    ($m:ident, $r:ident) => {{
        let mut t = Tr::default();
        let mut def = fasta::record::Definition::default();
        let mut i = 0usize;
        loop {
            match aw!($m, $r.read_definition(&mut def)) {
                Ok(0) => break,
                Ok(n) => t.counts.push(n),
                Err(e) => {
                    t.err("end", &e);
                    return t;
                }
            }
            let mut seq = Vec::new();
            match aw!($m, $r.read_sequence(&mut seq)) {
                // sync: number of bases; async: number of bytes consumed (documented only for sync)
                Ok(n) => t.counts.push(n),
                Err(e) => {
                    t.err("end", &e);
                    return t;
                }
            }
            t.push(format!("rec[{i}]: {}", render_fasta_record(def.name(), def.description().map(|d| d.as_ref()), &seq)));
            i += 1;
        }
        t.push("end: EOF".to_string());
        return t;
    }};
}

fn s_fasta(case: &RCase) -> Tr {
    let mut r = fasta::io::Reader::new(Cursor::new(&case.bytes[..]));
    fasta_body!(sync, r)
}
async fn a_fasta<S: AsyncBufRead + Unpin>(src: S) -> Tr {
    let mut r = fasta::r#async::io::Reader::new(src);
    fasta_body!(asyn, r)
}

// --- FASTQ -----------------------------------------------------------------------------------------

macro_rules! fastq_body {
    ($m:ident, $r:ident, $script:ident) => {{
        let mut t = Tr::default();
        match $script {
            Script::Seq(a @ (0 | 2)) => {
                let mut rec = fastq::Record::default();
                if *a == 2 {
                    Prefill::prefill(&mut rec);
                }
                let mut i = 0usize;
                loop {
                    match aw!($m, $r.read_record(&mut rec)) {
                        Ok(0) => break,
                        Ok(n) => {
                            t.counts.push(n);
                            t.push(format!("rec[{i}]: {}", render_fastq_record(&rec)));
                        }
                        Err(e) => {
                            t.err("end", &e);
                            return t;
                        }
                    }
                    i += 1;
                }
            }
            _ => {
                if !drain!($m, t, $r.records(), "rec", |rec| render_fastq_record(rec)) {
                    return t;
                }
            }
        }
        t.push("end: EOF".to_string());
        return t;
    }};
}

fn s_fastq(case: &RCase, script: &Script) -> Tr {
    let mut r = fastq::io::Reader::new(Cursor::new(&case.bytes[..]));
    fastq_body!(sync, r, script)
}
async fn a_fastq<S: AsyncBufRead + Unpin>(script: &Script, src: S) -> Tr {
    let mut r = fastq::r#async::io::Reader::new(src);
    fastq_body!(asyn, r, script)
}

// --- GFF -------------------------------------------------------------------------------------------

fn render_gff_line_buf(l: &gff::LineBuf, lim: &Limits) -> String {
    match l {
        gff::LineBuf::Record(rec) => format!("record {}", render_feature_record(rec, lim)),
        other => vnd::render::esc(format!("{other:?}")),
    }
}

macro_rules! gff_body {
    ($m:ident, $r:ident, $case:ident, $script:ident) => {{
        let mut t = Tr::default();
        let lim = $case.lim;
        match $script {
            Script::Seq(a @ (0 | 4)) => {
                let mut line = gff::Line::default();
                if *a == 4 {
                    Prefill::prefill(&mut line);
                }
                let mut i = 0usize;
                loop {
                    match aw!($m, $r.read_line(&mut line)) {
                        Ok(0) => break,
                        Ok(n) => {
                            t.counts.push(n);
                            t.push(format!("line[{i}]: {}", render_gff_line(&line, &lim)));
                        }
                        Err(e) => {
                            t.err("end", &e);
                            return t;
                        }
                    }
                    i += 1;
                }
            }
            Script::Seq(1) => {
                if !drain!($m, t, $r.lines(), "line", |l| render_gff_line(l, &lim)) {
                    return t;
                }
            }
            Script::Seq(2) => {
                if !drain!($m, t, $r.line_bufs(), "line", |l| render_gff_line_buf(l, &lim)) {
                    return t;
                }
            }
            _ => {
                if !drain!($m, t, $r.record_bufs(), "rec", |rec| render_feature_record(rec, &lim)) {
                    return t;
                }
            }
        }
        t.push("end: EOF".to_string());
        return t;
    }};
}

fn s_gff(case: &RCase, script: &Script) -> Tr {
    let mut r = gff::io::Reader::new(Cursor::new(&case.bytes[..]));
    gff_body!(sync, r, case, script)
}
async fn a_gff<S: AsyncBufRead + Unpin>(case: &RCase, script: &Script, src: S) -> Tr {
    let mut r = gff::r#async::io::Reader::new(src);
    gff_body!(asyn, r, case, script)
}

// --- index files -----------------------------------------------------------------------------------

macro_rules! binning_index_body {
    ($m:ident, $r:ident, $case:ident) => {{
        let mut t = Tr::default();
        match aw!($m, $r.read_index()) {
            Ok(idx) => {
                for l in render_binning_index(&idx, &$case.lim) {
                    t.push(l);
                }
                t.push("end: EOF".to_string());
            }
            Err(e) => t.err("end", &e),
        }
        return t;
    }};
}

fn s_bai(case: &RCase) -> Tr {
    let mut r = bam::bai::io::Reader::new(Cursor::new(&case.bytes[..]));
    binning_index_body!(sync, r, case)
}
async fn a_bai<S: AsyncRead + Unpin>(case: &RCase, src: S) -> Tr {
    let mut r = bam::bai::r#async::io::Reader::new(src);
    binning_index_body!(asyn, r, case)
}
fn s_csi(case: &RCase) -> Tr {
    let mut r = csi::io::Reader::new(Cursor::new(&case.bytes[..]));
    binning_index_body!(sync, r, case)
}
async fn a_csi<S: AsyncRead + Unpin>(case: &RCase, src: S) -> Tr {
    // the CSI / tabix async readers build their BGZF reader themselves (default worker count)
    let mut r = csi::r#async::io::Reader::new(src);
    binning_index_body!(asyn, r, case)
}
fn s_tbi(case: &RCase) -> Tr {
    let mut r = tabix::io::Reader::new(Cursor::new(&case.bytes[..]));
    binning_index_body!(sync, r, case)
}
async fn a_tbi<S: AsyncRead + Unpin>(case: &RCase, src: S) -> Tr {
    let mut r = tabix::r#async::io::Reader::new(src);
    binning_index_body!(asyn, r, case)
}

macro_rules! gzi_body {
    ($m:ident, $r:ident) => {{
        let mut t = Tr::default();
        match aw!($m, $r.read_index()) {
            Ok(idx) => {
                for (i, (c, u)) in idx.as_ref().iter().enumerate() {
                    t.push(format!("rec[{i}]: compressed={c} uncompressed={u}"));
                }
                t.push("end: EOF".to_string());
            }
            Err(e) => t.err("end", &e),
        }
        return t;
    }};
}
fn s_gzi(case: &RCase) -> Tr {
    let mut r = bgzf::gzi::io::Reader::new(Cursor::new(&case.bytes[..]));
    gzi_body!(sync, r)
}
async fn a_gzi<S: AsyncRead + Unpin>(src: S) -> Tr {
    let mut r = bgzf::gzi::r#async::io::Reader::new(src);
    gzi_body!(asyn, r)
}

macro_rules! fai_body {
    ($m:ident, $r:ident) => {{
        let mut t = Tr::default();
        match aw!($m, $r.read_index()) {
            Ok(idx) => {
                for (i, rec) in idx.as_ref().iter().enumerate() {
                    t.push(format!("rec[{i}]: {}", render_fai_record(rec)));
                }
                t.push("end: EOF".to_string());
            }
            Err(e) => t.err("end", &e),
        }
        return t;
    }};
}
fn s_fai(case: &RCase) -> Tr {
    let mut r = fasta::fai::io::Reader::new(Cursor::new(&case.bytes[..]));
    fai_body!(sync, r)
}
async fn a_fai<S: AsyncBufRead + Unpin>(src: S) -> Tr {
    let mut r = fasta::fai::r#async::io::Reader::new(src);
    fai_body!(asyn, r)
}

macro_rules! crai_body {
    ($m:ident, $r:ident, $script:ident) => {{
        let mut t = Tr::default();
        match $script {
            Script::Seq(0) => match aw!($m, $r.read_index()) {
                Ok(idx) => {
                    for (i, rec) in idx.iter().enumerate() {
                        t.push(format!("rec[{i}]: {}", render_crai_record(rec)));
                    }
                }
                Err(e) => {
                    t.err("end", &e);
                    return t;
                }
            },
            _ => {
                let mut rec = cram::crai::Record::default();
                let mut i = 0usize;
                loop {
                    match aw!($m, $r.read_record(&mut rec)) {
                        Ok(0) => break,
                        Ok(n) => {
                            t.counts.push(n);
                            t.push(format!("rec[{i}]: {}", render_crai_record(&rec)));
                        }
                        Err(e) => {
                            t.err("end", &e);
                            return t;
                        }
                    }
                    i += 1;
                }
            }
        }
        t.push("end: EOF".to_string());
        return t;
    }};
}
fn s_crai(case: &RCase, script: &Script) -> Tr {
    let mut r = cram::crai::io::Reader::new(Cursor::new(&case.bytes[..]));
    crai_body!(sync, r, script)
}
async fn a_crai<S: AsyncRead + Unpin>(script: &Script, src: S) -> Tr {
    let mut r = cram::crai::r#async::io::Reader::new(src);
    crai_body!(asyn, r, script)
}

// ------------------------------------------------------------------------------------------ dispatch

pub fn sync_drive(case: &RCase, script: &Script) -> Tr {
    presence::set_dirt(Some((case.format, case.bytes.clone(), case.dirty)));
    match case.format {
        Format::Bam => s_bam(case, script),
        Format::SamGz => s_samgz(case, script),
        Format::Sam => s_sam(case, script),
        Format::Vcf => s_vcf(case, script),
        Format::VcfGz => s_vcfgz(case, script),
        Format::Bcf => s_bcf(case, script),
        Format::Cram => s_cram(case, script),
        Format::Fasta => s_fasta(case),
        Format::Fastq => s_fastq(case, script),
        Format::Gff => s_gff(case, script),
        Format::Bai => s_bai(case),
        Format::Csi => s_csi(case),
        Format::Tbi => s_tbi(case),
        Format::Gzi => s_gzi(case),
        Format::Fai => s_fai(case),
        Format::Crai => s_crai(case, script),
        f => unreachable!("no reader driver for {f}"),
    }
}

pub async fn async_drive<S>(case: &RCase, script: &Script, src: S, w: usize) -> Tr
where
    S: AsyncRead + AsyncBufRead + AsyncSeek + Unpin + Vp,
{
    presence::set_dirt(Some((case.format, case.bytes.clone(), case.dirty)));
    match case.format {
        Format::Bam => a_bam(case, script, src, w).await,
        Format::SamGz => a_samgz(case, script, src, w).await,
        Format::Sam => a_sam(case, script, src).await,
        Format::Vcf => a_vcf(case, script, src).await,
        Format::VcfGz => a_vcfgz(case, script, src, w).await,
        Format::Bcf => a_bcf(case, script, src, w).await,
        Format::Cram => a_cram(case, script, src).await,
        Format::Fasta => a_fasta(src).await,
        Format::Fastq => a_fastq(script, src).await,
        Format::Gff => a_gff(case, script, src).await,
        Format::Bai => a_bai(case, src).await,
        Format::Csi => a_csi(case, src).await,
        Format::Tbi => a_tbi(case, src).await,
        Format::Gzi => a_gzi(src).await,
        Format::Fai => a_fai(src).await,
        Format::Crai => a_crai(script, src).await,
        f => unreachable!("no reader driver for {f}"),
    }
}

// ------------------------------------------------------------------------------------------ comparison

fn line_kind(l: &str) -> &str {
    let head = l.split(':').next().unwrap_or("");
    let head = head.split('[').next().unwrap_or(head);
    let head = head.split(' ').next().unwrap_or(head);
    match head {
        "header" | "rec" | "q" | "line" | "container" | "end" | "query" | "query_unmapped" | "index" | "ref" | "index-trait" | "position" => head,
        _ => "other",
    }
}

fn strip_vpos(l: &str) -> String {
    // "rec[3]: @123 name=…" -> "rec[3]: name=…"; " … @123" suffixes of header / end / done lines
    let mut out = Vec::new();
    for w in l.split(' ') {
        if w.len() > 1 && w.starts_with('@') && (w[1..].bytes().all(|b| b.is_ascii_digit()) || w[1..].starts_with("unresolvable")) {
            continue;
        }
        out.push(w);
    }
    out.join(" ")
}

/// Compares the async trace with the synchronous one. The fingerprint names format, script, the kind of
/// the first differing line and what differs.
pub fn compare(ch: &Chooser, case: &RCase, script: &Script, got: &Tr, how: &dyn Fn() -> String) -> Outcome {
    let want = &case.expect[case.scripts.iter().position(|s| s == script).unwrap()];
    let fmt = case.format.name();
    let sname = case.sname(script);
    let n = want.lines.len().min(got.lines.len());
    for i in 0..n {
        let (e, a) = (&want.lines[i], &got.lines[i]);
        if e == a {
            continue;
        }
        let kind = line_kind(e);
        let symptom = if kind == "q" && a.starts_with("query") && a.ends_with(|c: char| c.is_ascii_digit() || c == 'e') && a.contains(" done") {
            // the sync query yields a record where the async query is already exhausted
            "async-query-ends-early".to_string()
        } else if kind == "query" && e.contains(" done") && line_kind(a) == "q" {
            // the async query yields a record where the sync query is already exhausted
            "async-query-yields-more-records".to_string()
        } else if line_kind(a) != kind {
            format!("outcome-differs-async-{}", line_kind(a))
        } else if strip_vpos(e) == strip_vpos(a) {
            "virtual-position-differs".to_string()
        } else if a.contains("\\r") && !e.contains("\\r") {
            "carriage-return-kept".to_string()
        } else {
            "value-differs".to_string()
        };
        if std::env::var_os("C16_DUMP").is_some() {
            for (k, (x, y)) in want.lines.iter().zip(&got.lines).enumerate() {
                eprintln!("DUMP {k} sync : {}\nDUMP {k} async: {}", &x[..x.len().min(150)], &y[..y.len().min(150)]);
            }
            eprintln!("DUMP raw sync {:?}\nDUMP raw async {:?}", want.raw.iter().map(|v| (v >> 16, v & 0xffff)).collect::<Vec<_>>(), got.raw.iter().map(|v| (v >> 16, v & 0xffff)).collect::<Vec<_>>());
        }
        return Err(Violation::new(
            format!("fmt-reader format={fmt} script={sname} line={kind} symptom={symptom}"),
            how(),
            format!("line {i} (sync): {e}"),
            format!("line {i} (async): {a}"),
        ));
    }
    if want.lines.len() != got.lines.len() {
        let (longer, who) = if want.lines.len() > got.lines.len() { (&want.lines, "sync") } else { (&got.lines, "async") };
        return Err(Violation::new(
            format!("fmt-reader format={fmt} script={sname} line={} symptom={who}-trace-longer", line_kind(&longer[n])),
            how(),
            format!("{} lines; line {n}: {:?}", want.lines.len(), want.lines.get(n)),
            format!("{} lines; line {n}: {:?}", got.lines.len(), got.lines.get(n)),
        ));
    }
    if want.raw != got.raw {
        ch.tag("vpos-equivalent-encoding-differs");
    }
    if want.counts != got.counts {
        ch.tag(match case.format {
            Format::Fasta => "returned-byte-count-differs:fasta",
            Format::Gff => "returned-byte-count-differs:gff",
            Format::Fastq => "returned-byte-count-differs:fastq",
            Format::Cram => "returned-byte-count-differs:cram",
            Format::Crai => "returned-byte-count-differs:crai",
            _ => "returned-byte-count-differs:other",
        });
    }
    if want.msgs != got.msgs {
        if std::env::var_os("C16_DEBUG").is_some() {
            eprintln!("MSGDIFF {} {}: sync={:?} async={:?}", case.name, sname, want.msgs, got.msgs);
        }
        ch.tag("error-message-differs");
    }
    if !want.msgs.is_empty() {
        ch.tag("error-kind-compared");
    }
    Ok(())
}

// ------------------------------------------------------------------------------------------ harness bodies

fn describe(case: &RCase, script: &Script, w: usize, src: &str) -> String {
    let what = match script {
        Script::Seq(_) => String::new(),
        Script::Query(_, r) => format!(" regions={r:?}"),
        Script::Unmapped => String::new(),
        Script::Mixed(r) => format!(" region={r}"),
    };
    format!(
        "async {} reader doc={} ({} bytes) script={}{what}{} source={src}",
        case.format,
        case.name,
        case.bytes.len(),
        script_name(case.format, script),
        if case.workers_apply { format!(" workers={w}") } else { String::new() }
    )
}

fn sizes(v: &[usize]) -> String {
    // run-length rendering of the delivered-size log (0 = Pending)
    let mut s = String::new();
    let mut i = 0;
    while i < v.len() {
        let mut j = i;
        while j < v.len() && v[j] == v[i] {
            j += 1;
        }
        if !s.is_empty() {
            s.push(',');
        }
        if j - i > 1 {
            s.push_str(&format!("{}x{}", v[i], j - i));
        } else {
            s.push_str(&format!("{}", v[i]));
        }
        if s.len() > 300 {
            s.push_str(",…");
            break;
        }
        i = j;
    }
    s
}

fn horizon(case: &RCase) -> usize {
    20_000 + 8 * case.bytes.len()
}

/// E1 body: document x script x worker count x poll mode, then every poll decision / schedule.
pub fn reader_body(ch: &Chooser, cases: &[&RCase], workers: &[usize], modes: &[PollMode]) -> Outcome {
    let case = *ch.pick_free("doc", cases);
    let case = match ch.free("layout", 1 + case.twins.len()) {
        0 => case,
        k => &case.twins[k - 1],
    };
    if case.layout.is_some() {
        ch.tag("foreign-layout");
    }
    let script = &case.scripts[ch.free("script", case.scripts.len())];
    let w = if case.workers_apply { *ch.pick_free("workers", workers) } else { 1 };
    let mode = ch.pick_free("mode", modes).clone();
    let src = PollReader::new(case.bytes.clone(), mode.clone(), Some(ch.clone()));
    let delivered = src.log.clone();
    let mut cfg = RtConfig::new(w, CostModel::Delay);
    cfg.horizon = horizon(case);
    let caught = vmc::catch(|| vrt::run(ch, cfg, || vrt::block_on(async_drive(case, script, src, w))));
    let how = |info: Option<&vrt::RunInfo>| {
        format!(
            "{} delivered(0=Pending)=[{}]{}",
            describe(case, script, w, &format!("PollReader({mode:?})")),
            sizes(&delivered.lock().unwrap()),
            info.map(|i| if i.schedule.is_empty() { String::new() } else { format!(" schedule: {}", i.schedule_string()) }).unwrap_or_default()
        )
    };
    let d = delivered.lock().unwrap().clone();
    finish_reader(ch, case, script, caught, &d, &how)
}

/// E1 body of the cut adversary: the document is delivered in windows that end at every chosen cut
/// offset (all cut sets of the given size are enumerated), optionally with a `Pending` before each window.
pub fn reader_cut_body(ch: &Chooser, cases: &[RCase], n_cuts: usize, stride: &dyn Fn(&RCase) -> usize) -> Outcome {
    let case = ch.pick_free("doc", cases);
    let script = &case.scripts[ch.free("script", case.scripts.len())];
    let w = 1;
    let len = case.bytes.len();
    let st = stride(case).max(1);
    let slots = if len > 1 { (len - 1).div_ceil(st) } else { 0 };
    let mut cuts = Vec::new();
    let mut lo = 0usize;
    for _ in 0..n_cuts {
        // strictly increasing cut offsets in 1..len
        if lo >= slots {
            break;
        }
        let k = lo + ch.free("cut", slots - lo);
        cuts.push((1 + k * st).min(len - 1));
        lo = k + 1;
    }
    // 0: always ready; 1: a self-waking Pending before each window; 2 (readers on the async BGZF reader):
    // the slow source of `cut.rs` with 2 workers — inflate tasks finish while the source is stalled mid-block
    let mode = ch.free("pending-before-each-window", if case.workers_apply { 3 } else { 2 });
    let pend = mode == 1;
    let w = if mode == 2 { 2 } else { w };
    let src = if mode == 2 { CutReader::new_slow(case.bytes.clone(), cuts.clone()) } else { CutReader::new(case.bytes.clone(), cuts.clone(), pend) };
    let delivered = src.log.clone();
    let mut cfg = RtConfig::new(w, CostModel::Delay);
    cfg.horizon = horizon(case);
    let caught = vmc::catch(|| vrt::run(ch, cfg, || vrt::block_on(async_drive(case, script, src, w))));
    let how = |info: Option<&vrt::RunInfo>| {
        let mut s = format!("{} windows end at offsets {cuts:?}", describe(case, script, w, &format!("CutReader({})", match mode { 0 => "always ready", 1 => "self-waking Pending before each window", _ => "slow: stalls at the first window end until the delivery thread has run" })));
        let show = |b: &[u8]| if case.format.is_text() { format!("{:?}", String::from_utf8_lossy(b)) } else { vmc::hex(b) };
        if len <= 96 {
            s.push_str(&format!(" bytes={}", show(&case.bytes)));
        } else if let Some(&c) = cuts.first() {
            let a = c.saturating_sub(12);
            let b = (c + 12).min(len);
            s.push_str(&format!(" bytes[{a}..{c}]={} bytes[{c}..{b}]={}", show(&case.bytes[a..c]), show(&case.bytes[c..b])));
        }
        let _ = info;
        s
    };
    ch.obs_hash(&cuts);
    let d = delivered.lock().unwrap().clone();
    finish_reader(ch, case, script, caught, &d, &how)
}

type Caught = Result<(Option<Tr>, vrt::RunInfo), (String, String)>;

fn finish_reader(ch: &Chooser, case: &RCase, script: &Script, caught: Caught, delivered: &[usize], how: &dyn Fn(Option<&vrt::RunInfo>) -> String) -> Outcome {
    let fmt = case.format.name();
    let sname = case.sname(script);
    let (tr, info) = match caught {
        Ok(x) => x,
        Err((msg, file)) => {
            return Err(Violation::new(
                format!("fmt-reader format={fmt} script={sname} outcome=panic msg={} file={}", vmc::normalise_msg(&msg), file),
                how(None),
                "no panic",
                format!("panic: {msg} in {file}"),
            ));
        }
    };
    ch.obs(info.schedule_string());
    ch.obs_hash(delivered);
    ch.steps(info.steps as u64 + delivered.len() as u64);
    if info.spawned_blocking >= 2 {
        ch.tag("two-or-more-inflate-tasks");
    }
    if delivered.contains(&0) {
        ch.tag("source-answered-pending");
    }
    check_info(&info, &|| how(Some(&info))).map_err(|mut v| {
        v.fingerprint = format!("fmt-reader format={fmt} script={sname} {}", v.fingerprint);
        v
    })?;
    let Some(tr) = tr else {
        return Err(Violation::new(format!("fmt-reader format={fmt} script={sname} outcome=aborted-without-cause"), how(Some(&info)), "completes", "unwound"));
    };
    ch.obs_hash(&tr.lines);
    ch.desc(|| how(Some(&info)));
    match script {
        Script::Seq(_) => ch.tag("script:sequential"),
        Script::Query(..) => ch.tag("script:query"),
        Script::Unmapped => ch.tag("script:query_unmapped"),
        Script::Mixed(_) => ch.tag("script:read-query-read"),
    }
    compare(ch, case, script, &tr, &|| how(Some(&info)))
}
