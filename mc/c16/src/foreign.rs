//! Foreign-layout twins: legal encodings of a corpus document that noodles never writes itself (other
//! tools do). Same content, different container layout; the synchronous reader on the twin's bytes is the
//! specification for the async reader, exactly as for the noodles-written documents. Twins the sync reader
//! rejects are recorded at start-up and not used.
//!
//! Builders only use encoders that are independent of the readers under test where one is at hand
//! (`vmc::oracle::bgzf` = miniz_oxide for DEFLATE / BGZF / gzip and CRC32); the CRAM rANS / LZMA encoders are
//! noodles' own (hook H3) — a twin they get wrong is rejected by the sync reader and dropped.

use noodles_cram::verif as cv;
use vmc::oracle::bgzf as ob;
use vnd::{Doc, Format, walk};

pub type Twin = (String, Vec<u8>);

/// Which corpus documents carry twins: one per format, and not the one the deep (bound 2 / 3) set picks.
pub fn carries_twins(doc: &Doc) -> bool {
    let plain = !doc.name.contains("crlf") && !doc.name.contains("reblocked") && !doc.big;
    let of = |n: &str| doc.index_of.as_deref() == Some(n);
    plain
        && match doc.format {
            // exact names: the thorough corpus has several documents per record set
            Format::Bam | Format::SamGz | Format::Sam => matches!(doc.name.as_str(), "bam-full-f3" | "samgz-full-f3" | "sam-full"),
            Format::Cram => doc.name == "cram-mapped-rps3",
            Format::Bcf | Format::VcfGz | Format::Vcf => matches!(doc.name.as_str(), "bcf-two-samples-f1" | "vcfgz-two-samples-f1" | "vcf-two-samples"),
            Format::Fasta => doc.name == "fasta-w60",
            Format::Fastq => doc.set == "desc",
            Format::Gff => doc.set == "gff0",
            Format::Bai => of("bam-full-f3"),
            Format::Csi => of("bcf-two-samples-f1"),
            Format::Tbi => of("vcfgz-sites-f2"),
            Format::Crai => of("cram-mapped-rps3"),
            _ => false,
        }
        || doc.format == Format::Fai && of("fasta-w13-crlf")
}

pub fn twins_of(doc: &Doc) -> Vec<Twin> {
    let mut v = Vec::new();
    match doc.format {
        Format::Bam | Format::Bcf | Format::SamGz | Format::VcfGz => bgzf_twins(doc, &mut v),
        Format::Cram => cram_twins(doc, &mut v),
        Format::Sam | Format::Vcf | Format::Fasta | Format::Fastq | Format::Gff | Format::Fai => text_twins(doc, &mut v),
        Format::Bai | Format::Csi | Format::Tbi => index_twins(doc, &mut v),
        Format::Crai => crai_twins(doc, &mut v),
        _ => {}
    }
    v
}

// ------------------------------------------------------------------------------------------ helpers

/// CRC32 through the independent BGZF block maker (its trailer carries the CRC of the payload).
fn crc32(b: &[u8]) -> u32 {
    let mut crc = 0xffff_ffffu32;
    for &x in b {
        crc ^= x as u32;
        for _ in 0..8 {
            crc = if crc & 1 != 0 { (crc >> 1) ^ 0xedb8_8320 } else { crc >> 1 };
        }
    }
    let own = !crc;
    if b.len() <= 60_000 {
        let blk = ob::make_block(b, 0);
        let n = blk.len();
        let theirs = u32::from_le_bytes([blk[n - 8], blk[n - 7], blk[n - 6], blk[n - 5]]);
        if own != theirs {
            vmc::machinery("c16 foreign: CRC32 implementations disagree");
        }
    }
    own
}

/// A plain gzip member (10-byte header, no extra field) around miniz_oxide's DEFLATE of `payload`.
pub fn gzip(payload: &[u8], level: u8) -> Vec<u8> {
    assert!(payload.len() <= 60_000);
    let blk = ob::make_block(payload, level);
    let mut out = vec![0x1f, 0x8b, 8, 0, 0, 0, 0, 0, 0, 0xff];
    out.extend_from_slice(&blk[18..]); // cdata, CRC32, ISIZE
    out
}

fn gunzip(b: &[u8], raw_len: usize) -> Option<Vec<u8>> {
    if b.len() < 18 || b[0] != 0x1f || b[1] != 0x8b || b[3] != 0 {
        return None;
    }
    let (out, _) = ob::inflate_raw(&b[10..], raw_len + 16).ok()?;
    Some(out)
}

fn to_crlf(b: &[u8]) -> Vec<u8> {
    let mut out = Vec::with_capacity(b.len() + b.len() / 16);
    for &c in b {
        if c == b'\n' {
            out.push(b'\r');
        }
        out.push(c);
    }
    out
}

// ------------------------------------------------------------------------------------------ BGZF based

fn bgzf_twins(doc: &Doc, v: &mut Vec<Twin>) {
    let Some(inner) = doc.inner.as_ref() else { return };
    let p = &inner.bytes[..];
    // record-aligned chunks: header, then one chunk per record
    let mut cuts: Vec<usize> = std::iter::once(inner.header_end).chain(inner.record_ends.iter().copied()).filter(|&c| c > 0 && c < p.len()).collect();
    cuts.sort_unstable();
    cuts.dedup();
    let chunks = |cuts: &[usize]| -> Vec<Vec<u8>> {
        let mut out = Vec::new();
        let mut prev = 0;
        for &c in cuts {
            out.push(p[prev..c].to_vec());
            prev = c;
        }
        out.push(p[prev..].to_vec());
        out
    };
    let rec = chunks(&cuts);
    // an empty member after every record-aligned member (and one in front)
    let mut blocks = vec![Vec::new()];
    for c in &rec {
        blocks.push(c.clone());
        blocks.push(Vec::new());
    }
    v.push(("empty-members-mid-stream".into(), ob::make_file(&blocks, true, 6).0));
    // the first 8 payload bytes (magic, header length) as 1-byte members
    let n1 = 8.min(p.len());
    let mut blocks: Vec<Vec<u8>> = p[..n1].iter().map(|&b| vec![b]).collect();
    let mut prev = n1;
    for &c in cuts.iter().filter(|&&c| c > n1) {
        blocks.push(p[prev..c].to_vec());
        prev = c;
    }
    blocks.push(p[prev..].to_vec());
    v.push(("one-byte-members".into(), ob::make_file(&blocks, true, 6).0));
    // stored (level 0) members, and no EOF marker
    v.push(("stored-members".into(), ob::make_file(&rec, true, 0).0));
    v.push(("no-eof-marker".into(), ob::make_file(&rec, false, 6).0));
    if doc.format == Format::Bam && p.len() > 8 && &p[..4] == b"BAM\x01" {
        let l_text = u32::from_le_bytes([p[4], p[5], p[6], p[7]]) as usize;
        if 8 + l_text <= p.len() {
            let text = &p[8..8 + l_text];
            let rebuild = |text: &[u8]| {
                let mut out = p[..4].to_vec();
                out.extend_from_slice(&(text.len() as u32).to_le_bytes());
                out.extend_from_slice(text);
                out.extend_from_slice(&p[8 + l_text..]);
                ob::make_file(&[out], true, 6).0
            };
            let mut padded = text.to_vec();
            padded.extend_from_slice(&[0, 0, 0]);
            v.push(("header-text-nul-padded".into(), rebuild(&padded)));
            if text.last() == Some(&b'\n') {
                v.push(("header-text-without-trailing-newline".into(), rebuild(&text[..l_text - 1])));
            }
        }
    }
}

/// The payload with a member boundary at every structural (field) boundary of the first records — the
/// many-members companion of `format_level::reblocked` (named `…-reblocked-in-counts-fields` so that it runs
/// with the other many-block documents).
pub fn split_at_field_boundaries(doc: &Doc, max: usize) -> Option<Doc> {
    if !matches!(doc.format, Format::Bam | Format::Bcf) || !carries_twins(doc) {
        return None;
    }
    let inner = doc.inner.as_ref()?;
    let p = &inner.bytes[..];
    let mut cuts: Vec<usize> = inner.boundaries.iter().copied().filter(|&c| c >= inner.header_end && c > 0 && c < p.len()).collect();
    cuts.sort_unstable();
    cuts.dedup();
    cuts.truncate(max.min(32));
    if cuts.is_empty() {
        return None;
    }
    let mut blocks = Vec::new();
    let mut prev = 0;
    for &c in &cuts {
        blocks.push(p[prev..c].to_vec());
        prev = c;
    }
    blocks.push(p[prev..].to_vec());
    let bytes = ob::make_file(&blocks, true, 6).0;
    Some(vnd::corpus::make_doc(doc.format, format!("{}-reblocked-in-counts-fields", doc.name), &doc.set, bytes, false))
}

// ------------------------------------------------------------------------------------------ text

fn text_twins(doc: &Doc, v: &mut Vec<Twin>) {
    let b = &doc.bytes[..];
    if b.is_empty() || b.contains(&b'\r') {
        return;
    }
    v.push(("crlf".into(), to_crlf(b)));
    if b.last() == Some(&b'\n') {
        v.push(("last-line-without-terminator".into(), b[..b.len() - 1].to_vec()));
        let c = to_crlf(b);
        v.push(("crlf-last-line-without-terminator".into(), c[..c.len() - 2].to_vec()));
        let mut e = b.to_vec();
        e.push(b'\n');
        v.push(("blank-line-at-end".into(), e));
        let mut e = to_crlf(b);
        e.extend_from_slice(b"\r\n");
        v.push(("crlf-blank-line-at-end".into(), e));
    }
    // a blank line after every second line (FASTA: inside the sequences)
    let mut e = Vec::new();
    for (i, line) in b.split_inclusive(|&c| c == b'\n').enumerate() {
        e.extend_from_slice(line);
        if i % 2 == 1 {
            e.push(b'\n');
        }
    }
    v.push(("blank-lines-between".into(), e));
}

// ------------------------------------------------------------------------------------------ indexes

fn index_twins(doc: &Doc, v: &mut Vec<Twin>) {
    let toggle = |p: &[u8], at: usize| -> (String, Vec<u8>) {
        if at + 8 == p.len() {
            ("without-n_no_coor".into(), p[..at].to_vec())
        } else {
            let mut out = p.to_vec();
            out.extend_from_slice(&3u64.to_le_bytes());
            ("with-n_no_coor".into(), out)
        }
    };
    match doc.format {
        Format::Bai => {
            let (label, bytes) = toggle(&doc.bytes, doc.header_end);
            v.push((label, bytes));
        }
        Format::Csi | Format::Tbi => {
            let Some(inner) = doc.inner.as_ref() else { return };
            let p = &inner.bytes[..];
            let (label, bytes) = toggle(p, inner.header_end);
            v.push((label, ob::make_file(&[bytes], true, 6).0));
            v.push(("stored-member-no-eof-marker".into(), ob::make_file(&[p.to_vec()], false, 0).0));
            if doc.format == Format::Tbi && p.len() > 36 {
                let l_nm = u32::from_le_bytes([p[32], p[33], p[34], p[35]]) as usize;
                if l_nm > 0 && 36 + l_nm <= p.len() && p[36 + l_nm - 1] == 0 {
                    let mut out = p[..32].to_vec();
                    out.extend_from_slice(&((l_nm - 1) as u32).to_le_bytes());
                    out.extend_from_slice(&p[36..36 + l_nm - 1]);
                    out.extend_from_slice(&p[36 + l_nm..]);
                    v.push(("names-without-final-nul".into(), ob::make_file(&[out], true, 6).0));
                }
            }
        }
        _ => {}
    }
}

fn crai_twins(doc: &Doc, v: &mut Vec<Twin>) {
    let Some(inner) = doc.inner.as_ref() else { return };
    let text = &inner.bytes[..];
    if text.is_empty() || text.len() > 50_000 {
        return;
    }
    v.push(("gzip-stored".into(), gzip(text, 0)));
    v.push(("gzip-level-9".into(), gzip(text, 9)));
    v.push(("crlf".into(), gzip(&to_crlf(text), 6)));
    if text.last() == Some(&b'\n') {
        v.push(("last-line-without-terminator".into(), gzip(&text[..text.len() - 1], 6)));
    }
    // two gzip members, split at a line boundary (legal gzip; what a reader makes of it is the sync reader's call)
    if let Some(i) = text[..text.len() / 2 + 1].iter().rposition(|&c| c == b'\n') {
        let mut out = gzip(&text[..=i], 6);
        out.extend(gzip(&text[i + 1..], 6));
        v.push(("two-gzip-members".into(), out));
    }
}

// ------------------------------------------------------------------------------------------ CRAM

/// Per container (file header container and EOF container included): the bookkeeping fields of the header.
pub fn cram_container_fields(b: &[u8]) -> Option<Vec<Vec<(&'static str, i64)>>> {
    let (_, cs) = parse_cram(b)?;
    Some(
        cs.iter()
            .map(|c| {
                vec![
                    ("reference_sequence_id", c.ints[0] as i64),
                    ("alignment_start", c.ints[1] as i64),
                    ("alignment_span", c.ints[2] as i64),
                    ("record_count", c.ints[3] as i64),
                    ("record_counter", c.longs[0]),
                    ("base_count", c.longs[1]),
                    ("block_count", c.blocks.len() as i64),
                    ("landmark_count", c.landmarks.len() as i64),
                ]
            })
            .collect(),
    )
}

struct Blk {
    method: u8,
    content_type: u8,
    content_id: i32,
    raw_size: i32,
    data: Vec<u8>,
    /// Offset of the block in the original container body (landmarks refer to it).
    old_off: usize,
}

struct Cont {
    /// ref_id, start, span, n_records as itf8; record_counter, bases as ltf8.
    ints: [i32; 4],
    longs: [i64; 2],
    landmarks: Vec<i32>,
    blocks: Vec<Blk>,
    is_eof: bool,
    raw: Vec<u8>,
}

fn parse_cram(b: &[u8]) -> Option<(Vec<u8>, Vec<Cont>)> {
    let (w, cs) = walk::cram(b);
    if w.error.is_some() || cs.is_empty() {
        return None;
    }
    let mut out = Vec::new();
    for c in &cs {
        let mut r = &b[c.start + 4..c.header_crc];
        let mut ints = [0i32; 4];
        for x in &mut ints {
            *x = cv::read_itf8(&mut r).ok()?;
        }
        let mut longs = [0i64; 2];
        for x in &mut longs {
            *x = cv::read_ltf8(&mut r).ok()?;
        }
        let _n_blocks = cv::read_itf8(&mut r).ok()?;
        let n_land = cv::read_itf8(&mut r).ok()?;
        let mut landmarks = Vec::new();
        for _ in 0..n_land {
            landmarks.push(cv::read_itf8(&mut r).ok()?);
        }
        let mut blocks = Vec::new();
        for k in &c.blocks {
            let mut r = &b[k.start + 2..k.data];
            let content_id = cv::read_itf8(&mut r).ok()?;
            let _csize = cv::read_itf8(&mut r).ok()?;
            let raw_size = cv::read_itf8(&mut r).ok()?;
            blocks.push(Blk { method: k.method, content_type: k.content_type, content_id, raw_size, data: b[k.data..k.crc].to_vec(), old_off: k.start - c.body });
        }
        out.push(Cont { ints, longs, landmarks, blocks, is_eof: c.is_eof, raw: b[c.start..c.end].to_vec() });
    }
    Some((b[..26].to_vec(), out))
}

fn emit_block(out: &mut Vec<u8>, k: &Blk) {
    let at = out.len();
    out.push(k.method);
    out.push(k.content_type);
    let _ = cv::write_itf8(out, k.content_id);
    let _ = cv::write_itf8(out, k.data.len() as i32);
    let _ = cv::write_itf8(out, k.raw_size);
    out.extend_from_slice(&k.data);
    let crc = crc32(&out[at..]);
    out.extend_from_slice(&crc.to_le_bytes());
}

fn emit_cram(def: &[u8], cs: &[Cont], keep_eof: bool) -> Vec<u8> {
    let mut out = def.to_vec();
    for c in cs {
        if c.is_eof {
            if keep_eof {
                out.extend_from_slice(&c.raw);
            }
            continue;
        }
        let mut body = Vec::new();
        let mut new_off = Vec::new();
        for k in &c.blocks {
            new_off.push((k.old_off, body.len()));
            emit_block(&mut body, k);
        }
        let mut h = Vec::new();
        h.extend_from_slice(&(body.len() as i32).to_le_bytes());
        for &x in &c.ints {
            let _ = cv::write_itf8(&mut h, x);
        }
        for &x in &c.longs {
            let _ = cv::write_ltf8(&mut h, x);
        }
        let _ = cv::write_itf8(&mut h, c.blocks.len() as i32);
        let _ = cv::write_itf8(&mut h, c.landmarks.len() as i32);
        for &l in &c.landmarks {
            let n = new_off.iter().find(|(o, _)| *o == l as usize).map(|x| x.1 as i32).unwrap_or(l);
            let _ = cv::write_itf8(&mut h, n);
        }
        let crc = crc32(&h);
        h.extend_from_slice(&crc.to_le_bytes());
        out.extend_from_slice(&h);
        out.extend_from_slice(&body);
    }
    out
}

/// The uncompressed content of a block, for the methods this module can decode.
fn raw_of(k: &Blk) -> Option<Vec<u8>> {
    let n = k.raw_size as usize;
    let out = match k.method {
        0 => k.data.clone(),
        1 => gunzip(&k.data, n)?,
        4 => cv::rans_4x8_decode(&k.data).ok()?,
        _ => return None,
    };
    (out.len() == n).then_some(out)
}

fn recode(k: &mut Blk, method: u8) -> bool {
    let Some(raw) = raw_of(k) else { return false };
    if raw.len() > 50_000 {
        return false;
    }
    let data = match method {
        0 => Some(raw.clone()),
        1 => Some(gzip(&raw, 6)),
        3 => cv::lzma_encode(6, &raw).ok(),
        4 => cv::rans_4x8_encode(cv::Order::Zero, &raw).ok(),
        14 => cv::rans_4x8_encode(cv::Order::One, &raw).ok(),
        _ => None,
    };
    match data {
        // an empty block stays raw: a zero-length compressed stream is not a stream
        Some(d) if !raw.is_empty() => {
            k.method = if method == 14 { 4 } else { method };
            k.data = d;
            true
        }
        _ => false,
    }
}

fn cram_twins(doc: &Doc, v: &mut Vec<Twin>) {
    let b = &doc.bytes[..];
    let parse = || parse_cram(b);
    let Some((def, cs)) = parse() else { return };
    // the re-emitter reproduces the document byte for byte when nothing is changed
    if emit_cram(&def, &cs, true) != b {
        eprintln!("[C16] foreign layouts {}: CRAM re-emitter does not reproduce the document; no CRAM twins", doc.name);
        return;
    }
    if cs[0].blocks.is_empty() {
        return;
    }
    let header_raw = raw_of(&cs[0].blocks[0]);
    // file header block gzip'd, not compressible: stored DEFLATE, compressed size > raw size
    if let (Some((def, mut cs)), Some(raw)) = (parse(), header_raw.as_ref()) {
        cs[0].blocks[0].method = 1;
        cs[0].blocks[0].data = gzip(raw, 0);
        v.push(("header-block-gzip-larger-than-raw".into(), emit_cram(&def, &cs, true)));
    }
    // file header block gzip'd at level 6 as is (whichever way the sizes fall)
    if let (Some((def, mut cs)), Some(raw)) = (parse(), header_raw.as_ref()) {
        cs[0].blocks[0].method = 1;
        cs[0].blocks[0].data = gzip(raw, 6);
        v.push(("header-block-gzip".into(), emit_cram(&def, &cs, true)));
    }
    // file header block padded with zeros after the text (as samtools does), raw and gzip'd (compressible)
    if let (Some((def, mut cs)), Some(raw)) = (parse(), header_raw.as_ref()) {
        let mut padded = raw.clone();
        padded.extend(std::iter::repeat_n(0u8, 1500));
        cs[0].blocks[0].raw_size = padded.len() as i32;
        cs[0].blocks[0].method = 0;
        cs[0].blocks[0].data = padded.clone();
        v.push(("header-block-padded".into(), emit_cram(&def, &cs, true)));
        cs[0].blocks[0].method = 1;
        cs[0].blocks[0].data = gzip(&padded, 6);
        v.push(("header-block-padded-gzip-smaller-than-raw".into(), emit_cram(&def, &cs, true)));
    }
    // a second, empty block in the file header container
    if let Some((def, mut cs)) = parse() {
        let old_off = cs[0].raw.len();
        cs[0].blocks.push(Blk { method: 0, content_type: 0, content_id: 0, raw_size: 0, data: Vec::new(), old_off });
        v.push(("header-container-second-empty-block".into(), emit_cram(&def, &cs, true)));
    }
    // a second block of zero padding in the file header container
    if let Some((def, mut cs)) = parse() {
        let old_off = cs[0].raw.len();
        cs[0].blocks.push(Blk { method: 0, content_type: 0, content_id: 0, raw_size: 600, data: vec![0; 600], old_off });
        v.push(("header-container-second-padding-block".into(), emit_cram(&def, &cs, true)));
    }
    // data containers: every block raw / every block gzip'd / external blocks through each codec at hand
    let variants: [(&str, u8, &dyn Fn(&Blk) -> bool); 7] = [
        ("data-blocks-all-raw", 0, &|_| true),
        ("data-blocks-all-gzip", 1, &|_| true),
        ("compression-and-slice-headers-gzip", 1, &|k| k.content_type == 1 || k.content_type == 2),
        ("core-and-external-blocks-raw", 0, &|k| k.content_type == 4 || k.content_type == 5),
        ("external-blocks-rans4x8-order0", 4, &|k| k.content_type == 4),
        ("external-blocks-rans4x8-order1", 14, &|k| k.content_type == 4),
        ("external-blocks-lzma", 3, &|k| k.content_type == 4),
    ];
    for (label, method, sel) in variants {
        if let Some((def, mut cs)) = parse() {
            let mut n = 0;
            for c in cs.iter_mut().skip(1).filter(|c| !c.is_eof) {
                for k in &mut c.blocks {
                    if sel(k) && recode(k, method) {
                        n += 1;
                    }
                }
            }
            if n > 0 {
                let bytes = emit_cram(&def, &cs, true);
                if bytes != b {
                    v.push((label.into(), bytes));
                }
            }
        }
    }
    // container headers whose LTF8 bookkeeping fields (record counter, base count) take 3 … 9 bytes: values
    // the small documents never reach; the readers only carry them along
    for (label, counter, bases) in [
        ("container-ltf8-3-and-4-bytes", 1i64 << 14, 1i64 << 21),
        ("container-ltf8-5-and-6-bytes", 1i64 << 28, 1i64 << 35),
        ("container-ltf8-7-and-8-bytes", 1i64 << 42, 1i64 << 49),
        ("container-ltf8-9-bytes", 1i64 << 56, 1i64 << 57),
    ] {
        if let Some((def, mut cs)) = parse() {
            for c in cs.iter_mut().skip(1).filter(|c| !c.is_eof) {
                c.longs[0] += counter;
                c.longs[1] += bases;
            }
            v.push((label.into(), emit_cram(&def, &cs, true)));
        }
    }
    if cs.last().map(|c| c.is_eof).unwrap_or(false) {
        v.push(("no-eof-container".into(), emit_cram(&def, &cs, false)));
    }
}
