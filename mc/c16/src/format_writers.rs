//! Format-level async writers against their synchronous twins.
//!
//! The content of a corpus document (decoded once with the synchronous reader) is written through the
//! sync writer into a `Vec` and through the async writer into the poll adversary with the same call
//! sequence (one macro body generates both). Uncompressed outputs must be byte-identical; BGZF based
//! outputs must carry the identical uncompressed payload and read back (sync reader) to the same log; CRAM
//! and crai outputs are compared through the sync reader only.

use std::{io, num::NonZero};

use noodles_bam as bam;
use noodles_bcf as bcf;
use noodles_bgzf as bgzf;
use noodles_cram as cram;
use noodles_csi::{
    self as csi,
    binning_index::index::reference_sequence::index::{BinnedIndex, LinearIndex},
};
use noodles_fasta as fasta;
use noodles_fastq as fastq;
use noodles_sam::{self as sam, alignment::io::Write as _};
use noodles_tabix as tabix;
use noodles_vcf::{self as vcf, variant::io::Write as _};
use tokio::io::{AsyncWrite, AsyncWriteExt};
use vmc::{Chooser, Outcome, Violation, oracle::bgzf as ob};
use vnd::{Api, Doc, Format, Opts};
use vrt::{
    CostModel, RtConfig,
    poll::{PollMode, PollWriter},
};

use crate::bgzf_level::check_info;

pub enum Content {
    Aln { header: sam::Header, bufs: Vec<sam::alignment::RecordBuf>, bam: Vec<bam::Record>, sam: Vec<sam::Record> },
    Var { header: vcf::Header, bufs: Vec<vcf::variant::RecordBuf>, vcf: Vec<vcf::Record>, bcf: Vec<bcf::Record> },
    Fasta { records: Vec<fasta::Record>, line: usize },
    Fastq(Vec<fastq::Record>),
    Linear(csi::binning_index::Index<LinearIndex>),
    Binned(csi::binning_index::Index<BinnedIndex>),
    Gzi(bgzf::gzi::Index),
    Fai(fasta::fai::Index),
    Crai(cram::crai::Index),
}

#[derive(Clone, Copy, Debug, PartialEq, Eq)]
pub enum Class {
    /// No compression involved: byte-identical.
    Plain,
    /// BGZF: identical payload, same sync-reader log; byte identity is counted.
    Bgzf,
    /// CRAM / crai: compared through the sync reader only.
    Decoded,
}

pub struct WCase {
    pub format: Format,
    pub name: String,
    pub content: Content,
    /// Record-writing APIs available (`0` = `write_alignment_record` / `write_variant_record` with owned
    /// records, `1` = `write_record` with the format's lazy record).
    pub apis: Vec<u8>,
    pub class: Class,
    /// Flush the sink after the header and after every this many records (0 = never).
    pub flush_every: usize,
    /// Per API: what the sync writer produced.
    pub sync_bytes: Vec<Vec<u8>>,
    pub sync_payload: Vec<Option<Vec<u8>>>,
    pub sync_log: Vec<Vec<String>>,
    /// Scripts with rejected records (accept*, reject, accept*, …, finish) built from this document's
    /// first records; script 0 is the whole document (`content`).
    pub rejects: Vec<RScript>,
}

/// What the functions that issue the calls see: a document or one of its reject scripts.
pub struct View<'a> {
    pub format: Format,
    pub content: &'a Content,
    pub flush_every: usize,
}

/// What the synchronous writer did with one call sequence.
pub struct SyncOut {
    pub calls: Calls,
    pub bytes: Vec<u8>,
    pub payload: Option<Vec<u8>>,
    pub log: Vec<String>,
    /// The sync reader reads the sync writer's output to EOF.
    pub readable: bool,
}

pub struct RScript {
    /// `accept-reject-accept`, `reject-first`, `reject-last`, `two-rejects`, `alternating`.
    pub shape: &'static str,
    /// Per API (same index as `WCase::apis`): why the first rejected record of the list is rejected.
    pub cause: Vec<String>,
    pub content: Content,
    /// Per API.
    pub sync: Vec<SyncOut>,
}

fn fail(what: &str, name: &str, e: impl std::fmt::Display) -> ! {
    vmc::machinery(format!("c16 writers: {what} {name}: {e}"))
}

fn read_opts(format: Format, len: usize) -> Opts {
    // the length only caps the reader loops (input length + 1000 items); CRAM holds more records than bytes
    let mut o = Opts::new(if format == Format::Cram { len.max(200_000) } else { len });
    o.vpos = false;
    o.debug = false;
    // crai `read_index()` rejects multi-record indexes in this tree (NOTES.md S1): use the record loop
    o.api = if format == Format::Crai { Api::Lazy } else { Api::Eager };
    o
}

fn payload_of(bytes: &[u8]) -> Result<(Vec<u8>, usize), String> {
    let ms = ob::walk(bytes)?;
    let eofs = ms.iter().rev().take_while(|m| m.data.is_empty()).count();
    Ok((ms.iter().flat_map(|m| m.data.iter().copied()).collect(), eofs))
}

/// Builds the writer case of a corpus document (None: the format has no async writer).
pub fn make_wcase(doc: &Doc) -> Option<WCase> {
    let f = doc.format;
    let name = &doc.name;
    let b = &doc.bytes[..];
    let (content, apis, class) = match f {
        Format::Bam => {
            let mut r = bam::io::Reader::new(b);
            let header = r.read_header().unwrap_or_else(|e| fail("read", name, e));
            let bam: Vec<bam::Record> = r.records().collect::<io::Result<_>>().unwrap_or_else(|e| fail("read", name, e));
            let mut r = bam::io::Reader::new(b);
            let _ = r.read_header();
            let bufs: Vec<sam::alignment::RecordBuf> = r.record_bufs(&header).collect::<io::Result<_>>().unwrap_or_else(|e| fail("read", name, e));
            {
                let sam = lazy_sam(&header, &bufs);
                (Content::Aln { header, bufs, bam, sam }, vec![0, 1, 2, 3], Class::Bgzf)
            }
        }
        Format::Sam | Format::SamGz => {
            let text: Vec<u8> = if f == Format::SamGz { doc.inner.as_ref()?.bytes.to_vec() } else { b.to_vec() };
            let mut r = sam::io::Reader::new(&text[..]);
            let header = r.read_header().unwrap_or_else(|e| fail("read", name, e));
            let sam: Vec<sam::Record> = r.records().collect::<io::Result<_>>().unwrap_or_else(|e| fail("read", name, e));
            let mut r = sam::io::Reader::new(&text[..]);
            let _ = r.read_header();
            let bufs = r.record_bufs(&header).collect::<io::Result<_>>().unwrap_or_else(|e| fail("read", name, e));
            (Content::Aln { header, bufs, bam: Vec::new(), sam }, vec![0, 1, 2], if f == Format::Sam { Class::Plain } else { Class::Bgzf })
        }
        Format::Cram => {
            let repo = vnd::records::repository();
            let mut r = cram::io::reader::Builder::default().set_reference_sequence_repository(repo).build_from_reader(b);
            let header = r.read_header().unwrap_or_else(|e| fail("read", name, e));
            let bufs = r.records(&header).collect::<io::Result<_>>().unwrap_or_else(|e| fail("read", name, e));
            // api 1: the same calls through a writer that does not preserve read names (names of attached mates
            // are then generated from the running record counter)
            (Content::Aln { header, bufs, bam: Vec::new(), sam: Vec::new() }, vec![0, 1], Class::Decoded)
        }
        Format::Vcf | Format::VcfGz => {
            let text: Vec<u8> = if f == Format::VcfGz { doc.inner.as_ref()?.bytes.to_vec() } else { b.to_vec() };
            let mut r = vcf::io::Reader::new(&text[..]);
            let header = r.read_header().unwrap_or_else(|e| fail("read", name, e));
            let vcf: Vec<vcf::Record> = r.records().collect::<io::Result<_>>().unwrap_or_else(|e| fail("read", name, e));
            let mut r = vcf::io::Reader::new(&text[..]);
            let _ = r.read_header();
            let bufs = r.record_bufs(&header).collect::<io::Result<_>>().unwrap_or_else(|e| fail("read", name, e));
            (Content::Var { header, bufs, vcf, bcf: Vec::new() }, vec![0, 1, 2], if f == Format::Vcf { Class::Plain } else { Class::Bgzf })
        }
        Format::Bcf => {
            let mut r = bcf::io::Reader::new(b);
            let header = r.read_header().unwrap_or_else(|e| fail("read", name, e));
            let bcf: Vec<bcf::Record> = r.records().collect::<io::Result<_>>().unwrap_or_else(|e| fail("read", name, e));
            let mut r = bcf::io::Reader::new(b);
            let _ = r.read_header();
            let bufs = r.record_bufs(&header).collect::<io::Result<_>>().unwrap_or_else(|e| fail("read", name, e));
            (Content::Var { header, bufs, vcf: Vec::new(), bcf }, vec![0, 1, 2], Class::Bgzf)
        }
        Format::Fasta => {
            // the corpus name carries the line width ("fasta-w13-crlf"); the writer emits LF only
            let line = name.split('-').find_map(|p| p.strip_prefix('w').and_then(|n| n.parse::<usize>().ok())).unwrap_or(60);
            let mut r = fasta::io::Reader::new(b);
            let records = r.records().collect::<io::Result<_>>().unwrap_or_else(|e| fail("read", name, e));
            (Content::Fasta { records, line }, vec![0], Class::Plain)
        }
        Format::Fastq => {
            let mut r = fastq::io::Reader::new(b);
            let records = r.records().collect::<io::Result<_>>().unwrap_or_else(|e| fail("read", name, e));
            (Content::Fastq(records), vec![0], Class::Plain)
        }
        Format::Bai => (Content::Linear(bam::bai::io::Reader::new(b).read_index().unwrap_or_else(|e| fail("read", name, e))), vec![0], Class::Plain),
        Format::Tbi => (Content::Linear(tabix::io::Reader::new(b).read_index().unwrap_or_else(|e| fail("read", name, e))), vec![0], Class::Bgzf),
        Format::Csi => (Content::Binned(csi::io::Reader::new(b).read_index().unwrap_or_else(|e| fail("read", name, e))), vec![0], Class::Bgzf),
        Format::Gzi => (Content::Gzi(bgzf::gzi::io::Reader::new(b).read_index().unwrap_or_else(|e| fail("read", name, e))), vec![0], Class::Plain),
        Format::Fai => (Content::Fai(fasta::fai::io::Reader::new(b).read_index().unwrap_or_else(|e| fail("read", name, e))), vec![0], Class::Plain),
        Format::Crai => {
            let mut r = cram::crai::io::Reader::new(b);
            let mut rec = cram::crai::Record::default();
            let mut v = Vec::new();
            while r.read_record(&mut rec).unwrap_or_else(|e| fail("read", name, e)) != 0 {
                v.push(rec.clone());
            }
            (Content::Crai(v), vec![0], Class::Decoded)
        }
        _ => return None,
    };
    let mut case = WCase {
        format: f,
        name: name.clone(),
        content,
        apis,
        class,
        flush_every: 2,
        sync_bytes: Vec::new(),
        sync_payload: Vec::new(),
        sync_log: Vec::new(),
        rejects: Vec::new(),
    };
    case.rejects = build_rejects(&case, doc);
    case.recompute();
    Some(case)
}

impl WCase {
    pub fn view(&self) -> View<'_> {
        View { format: self.format, content: &self.content, flush_every: self.flush_every }
    }

    fn sync_out(&self, content: &Content, api: u8) -> SyncOut {
        let (calls, bytes) = sync_write_v(&View { format: self.format, content, flush_every: self.flush_every }, api);
        let payload = match self.class {
            Class::Bgzf => payload_of(&bytes).ok().map(|x| x.0),
            _ => None,
        };
        let log = vnd::read_log(self.format, &bytes[..], &read_opts(self.format, bytes.len()));
        let readable = log.last().map(|l| vnd::is_end_eof(l)).unwrap_or(false) && (self.class != Class::Bgzf || payload.is_some());
        SyncOut { calls, bytes, payload, log, readable }
    }

    /// (Re)computes what the synchronous writer produces for the current `flush_every`.
    pub fn recompute(&mut self) {
        let name = self.name.clone();
        self.sync_bytes.clear();
        self.sync_payload.clear();
        self.sync_log.clear();
        for &api in &self.apis.clone() {
            let o = self.sync_out(&self.content, api);
            if let Some((call, Err(e))) = o.calls.iter().find(|(_, r)| r.is_err()) {
                fail(&format!("sync writer call {call} failed for"), &name, e);
            }
            if !o.readable {
                fail("sync reader rejects the sync writer's output of", &name, format!("{:?}", o.log.last()));
            }
            self.sync_bytes.push(o.bytes);
            self.sync_payload.push(o.payload);
            self.sync_log.push(o.log);
        }
        let mut rejects = std::mem::take(&mut self.rejects);
        for r in &mut rejects {
            r.sync = self.apis.iter().map(|&api| self.sync_out(&r.content, api)).collect();
            for (ai, o) in r.sync.iter().enumerate() {
                // header and shutdown must work; what the sync writer leaves behind after a rejected record
                // is the sync round-trip checks' subject (G2) — here it is only reported
                if let Some((call, Err(e))) = o.calls.iter().find(|(c, r)| r.is_err() && (*c == "write_header" || *c == "flush")) {
                    fail(&format!("sync writer call {call} failed in reject script {} of", r.shape), &name, e);
                }
                if !o.readable {
                    eprintln!("[C16] note: sync {} writer output of {name} script {} api {} is not readable by the sync reader: {:?}", self.format, r.shape, self.apis[ai], o.log.last());
                }
            }
        }
        self.rejects = rejects;
    }
}

// ------------------------------------------------------------------------------------------ paired drivers

type Calls = Vec<(&'static str, Result<(), String>)>;

fn es(r: io::Result<()>) -> Result<(), String> {
    r.map_err(|e| format!("{:?}: {e}", e.kind()))
}

macro_rules! aw {
    (sync, $e:expr) => {
        $e
    };
    (asyn, $e:expr) => {
        $e.await
    };
}

macro_rules! fl {
    (sync, $w:expr) => {
        std::io::Write::flush($w)
    };
    (asyn, $w:expr) => {
        tokio::io::AsyncWriteExt::flush($w).await
    };
}

/// header, flush, records (through `$call`), a flush after every `flush_every` records.
macro_rules! records_body {
    ($m:ident, $w:ident, $res:ident, $case:ident, $header:expr, $records:expr, $call:ident) => {{
        $res.push(("write_header", es(aw!($m, $w.write_header($header)))));
        if $case.flush_every > 0 {
            $res.push(("flush", es(fl!($m, $w.get_mut()))));
        }
        for (i, rec) in $records.iter().enumerate() {
            $res.push((stringify!($call), es(aw!($m, $w.$call($header, rec)))));
            if $case.flush_every > 0 && (i + 1) % $case.flush_every == 0 {
                $res.push(("flush", es(fl!($m, $w.get_mut()))));
            }
        }
    }};
}

macro_rules! plain_records_body {
    ($m:ident, $w:ident, $res:ident, $case:ident, $records:expr) => {{
        for (i, rec) in $records.iter().enumerate() {
            $res.push(("write_record", es(aw!($m, $w.write_record(rec)))));
            if $case.flush_every > 0 && (i + 1) % $case.flush_every == 0 {
                $res.push(("flush", es(fl!($m, $w.get_mut()))));
            }
        }
    }};
}

macro_rules! aln_body {
    ($m:ident, $w:ident, $res:ident, $case:ident, $api:expr, $lazy:ident) => {{
        let Content::Aln { header, bufs, $lazy, .. } = &$case.content else { unreachable!() };
        if $api == 0 {
            records_body!($m, $w, $res, $case, header, bufs, write_alignment_record);
        } else if $api == 1 {
            records_body!($m, $w, $res, $case, header, $lazy, write_record);
        } else {
            records_body!($m, $w, $res, $case, header, $lazy, write_alignment_record);
        }
    }};
}

macro_rules! var_body {
    ($m:ident, $w:ident, $res:ident, $case:ident, $api:expr, $lazy:ident) => {{
        let Content::Var { header, bufs, $lazy, .. } = &$case.content else { unreachable!() };
        if $api == 0 {
            records_body!($m, $w, $res, $case, header, bufs, write_variant_record);
        } else if $api == 1 {
            records_body!($m, $w, $res, $case, header, $lazy, write_record);
        } else {
            records_body!($m, $w, $res, $case, header, $lazy, write_variant_record);
        }
    }};
}

fn cram_sync_writer(sink: Vec<u8>, preserve_read_names: bool) -> cram::io::Writer<Vec<u8>> {
    cram::io::writer::Builder::default().set_reference_sequence_repository(vnd::records::repository()).preserve_read_names(preserve_read_names).build_from_writer(sink)
}

fn abgzf<W: AsyncWrite + Unpin>(sink: W, workers: usize) -> bgzf::r#async::io::Writer<W> {
    bgzf::r#async::io::writer::Builder::default().set_worker_count(NonZero::new(workers).unwrap()).build_from_writer(sink)
}

/// The synchronous twin: same calls, `finish` where the async side calls `shutdown`.
pub fn sync_write(case: &WCase, api: u8) -> (Calls, Vec<u8>) {
    sync_write_v(&case.view(), api)
}

pub fn sync_write_v(case: &View<'_>, api: u8) -> (Calls, Vec<u8>) {
    let mut res: Calls = Vec::new();
    let out: Vec<u8> = match case.format {
        Format::Bam => {
            let mut w = bam::io::Writer::from(bgzf::io::Writer::new(Vec::new()));
            if api == 3 {
                let Content::Aln { header, sam, .. } = &case.content else { unreachable!() };
                records_body!(sync, w, res, case, header, sam, write_alignment_record);
            } else {
                aln_body!(sync, w, res, case, api, bam);
            }
            finish_bgzf(&mut res, w.into_inner())
        }
        Format::Sam => {
            let mut w = sam::io::Writer::new(Vec::new());
            aln_body!(sync, w, res, case, api, sam);
            w.into_inner()
        }
        Format::SamGz => {
            let mut w = sam::io::Writer::new(bgzf::io::Writer::new(Vec::new()));
            aln_body!(sync, w, res, case, api, sam);
            finish_bgzf(&mut res, w.into_inner())
        }
        Format::Cram => {
            let mut w = cram_sync_writer(Vec::new(), api == 0);
            let Content::Aln { header, bufs, .. } = &case.content else { unreachable!() };
            records_body!(sync, w, res, case, header, bufs, write_alignment_record);
            res.push(("shutdown", es(w.try_finish(header))));
            w.into_inner()
        }
        Format::Vcf => {
            let mut w = vcf::io::Writer::new(Vec::new());
            var_body!(sync, w, res, case, api, vcf);
            w.into_inner()
        }
        Format::VcfGz => {
            let mut w = vcf::io::Writer::new(bgzf::io::Writer::new(Vec::new()));
            var_body!(sync, w, res, case, api, vcf);
            finish_bgzf(&mut res, w.into_inner())
        }
        Format::Bcf => {
            let mut w = bcf::io::Writer::from(bgzf::io::Writer::new(Vec::new()));
            var_body!(sync, w, res, case, api, bcf);
            finish_bgzf(&mut res, w.into_inner())
        }
        Format::Fasta => {
            let Content::Fasta { records, line } = &case.content else { unreachable!() };
            let mut w = fasta::io::writer::Builder::default().set_line_base_count(NonZero::new(*line).unwrap()).build_from_writer(Vec::new());
            plain_records_body!(sync, w, res, case, records);
            w.into_inner()
        }
        Format::Fastq => {
            let Content::Fastq(records) = &case.content else { unreachable!() };
            let mut w = fastq::io::Writer::new(Vec::new());
            plain_records_body!(sync, w, res, case, records);
            w.into_inner()
        }
        Format::Bai => {
            let Content::Linear(idx) = &case.content else { unreachable!() };
            let mut w = bam::bai::io::Writer::new(Vec::new());
            res.push(("write_index", es(w.write_index(idx))));
            w.into_inner()
        }
        Format::Tbi => {
            let Content::Linear(idx) = &case.content else { unreachable!() };
            let mut w = tabix::io::Writer::new(Vec::new());
            res.push(("write_index", es(w.write_index(idx))));
            finish_bgzf(&mut res, w.into_inner())
        }
        Format::Csi => {
            let Content::Binned(idx) = &case.content else { unreachable!() };
            let mut w = csi::io::Writer::new(Vec::new());
            res.push(("write_index", es(w.write_index(idx))));
            finish_bgzf(&mut res, w.into_inner())
        }
        Format::Gzi => {
            let Content::Gzi(idx) = &case.content else { unreachable!() };
            let mut w = bgzf::gzi::io::Writer::new(Vec::new());
            res.push(("write_index", es(w.write_index(idx))));
            w.into_inner()
        }
        Format::Fai => {
            let Content::Fai(idx) = &case.content else { unreachable!() };
            let mut w = fasta::fai::io::Writer::new(Vec::new());
            res.push(("write_index", es(w.write_index(idx))));
            w.into_inner()
        }
        Format::Crai => {
            let Content::Crai(idx) = &case.content else { unreachable!() };
            let mut w = cram::crai::io::Writer::new(Vec::new());
            res.push(("write_index", es(w.write_index(idx))));
            match w.finish() {
                Ok(v) => {
                    res.push(("shutdown", Ok(())));
                    v
                }
                Err(e) => {
                    res.push(("shutdown", es(Err(e))));
                    Vec::new()
                }
            }
        }
        f => unreachable!("no writer driver for {f}"),
    };
    (res, out)
}

fn finish_bgzf(res: &mut Calls, w: bgzf::io::Writer<Vec<u8>>) -> Vec<u8> {
    match w.finish() {
        Ok(v) => {
            res.push(("shutdown", Ok(())));
            v
        }
        Err(e) => {
            res.push(("shutdown", es(Err(e))));
            Vec::new()
        }
    }
}

/// The async driver. `shutdown()` is the writer's own where it has one, else the sink's (through
/// `get_mut()`), as a caller has to do.
pub async fn async_write<W: AsyncWrite + Unpin>(case: &WCase, api: u8, sink: W, workers: usize) -> Calls {
    async_write_v(&case.view(), api, sink, workers).await
}

pub async fn async_write_v<W: AsyncWrite + Unpin>(case: &View<'_>, api: u8, sink: W, workers: usize) -> Calls {
    let mut res: Calls = Vec::new();
    match case.format {
        Format::Bam => {
            let mut w = bam::r#async::io::Writer::from(abgzf(sink, workers));
            if api == 3 {
                let Content::Aln { header, sam, .. } = &case.content else { unreachable!() };
                records_body!(asyn, w, res, case, header, sam, write_alignment_record);
            } else {
                aln_body!(asyn, w, res, case, api, bam);
            }
            res.push(("shutdown", es(w.shutdown().await)));
        }
        Format::Sam => {
            let mut w = sam::r#async::io::Writer::new(sink);
            aln_body!(asyn, w, res, case, api, sam);
            res.push(("shutdown", es(w.get_mut().shutdown().await)));
        }
        Format::SamGz => {
            let mut w = sam::r#async::io::Writer::new(abgzf(sink, workers));
            aln_body!(asyn, w, res, case, api, sam);
            res.push(("shutdown", es(w.get_mut().shutdown().await)));
        }
        Format::Cram => {
            let mut w = cram::r#async::io::writer::Builder::default().set_reference_sequence_repository(vnd::records::repository()).preserve_read_names(api == 0).build_from_writer(sink);
            let Content::Aln { header, bufs, .. } = &case.content else { unreachable!() };
            records_body!(asyn, w, res, case, header, bufs, write_alignment_record);
            res.push(("shutdown", es(w.shutdown(header).await)));
            res.push(("sink.shutdown", es(w.get_mut().shutdown().await)));
        }
        Format::Vcf => {
            let mut w = vcf::r#async::io::Writer::new(sink);
            var_body!(asyn, w, res, case, api, vcf);
            res.push(("shutdown", es(w.shutdown().await)));
        }
        Format::VcfGz => {
            let mut w = vcf::r#async::io::Writer::new(abgzf(sink, workers));
            var_body!(asyn, w, res, case, api, vcf);
            res.push(("shutdown", es(w.shutdown().await)));
        }
        Format::Bcf => {
            let mut w = bcf::r#async::io::Writer::from(abgzf(sink, workers));
            var_body!(asyn, w, res, case, api, bcf);
            res.push(("shutdown", es(w.get_mut().shutdown().await)));
        }
        Format::Fasta => {
            let Content::Fasta { records, line } = &case.content else { unreachable!() };
            let mut w = fasta::r#async::io::writer::Builder::default().set_line_base_count(NonZero::new(*line).unwrap()).build_from_writer(sink);
            plain_records_body!(asyn, w, res, case, records);
            res.push(("shutdown", es(w.get_mut().shutdown().await)));
        }
        Format::Fastq => {
            let Content::Fastq(records) = &case.content else { unreachable!() };
            let mut w = fastq::r#async::io::Writer::new(sink);
            plain_records_body!(asyn, w, res, case, records);
            res.push(("shutdown", es(w.get_mut().shutdown().await)));
        }
        Format::Bai => {
            let Content::Linear(idx) = &case.content else { unreachable!() };
            let mut w = bam::bai::r#async::io::Writer::new(sink);
            res.push(("write_index", es(w.write_index(idx).await)));
            res.push(("shutdown", es(w.shutdown().await)));
        }
        Format::Tbi => {
            // the tabix / CSI async writers build their BGZF writer themselves (default worker count)
            let Content::Linear(idx) = &case.content else { unreachable!() };
            let mut w = tabix::r#async::io::Writer::new(sink);
            res.push(("write_index", es(w.write_index(idx).await)));
            res.push(("shutdown", es(w.shutdown().await)));
        }
        Format::Csi => {
            let Content::Binned(idx) = &case.content else { unreachable!() };
            let mut w = csi::r#async::io::Writer::new(sink);
            res.push(("write_index", es(w.write_index(idx).await)));
            res.push(("shutdown", es(w.shutdown().await)));
        }
        Format::Gzi => {
            let Content::Gzi(idx) = &case.content else { unreachable!() };
            let mut w = bgzf::gzi::r#async::io::Writer::new(sink);
            res.push(("write_index", es(w.write_index(idx).await)));
            res.push(("shutdown", es(w.get_mut().shutdown().await)));
        }
        Format::Fai => {
            let Content::Fai(idx) = &case.content else { unreachable!() };
            let mut w = fasta::fai::r#async::io::Writer::new(sink);
            res.push(("write_index", es(w.write_index(idx).await)));
            res.push(("shutdown", es(w.shutdown().await)));
        }
        Format::Crai => {
            let Content::Crai(idx) = &case.content else { unreachable!() };
            let mut w = cram::crai::r#async::io::Writer::new(sink);
            res.push(("write_index", es(w.write_index(idx).await)));
            res.push(("shutdown", es(w.shutdown().await)));
        }
        f => unreachable!("no writer driver for {f}"),
    }
    res
}

// ------------------------------------------------------------------------------------------ harness body

/// Number of sink polls of the default (always ready, full transfers) execution: the size of the choice
/// tree under `Choose` grows with its `bound`-th power.
pub fn sink_polls(case: &WCase) -> u64 {
    let ch = Chooser::defaults();
    let sink = PollWriter::new(PollMode::Ready, None);
    let sink2 = sink.clone();
    let api = case.apis[0];
    let _ = vrt::run(&ch, RtConfig::new(1, CostModel::Delay), || vrt::block_on(async_write(case, api, sink2, 1)));
    let n = sink.state.lock().unwrap().polls;
    n
}

fn api_name(case: &WCase, api: u8) -> &'static str {
    match (&case.content, api) {
        (Content::Aln { .. }, 0) => "write_alignment_record",
        (Content::Var { .. }, 0) => "write_variant_record",
        (Content::Aln { .. }, 1) if case.format == Format::Cram => "write_alignment_record(names-not-preserved)",
        (Content::Aln { .. } | Content::Var { .. }, 1) => "write_record",
        (Content::Aln { .. }, 2) => "write_alignment_record(lazy)",
        (Content::Aln { .. }, _) => "write_alignment_record(lazy-sam)",
        (Content::Var { .. }, _) => "write_variant_record(lazy)",
        (Content::Fasta { .. } | Content::Fastq(_), _) => "write_record",
        _ => "write_index",
    }
}

pub fn workers_apply(f: Format) -> bool {
    matches!(f, Format::Bam | Format::Bcf | Format::SamGz | Format::VcfGz)
}

/// E1 body: document x API x worker count x sink mode, then every poll decision / schedule.
pub fn writer_body(ch: &Chooser, cases: &[&WCase], workers: &[usize], modes: &[PollMode]) -> Outcome {
    let case = *ch.pick_free("doc", cases);
    let si = ch.free("script", 1 + case.rejects.len());
    let ai = ch.free("api", case.apis.len());
    let api = case.apis[ai];
    // script 0: the whole document, every call Ok; else a reject script with the sync outcome per call
    let rej = si.checked_sub(1).map(|k| &case.rejects[k]);
    let content = rej.map(|r| &r.content).unwrap_or(&case.content);
    let view = View { format: case.format, content, flush_every: case.flush_every };
    let (sync_bytes, sync_payload, sync_log, sync_calls, sync_readable) = match rej {
        None => (&case.sync_bytes[ai], &case.sync_payload[ai], &case.sync_log[ai], None, true),
        Some(r) => (&r.sync[ai].bytes, &r.sync[ai].payload, &r.sync[ai].log, Some(&r.sync[ai].calls), r.sync[ai].readable),
    };
    let sfx = match rej {
        None => String::new(),
        Some(r) => format!(" script=reject-{} cause={}", r.shape, r.cause[ai]),
    };
    // the reject scripts decide at the format level, before the BGZF layer: first worker count only
    let w = match (workers_apply(case.format), si) {
        (true, 0) => *ch.pick_free("workers", workers),
        (true, _) => workers[0],
        _ => 1,
    };
    let mode = ch.pick_free("mode", modes).clone();
    let fmt = case.format.name();
    let aname = api_name(case, api);
    let describe = || {
        format!(
            "async {} writer content-of={} api={aname}{} flush_every={}{} sink=PollWriter({mode:?})",
            case.format,
            case.name,
            match sync_calls {
                None => String::new(),
                Some(c) => format!("{sfx} calls(sync outcome)=[{}]", c.iter().map(|(n, r)| format!("{n}:{}", if r.is_ok() { "Ok" } else { "Err" })).collect::<Vec<_>>().join(" ")),
            },
            case.flush_every,
            if workers_apply(case.format) { format!(" workers={w}") } else { String::new() }
        )
    };
    let sink = PollWriter::new(mode.clone(), Some(ch.clone()));
    let sink2 = sink.clone();
    let mut cfg = RtConfig::new(w, CostModel::Delay);
    cfg.horizon = 50_000 + 16 * sync_bytes.len();
    let caught = vmc::catch(|| vrt::run(ch, cfg, || vrt::block_on(async_write_v(&view, api, sink2, w))));
    let (calls, info) = match caught {
        Ok(x) => x,
        Err((msg, file)) => {
            return Err(Violation::new(
                format!("fmt-writer format={fmt} api={aname}{sfx} outcome=panic msg={} file={}", vmc::normalise_msg(&msg), file),
                describe(),
                "no panic",
                format!("panic: {msg} in {file}"),
            ));
        }
    };
    ch.obs(info.schedule_string());
    let st_polls = sink.state.lock().unwrap().polls;
    ch.steps(info.steps as u64 + st_polls);
    if info.spawned_blocking >= 2 {
        ch.tag("two-or-more-deflate-tasks");
    }
    check_info(&info, &describe).map_err(|mut v| {
        v.fingerprint = format!("fmt-writer format={fmt} api={aname}{sfx} {}", v.fingerprint);
        v
    })?;
    let Some(calls) = calls else {
        return Err(Violation::new(format!("fmt-writer format={fmt} api={aname}{sfx} outcome=aborted-without-cause"), describe(), "completes", "unwound"));
    };
    match sync_calls {
        None => {
            if let Some((call, Err(e))) = calls.iter().find(|(_, r)| r.is_err()) {
                let kind = e.split(':').next().unwrap_or("");
                return Err(Violation::new(
                    format!("fmt-writer format={fmt} api={aname} call={call} symptom=unexpected-error kind={kind}"),
                    describe(),
                    "every call Ok (as with the sync writer)",
                    e.clone(),
                ));
            }
        }
        Some(want) => {
            // same calls, same Ok / Err(kind) per call as the synchronous writer
            let show = |c: &Calls| c.iter().map(|(n, r)| format!("{n}:{}", match r { Ok(()) => "Ok".to_string(), Err(e) => format!("Err({})", e.split(':').next().unwrap_or("")) })).collect::<Vec<_>>().join(" ");
            for (k, ((call, a), (wcall, e))) in calls.iter().zip(want.iter()).enumerate() {
                let symptom = match (e, a) {
                    _ if call != wcall => "call-sequence-differs",
                    (Ok(()), Err(_)) => "async-rejects-what-sync-accepts",
                    (Err(_), Ok(())) => "async-accepts-what-sync-rejects",
                    (Err(x), Err(y)) if x.split(':').next() != y.split(':').next() => "error-kind-differs",
                    (Err(x), Err(y)) => {
                        if x != y {
                            ch.tag("reject-error-message-differs");
                        }
                        ch.tag("rejected-call-compared");
                        continue;
                    }
                    _ => continue,
                };
                return Err(Violation::new(
                    format!("fmt-writer format={fmt} api={aname}{sfx} call={call} symptom={symptom}"),
                    describe(),
                    format!("call {k}: {}", show(want)),
                    format!("call {k}: {}", show(&calls)),
                ));
            }
            // the async side ends with shutdown calls the sync writers of uncompressed formats do not have
            if want.len() > calls.len() || calls[want.len()..].iter().any(|(c, _)| !c.ends_with("shutdown")) {
                return Err(Violation::new(format!("fmt-writer format={fmt} api={aname}{sfx} symptom=call-sequence-differs"), describe(), show(want), show(&calls)));
            }
            if let Some((call, Err(e))) = calls[want.len()..].iter().find(|(_, r)| r.is_err()) {
                let kind = e.split(':').next().unwrap_or("");
                return Err(Violation::new(format!("fmt-writer format={fmt} api={aname}{sfx} call={call} symptom=unexpected-error kind={kind}"), describe(), "Ok", e.clone()));
            }
            ch.tag("reject-script");
        }
    }
    let bytes = sink.bytes();
    ch.obs_hash(&bytes);
    // the sequence of accepted sizes distinguishes executions of uncompressed writers
    ch.obs_hash((st_polls, sink.state.lock().unwrap().flushes));
    ch.desc(|| format!("{} schedule: {}", describe(), info.schedule_string()));
    match case.class {
        Class::Plain => {
            if &bytes != sync_bytes {
                return Err(Violation::new(
                    format!("fmt-writer format={fmt} api={aname}{sfx} symptom=bytes-differ-from-sync"),
                    describe(),
                    format!("{} bytes, identical to the sync writer's", sync_bytes.len()),
                    vmc::diff_bytes(sync_bytes, &bytes),
                ));
            }
            ch.tag("byte-identical-to-sync-writer");
        }
        Class::Bgzf => {
            let (payload, eofs) = match payload_of(&bytes) {
                Ok(x) => x,
                Err(e) => {
                    return Err(Violation::new(
                        format!("fmt-writer format={fmt} api={aname}{sfx} symptom=output-not-wellformed-bgzf"),
                        format!("{} schedule: {}", describe(), info.schedule_string()),
                        "well-formed BGZF",
                        e,
                    ));
                }
            };
            let empty = Vec::new();
            let want = sync_payload.as_ref().unwrap_or(&empty);
            if sync_payload.is_some() && &payload != want {
                return Err(Violation::new(
                    format!("fmt-writer format={fmt} api={aname}{sfx} symptom=payload-differs-from-sync"),
                    format!("{} schedule: {}", describe(), info.schedule_string()),
                    format!("{} payload bytes, identical to the sync writer's", want.len()),
                    vmc::diff_bytes(want, &payload),
                ));
            }
            if eofs != 1 {
                ch.tag("eof-marker-count-not-1");
            }
            if &bytes == sync_bytes {
                ch.tag("byte-identical-to-sync-writer");
            } else {
                ch.tag("bgzf-block-layout-differs-from-sync");
            }
        }
        Class::Decoded => {}
    }
    if case.format == Format::Cram {
        // container level: the decoded records do not show the bookkeeping fields of the container headers
        use crate::format_level::foreign::cram_container_fields;
        match (cram_container_fields(sync_bytes), cram_container_fields(&bytes)) {
            (Some(want), Some(got)) => {
                if want.len() != got.len() {
                    return Err(Violation::new(
                        format!("fmt-writer format={fmt} api={aname}{sfx} symptom=container-count-differs-from-sync"),
                        describe(),
                        format!("{} containers", want.len()),
                        format!("{} containers", got.len()),
                    ));
                }
                for (k, (e, a)) in want.iter().zip(&got).enumerate() {
                    for ((field, x), (_, y)) in e.iter().zip(a) {
                        if x != y {
                            return Err(Violation::new(
                                format!("fmt-writer format={fmt} api={aname}{sfx} symptom=container-header-differs-from-sync field={field}"),
                                describe(),
                                format!("container {k}: {e:?}"),
                                format!("container {k}: {a:?}"),
                            ));
                        }
                    }
                }
                if want.len() >= 4 {
                    ch.tag("cram-three-or-more-data-containers");
                }
                ch.tag("cram-container-headers-compared");
            }
            (None, Some(_)) => ch.tag("cram-sync-output-not-walkable"),
            _ => {
                return Err(Violation::new(format!("fmt-writer format={fmt} api={aname}{sfx} symptom=output-not-walkable-cram"), describe(), "a sequence of CRAM containers", "structural walk fails"));
            }
        }
    }
    if case.class != Class::Plain {
        let log = vnd::read_log(case.format, &bytes[..], &read_opts(case.format, bytes.len()));
        let want = sync_log;
        if &log != want {
            let i = log.iter().zip(want.iter()).position(|(a, b)| a != b).unwrap_or(log.len().min(want.len()));
            let kind = want.get(i).or(log.get(i)).map(|l| l.split(['[', ':']).next().unwrap_or("").to_string()).unwrap_or_default();
            return Err(Violation::new(
                format!("fmt-writer format={fmt} api={aname}{sfx} symptom=decoded-differs-from-sync line={kind}"),
                format!("{} schedule: {}", describe(), info.schedule_string()),
                format!("line {i}: {:?}", want.get(i)),
                format!("line {i}: {:?}", log.get(i)),
            ));
        }
        ch.tag("decoded-equal-to-sync-writer");
        if !sync_readable {
            ch.tag("sync-output-itself-not-readable");
        }
    }
    let st = sink.state.lock().unwrap();
    if st.shutdowns == 0 {
        ch.tag("sink-shutdown-never-polled");
    }
    if st.shutdowns > 1 {
        ch.tag("sink-shutdown-completed-more-than-once");
    }
    if st.writes_after_shutdown > 0 {
        ch.tag("write-after-sink-shutdown");
    }
    Ok(())
}

// ------------------------------------------------------------------------------------------ reject scripts
//
// Records the writer must reject, each failing at a different depth of the encoder, interleaved with
// accepted ones: accept*, reject, accept*, (reject, accept)…, finish. Candidates are generated liberally;
// a candidate is used iff the SYNCHRONOUS writer of the format rejects it (probed at start-up), so the
// set follows whatever the encoders validate. The synchronous writer given the same calls is the
// specification for the outcome of every call and for the output.

/// One SAM line per record, as lazy records.
fn lazy_sam(header: &sam::Header, bufs: &[sam::alignment::RecordBuf]) -> Vec<sam::Record> {
    bufs.iter()
        .filter_map(|b| {
            let line = sam_line(header, b)?;
            sam::Record::try_from(&line[..]).ok()
        })
        .collect()
}

fn sam_line(header: &sam::Header, b: &sam::alignment::RecordBuf) -> Option<Vec<u8>> {
    let mut w = sam::io::Writer::new(Vec::new());
    w.write_alignment_record(header, b).ok()?;
    let mut line = w.into_inner();
    while line.last() == Some(&b'\n') {
        line.pop();
    }
    Some(line)
}

fn with_column(line: &[u8], col: usize, value: &str) -> Vec<u8> {
    let mut cols: Vec<Vec<u8>> = line.split(|&b| b == b'\t').map(|c| c.to_vec()).collect();
    if col < cols.len() {
        cols[col] = value.as_bytes().to_vec();
    } else {
        cols.push(value.as_bytes().to_vec());
    }
    cols.join(&b'\t')
}

/// The header plus reference sequences `x2 … x7`, so that reference sequence id 7 exists.
fn rich_sam_header(header: &sam::Header) -> Option<sam::Header> {
    let mut w = sam::io::Writer::new(Vec::new());
    w.write_header(header).ok()?;
    let mut text = w.into_inner();
    for i in header.reference_sequences().len()..8 {
        text.extend_from_slice(format!("@SQ\tSN:x{i}\tLN:100\n").as_bytes());
    }
    sam::io::Reader::new(&text[..]).read_header().ok()
}

type Labelled<T> = Vec<(&'static str, T)>;

fn aln_candidates(g: &sam::alignment::RecordBuf) -> Labelled<sam::alignment::RecordBuf> {
    use noodles_core::Position;
    use sam::alignment::{
        record::{Flags, data::field::Tag},
        record_buf::{QualityScores, Sequence, data::field::Value},
    };
    let mut v: Labelled<sam::alignment::RecordBuf> = Vec::new();
    let mut add = |label: &'static str, f: &dyn Fn(&mut sam::alignment::RecordBuf)| {
        let mut c = g.clone();
        f(&mut c);
        v.push((label, c));
    };
    // in encoder order of the BAM record: ref_id, pos, l_read_name, …, next_ref_id, …, name, cigar, seq, qual, data
    add("reference-sequence-id-not-in-header", &|c| *c.reference_sequence_id_mut() = Some(7));
    add("alignment-start-beyond-i32", &|c| *c.alignment_start_mut() = Position::new((1usize << 31) + 5));
    add("name-300-bytes", &|c| *c.name_mut() = Some("n".repeat(300).into()));
    add("mate-reference-sequence-id-not-in-header", &|c| {
        *c.flags_mut() |= Flags::SEGMENTED | Flags::FIRST_SEGMENT;
        *c.mate_reference_sequence_id_mut() = Some(7);
        *c.mate_alignment_start_mut() = Position::new(9);
    });
    add("mate-alignment-start-beyond-i32", &|c| {
        *c.flags_mut() |= Flags::SEGMENTED | Flags::FIRST_SEGMENT;
        *c.mate_reference_sequence_id_mut() = Some(0);
        *c.mate_alignment_start_mut() = Position::new((1usize << 31) + 5);
    });
    add("name-with-space", &|c| *c.name_mut() = Some("bad name".into()));
    add("name-with-at", &|c| *c.name_mut() = Some("@bad".into()));
    add("sequence-invalid-base", &|c| {
        let n = c.sequence().len();
        *c.sequence_mut() = Sequence::from(vec![b'!'; n]);
    });
    add("quality-scores-shorter-than-sequence", &|c| {
        let n = c.sequence().len();
        *c.quality_scores_mut() = QualityScores::from(vec![30; n.saturating_sub(1).max(1)]);
    });
    add("quality-score-200", &|c| {
        let n = c.sequence().len();
        *c.quality_scores_mut() = QualityScores::from(vec![200; n]);
    });
    add("data-hex-odd-length", &|c| {
        c.data_mut().insert(Tag::new(b'X', b'H'), Value::Hex("ABC".into()));
    });
    add("data-hex-not-hex", &|c| {
        c.data_mut().insert(Tag::new(b'X', b'H'), Value::Hex("ZZ".into()));
    });
    add("data-string-with-tab", &|c| {
        c.data_mut().insert(Tag::new(b'X', b'Z'), Value::String("a\tb".into()));
    });
    add("data-character-tab", &|c| {
        c.data_mut().insert(Tag::new(b'X', b'A'), Value::Character(b'\t'));
    });
    v
}

fn sam_lazy_candidates(header: &sam::Header, g: &sam::alignment::RecordBuf) -> Labelled<sam::Record> {
    let Some(line) = sam_line(header, g) else { return Vec::new() };
    let n_cols = line.split(|&b| b == b'\t').count();
    let qual = "I".repeat(g.sequence().len().saturating_sub(1).max(1));
    let subs: Vec<(&'static str, usize, &str)> = vec![
        ("flags-not-a-number", 1, "x"),
        ("reference-sequence-name-not-in-header", 2, "nope"),
        ("alignment-start-not-a-number", 3, "abc"),
        ("mapping-quality-999", 4, "999"),
        ("cigar-invalid-op", 5, "4Q"),
        ("mate-reference-sequence-name-not-in-header", 6, "nope"),
        ("mate-alignment-start-not-a-number", 7, "x"),
        ("template-length-not-a-number", 8, "x"),
        ("sequence-invalid-base", 9, "!!!!!!!!"),
        ("quality-scores-shorter-than-sequence", 10, &qual),
        ("data-integer-not-a-number", n_cols, "XX:i:abc"),
        ("data-unknown-type", n_cols, "XX:Q:1"),
        ("data-hex-odd-length", n_cols, "XX:H:ABC"),
    ];
    subs.into_iter().filter_map(|(label, col, val)| sam::Record::try_from(&with_column(&line, col, val)[..]).ok().map(|r| (label, r))).collect()
}

/// Lazy BAM records that are invalid under `header`: written under a richer header, or raw bytes of a
/// good record with one field corrupted, read back with the sync reader.
fn bam_lazy_candidates(header: &sam::Header, g: &sam::alignment::RecordBuf) -> Labelled<bam::Record> {
    let mut out: Labelled<bam::Record> = Vec::new();
    let Some(rich) = rich_sam_header(header) else { return out };
    let read_last = |bytes: &[u8]| -> Option<bam::Record> {
        let mut r = bam::io::Reader::from(bytes);
        r.read_header().ok()?;
        let mut last = None;
        for rec in r.records() {
            last = Some(rec.ok()?);
        }
        last
    };
    let write_raw = |rec: &sam::alignment::RecordBuf| -> Option<Vec<u8>> {
        let mut w = bam::io::Writer::from(Vec::new());
        w.write_header(&rich).ok()?;
        w.write_alignment_record(&rich, rec).ok()?;
        Some(w.into_inner())
    };
    for (label, c) in aln_candidates(g) {
        if label.contains("not-in-header") {
            if let Some(rec) = write_raw(&c).and_then(|b| read_last(&b)) {
                out.push((label, rec));
            }
        }
    }
    // raw corruption of the good record: block = [block_size u32][32 fixed bytes][name][cigar][seq][qual][data]
    if let Some(bytes) = write_raw(g) {
        let name_len = g.name().map(|n| n.len() + 1).unwrap_or(2);
        let n_cigar = g.cigar().as_ref().len();
        let l_seq = g.sequence().len();
        let mut w = bam::io::Writer::from(Vec::new());
        let _ = w.write_header(&rich);
        let rec_start = w.into_inner().len();
        let cigar_at = rec_start + 4 + 32 + name_len;
        let data_at = cigar_at + 4 * n_cigar + l_seq.div_ceil(2) + l_seq;
        if n_cigar > 0 && cigar_at < bytes.len() {
            let mut b = bytes.clone();
            b[cigar_at] |= 0x0f; // op kind 15 does not exist
            if let Some(rec) = read_last(&b) {
                out.push(("cigar-op-kind-15", rec));
            }
        }
        if data_at + 2 < bytes.len() {
            let mut b = bytes.clone();
            b[data_at + 2] = b'?'; // type of the first data field
            if let Some(rec) = read_last(&b) {
                out.push(("data-unknown-type", rec));
            }
        }
    }
    out
}

fn vcf_text(header: &vcf::Header) -> Option<Vec<u8>> {
    let mut w = vcf::io::Writer::new(Vec::new());
    w.write_header(header).ok()?;
    Some(w.into_inner())
}

/// The header plus a contig, a FILTER, an INFO and a FORMAT definition the writer's header lacks.
fn rich_vcf_text(header: &vcf::Header) -> Option<Vec<u8>> {
    let text = vcf_text(header)?;
    let at = text.windows(6).position(|w| w == b"#CHROM")?;
    let mut out = text[..at].to_vec();
    out.extend_from_slice(
        b"##contig=<ID=sqX,length=100>\n##FILTER=<ID=fx,Description=\"x\">\n##INFO=<ID=IX,Number=1,Type=Integer,Description=\"x\">\n##FORMAT=<ID=FX,Number=1,Type=Integer,Description=\"x\">\n",
    );
    out.extend_from_slice(&text[at..]);
    Some(out)
}

fn vcf_line(header: &vcf::Header, b: &vcf::variant::RecordBuf) -> Option<Vec<u8>> {
    let mut w = vcf::io::Writer::new(Vec::new());
    w.write_variant_record(header, b).ok()?;
    let mut line = w.into_inner();
    while line.last() == Some(&b'\n') {
        line.pop();
    }
    Some(line)
}

/// (label, line) candidates: columns of the good line replaced by values that are undefined in the
/// writer's header (but defined in the rich one) or malformed.
fn var_lines(header: &vcf::Header, g: &vcf::variant::RecordBuf) -> Vec<(&'static str, Vec<u8>)> {
    let Some(line) = vcf_line(header, g) else { return Vec::new() };
    let n_cols = line.split(|&b| b == b'\t').count();
    let mut v: Vec<(&'static str, Vec<u8>)> = vec![
        ("chrom-not-in-header", with_column(&line, 0, "sqX")),
        ("chrom-with-space", with_column(&line, 0, "sq 0")),
        ("position-not-a-number", with_column(&line, 1, "abc")),
        ("id-with-space", with_column(&line, 2, "id 0")),
        ("reference-base-Z", with_column(&line, 3, "Z")),
        ("alternate-bases-trailing-comma", with_column(&line, 4, "C,")),
        ("quality-not-a-number", with_column(&line, 5, "x")),
        ("filter-not-in-header", with_column(&line, 6, "fx")),
        ("filter-with-space", with_column(&line, 6, "q 10")),
        ("info-key-not-in-header", with_column(&line, 7, "IX=5")),
        ("info-value-not-a-number", with_column(&line, 7, "DP=abc")),
    ];
    if n_cols > 9 {
        let mut l = with_column(&line, 8, "GT:FX");
        for c in 9..n_cols {
            l = with_column(&l, c, "0/1:5");
        }
        v.push(("format-key-not-in-header", l));
        let mut l = with_column(&line, 8, "DP:GT");
        for c in 9..n_cols {
            l = with_column(&l, c, "5:0/1");
        }
        v.push(("format-gt-not-first", l));
        let mut l = with_column(&line, 8, "GT:DP");
        for c in 9..n_cols {
            l = with_column(&l, c, "0/1:abc");
        }
        v.push(("sample-value-not-a-number", l));
        let cols: Vec<&[u8]> = line.split(|&b| b == b'\t').collect();
        v.push(("sample-column-missing", cols[..n_cols - 1].join(&b'\t')));
    }
    v
}

fn var_candidates(header: &vcf::Header, g: &vcf::variant::RecordBuf) -> (Labelled<vcf::variant::RecordBuf>, Labelled<vcf::Record>, Labelled<bcf::Record>) {
    let (mut bufs, mut lazy, mut blazy): (Labelled<_>, Labelled<_>, Labelled<_>) = (Vec::new(), Vec::new(), Vec::new());
    let Some(rich_text) = rich_vcf_text(header) else { return (bufs, lazy, blazy) };
    let Ok(rich) = vcf::io::Reader::new(&rich_text[..]).read_header() else { return (bufs, lazy, blazy) };
    for (label, line) in var_lines(header, g) {
        if let Ok(r) = vcf::Record::try_from(&line[..]) {
            lazy.push((label, r));
        }
        // owned: parsed under the rich header
        let mut text = rich_text.clone();
        text.extend_from_slice(&line);
        text.push(b'\n');
        let mut r = vcf::io::Reader::new(&text[..]);
        if r.read_header().is_err() {
            continue;
        }
        let mut rec = vcf::variant::RecordBuf::default();
        if matches!(r.read_record_buf(&rich, &mut rec), Ok(n) if n > 0) {
            // lazy BCF: the owned record written under the rich header, read back lazily
            let mut w = bcf::io::Writer::from(Vec::new());
            if w.write_header(&rich).is_ok() && w.write_variant_record(&rich, &rec).is_ok() {
                let raw = w.into_inner();
                let mut br = bcf::io::Reader::from(&raw[..]);
                if br.read_header().is_ok() {
                    if let Some(Ok(b)) = br.records().last() {
                        blazy.push((label, b));
                    }
                }
            }
            bufs.push((label, rec));
        }
    }
    // owned records no parser produces
    let mut c = g.clone();
    *c.reference_bases_mut() = "Z".into();
    bufs.push(("reference-base-Z(set)", c));
    let mut c = g.clone();
    *c.reference_sequence_name_mut() = "sq 0".into();
    bufs.push(("chrom-with-space(set)", c));
    (bufs, lazy, blazy)
}

#[derive(Clone, Copy)]
enum Step {
    G(usize),
    R(usize),
}

fn shapes(n_rej: usize, n_good: usize) -> Vec<(&'static str, Vec<Step>)> {
    use Step::*;
    let g = |i: usize| G(i % n_good);
    let mut v = Vec::new();
    for k in 0..n_rej {
        v.push(("accept-reject-accept", vec![g(0), R(k), g(1)]));
    }
    let mid = n_rej / 2;
    v.push(("reject-first", vec![R(mid), g(0), g(1)]));
    v.push(("reject-last", vec![g(0), g(1), R(mid)]));
    v.push(("two-rejects", vec![g(0), R(0), R(n_rej - 1), g(1)]));
    let mut alt = vec![g(0)];
    for k in 0..n_rej.min(3) {
        alt.push(R(k));
        alt.push(g(k + 1));
    }
    v.push(("alternating", alt));
    v
}

fn lay<T: Clone>(steps: &[Step], good: &[T], rej: &Labelled<T>) -> (Vec<T>, String) {
    let mut out = Vec::new();
    let mut cause = String::new();
    for s in steps {
        match *s {
            Step::G(i) => {
                if !good.is_empty() {
                    out.push(good[i % good.len()].clone());
                }
            }
            Step::R(k) => {
                if !rej.is_empty() {
                    let (label, r) = &rej[k % rej.len()];
                    if cause.is_empty() {
                        cause = label.to_string();
                    }
                    out.push(r.clone());
                }
            }
        }
    }
    if cause.is_empty() {
        cause = "none".into();
    }
    (out, cause)
}

/// Which corpus documents carry reject scripts: one small record set per format.
fn carries_rejects(doc: &Doc) -> bool {
    match doc.format {
        Format::Bam | Format::Sam | Format::SamGz => doc.set == "mapped",
        Format::Cram => doc.set == "mapped" || doc.set == "paired",
        Format::Vcf => doc.set == "two-samples" || doc.set == "sites",
        Format::VcfGz | Format::Bcf => doc.set == "two-samples",
        _ => false,
    }
}

const MAX_REJECTS: usize = 4;

/// Keeps the candidates the synchronous writer rejects through `api`, at most `MAX_REJECTS`, spread over
/// the list (the list is in encoder field order, so the kept ones fail at different depths).
fn probe<T: Clone>(case: &WCase, api: u8, cands: Labelled<T>, wrap: &dyn Fn(Vec<T>) -> Content) -> Labelled<T> {
    let mut kept: Labelled<T> = Vec::new();
    for (label, c) in cands {
        let content = wrap(vec![c.clone()]);
        // a candidate on which the sync writer panics is neither accepted nor rejected: reported, not used
        let calls = match vmc::catch(|| sync_write_v(&View { format: case.format, content: &content, flush_every: 0 }, api)) {
            Ok((calls, _)) => calls,
            Err((msg, file)) => {
                eprintln!("[C16] note: sync {} writer PANICS on candidate {label} (api {api}): {msg} in {file}", case.format);
                continue;
            }
        };
        let rejected = calls.iter().any(|(n, r)| n.starts_with("write_") && *n != "write_header" && r.is_err());
        if rejected {
            kept.push((label, c));
        }
    }
    if kept.len() > MAX_REJECTS {
        let n = kept.len();
        kept = (0..MAX_REJECTS).map(|i| kept[i * (n - 1) / (MAX_REJECTS - 1)].clone()).collect();
    }
    kept
}

fn build_rejects(case: &WCase, doc: &Doc) -> Vec<RScript> {
    if !carries_rejects(doc) {
        return Vec::new();
    }
    let mut out = Vec::new();
    let report = |what: &str, l: &[&'static str]| eprintln!("[C16] reject scripts {}: {what} rejected by the sync writer: {}", case.name, if l.is_empty() { "none".to_string() } else { l.join(" ") });
    match &case.content {
        Content::Aln { header, bufs, bam, sam } => {
            if bufs.len() < 2 {
                return out;
            }
            let good_bufs: Vec<_> = bufs.iter().take(4).cloned().collect();
            let good_bam: Vec<_> = bam.iter().take(4).cloned().collect();
            let good_sam: Vec<_> = sam.iter().take(4).cloned().collect();
            let h = header.clone();
            let wrap_bufs = |v: Vec<sam::alignment::RecordBuf>| Content::Aln { header: h.clone(), bufs: v, bam: Vec::new(), sam: Vec::new() };
            let wrap_bam = |v: Vec<bam::Record>| Content::Aln { header: h.clone(), bufs: Vec::new(), bam: v, sam: Vec::new() };
            let wrap_sam = |v: Vec<sam::Record>| Content::Aln { header: h.clone(), bufs: Vec::new(), bam: Vec::new(), sam: v };
            // a record with data fields makes the data-level corruptions possible
            let g = bufs.iter().find(|b| !b.data().is_empty()).unwrap_or(&bufs[0]);
            let rej_bufs = probe(case, 0, aln_candidates(g), &wrap_bufs);
            let rej_bam = if case.format == Format::Bam { probe(case, 1, bam_lazy_candidates(header, g), &wrap_bam) } else { Vec::new() };
            let sam_api = if case.format == Format::Bam { 3 } else { 1 };
            let rej_sam = if case.apis.contains(&sam_api) { probe(case, sam_api, sam_lazy_candidates(header, g), &wrap_sam) } else { Vec::new() };
            report("owned records", &rej_bufs.iter().map(|x| x.0).collect::<Vec<_>>());
            if case.format == Format::Bam {
                report("lazy BAM records", &rej_bam.iter().map(|x| x.0).collect::<Vec<_>>());
            }
            if case.apis.contains(&sam_api) {
                report("lazy SAM records", &rej_sam.iter().map(|x| x.0).collect::<Vec<_>>());
            }
            let n_rej = rej_bufs.len().max(rej_bam.len()).max(rej_sam.len());
            if n_rej == 0 {
                return out;
            }
            for (shape, steps) in shapes(n_rej, good_bufs.len()) {
                let (b, cb) = lay(&steps, &good_bufs, &rej_bufs);
                let (bl, cbl) = lay(&steps, &good_bam, &rej_bam);
                let (sl, csl) = lay(&steps, &good_sam, &rej_sam);
                let cause = case
                    .apis
                    .iter()
                    .map(|&api| match (case.format, api) {
                        (_, 0) => cb.clone(),
                        (Format::Bam, 1 | 2) => cbl.clone(),
                        _ => csl.clone(),
                    })
                    .collect();
                out.push(RScript { shape, cause, content: Content::Aln { header: header.clone(), bufs: b, bam: bl, sam: sl }, sync: Vec::new() });
            }
        }
        Content::Var { header, bufs, vcf, bcf } => {
            if bufs.len() < 2 {
                return out;
            }
            let good_bufs: Vec<_> = bufs.iter().take(4).cloned().collect();
            let good_vcf: Vec<_> = vcf.iter().take(4).cloned().collect();
            let good_bcf: Vec<_> = bcf.iter().take(4).cloned().collect();
            let h = header.clone();
            let wrap_bufs = |v: Vec<vcf::variant::RecordBuf>| Content::Var { header: h.clone(), bufs: v, vcf: Vec::new(), bcf: Vec::new() };
            let wrap_vcf = |v: Vec<vcf::Record>| Content::Var { header: h.clone(), bufs: Vec::new(), vcf: v, bcf: Vec::new() };
            let wrap_bcf = |v: Vec<bcf::Record>| Content::Var { header: h.clone(), bufs: Vec::new(), vcf: Vec::new(), bcf: v };
            let (cb, cl, cbl) = var_candidates(header, &bufs[0]);
            let rej_bufs = probe(case, 0, cb, &wrap_bufs);
            let (rej_vcf, rej_bcf) = if case.format == Format::Bcf { (Vec::new(), probe(case, 1, cbl, &wrap_bcf)) } else { (probe(case, 1, cl, &wrap_vcf), Vec::new()) };
            report("owned records", &rej_bufs.iter().map(|x| x.0).collect::<Vec<_>>());
            report("lazy records", &rej_vcf.iter().chain(std::iter::empty()).map(|x| x.0).chain(rej_bcf.iter().map(|x| x.0)).collect::<Vec<_>>());
            let n_rej = rej_bufs.len().max(rej_vcf.len()).max(rej_bcf.len());
            if n_rej == 0 {
                return out;
            }
            for (shape, steps) in shapes(n_rej, good_bufs.len()) {
                let (b, cb) = lay(&steps, &good_bufs, &rej_bufs);
                let (vl, cvl) = lay(&steps, &good_vcf, &rej_vcf);
                let (bl, cbl) = lay(&steps, &good_bcf, &rej_bcf);
                let cause = case.apis.iter().map(|&api| if api == 0 { cb.clone() } else if case.format == Format::Bcf { cbl.clone() } else { cvl.clone() }).collect();
                out.push(RScript { shape, cause, content: Content::Var { header: header.clone(), bufs: b, vcf: vl, bcf: bl }, sync: Vec::new() });
            }
        }
        _ => {}
    }
    out
}
