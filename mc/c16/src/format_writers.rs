//! Format-level async writers against their synchronous twins.
//!
//! The content of a corpus document (decoded once with the synchronous reader) is written through the
//! sync writer into a `Vec` and through the async writer into the poll adversary with the same call
//! sequence (one macro body generates both). Uncompressed outputs must be byte-identical; BGZF based
//! outputs must carry the identical uncompressed payload and read back (sync reader) to the same log; CRAM
//! and crai outputs are compared through the sync reader only.

use std::{io, num::NonZero};

use noodles_bam as bam;
use noodles_bcf as bcf;
use noodles_bgzf as bgzf;
use noodles_cram as cram;
use noodles_csi::{
    self as csi,
    binning_index::index::reference_sequence::index::{BinnedIndex, LinearIndex},
};
use noodles_fasta as fasta;
use noodles_fastq as fastq;
use noodles_sam::{self as sam, alignment::io::Write as _};
use noodles_tabix as tabix;
use noodles_vcf::{self as vcf, variant::io::Write as _};
use tokio::io::{AsyncWrite, AsyncWriteExt};
use vmc::{Chooser, Outcome, Violation, oracle::bgzf as ob};
use vnd::{Api, Doc, Format, Opts};
use vrt::{
    CostModel, RtConfig,
    poll::{PollMode, PollWriter},
};

use crate::bgzf_level::check_info;

pub enum Content {
    Aln { header: sam::Header, bufs: Vec<sam::alignment::RecordBuf>, bam: Vec<bam::Record>, sam: Vec<sam::Record> },
    Var { header: vcf::Header, bufs: Vec<vcf::variant::RecordBuf>, vcf: Vec<vcf::Record>, bcf: Vec<bcf::Record> },
    Fasta { records: Vec<fasta::Record>, line: usize },
    Fastq(Vec<fastq::Record>),
    Linear(csi::binning_index::Index<LinearIndex>),
    Binned(csi::binning_index::Index<BinnedIndex>),
    Gzi(bgzf::gzi::Index),
    Fai(fasta::fai::Index),
    Crai(cram::crai::Index),
}

#[derive(Clone, Copy, Debug, PartialEq, Eq)]
pub enum Class {
    /// No compression involved: byte-identical.
    Plain,
    /// BGZF: identical payload, same sync-reader log; byte identity is counted.
    Bgzf,
    /// CRAM / crai: compared through the sync reader only.
    Decoded,
}

pub struct WCase {
    pub format: Format,
    pub name: String,
    pub content: Content,
    /// Record-writing APIs available (`0` = `write_alignment_record` / `write_variant_record` with owned
    /// records, `1` = `write_record` with the format's lazy record).
    pub apis: Vec<u8>,
    pub class: Class,
    /// Flush the sink after the header and after every this many records (0 = never).
    pub flush_every: usize,
    /// Per API: what the sync writer produced.
    pub sync_bytes: Vec<Vec<u8>>,
    pub sync_payload: Vec<Option<Vec<u8>>>,
    pub sync_log: Vec<Vec<String>>,
}

fn fail(what: &str, name: &str, e: impl std::fmt::Display) -> ! {
    vmc::machinery(format!("c16 writers: {what} {name}: {e}"))
}

fn read_opts(format: Format, len: usize) -> Opts {
    let mut o = Opts::new(len);
    o.vpos = false;
    o.debug = false;
    // crai `read_index()` rejects multi-record indexes in this tree (NOTES.md S1): use the record loop
    o.api = if format == Format::Crai { Api::Lazy } else { Api::Eager };
    o
}

fn payload_of(bytes: &[u8]) -> Result<(Vec<u8>, usize), String> {
    let ms = ob::walk(bytes)?;
    let eofs = ms.iter().rev().take_while(|m| m.data.is_empty()).count();
    Ok((ms.iter().flat_map(|m| m.data.iter().copied()).collect(), eofs))
}

/// Builds the writer case of a corpus document (None: the format has no async writer).
pub fn make_wcase(doc: &Doc) -> Option<WCase> {
    let f = doc.format;
    let name = &doc.name;
    let b = &doc.bytes[..];
    let (content, apis, class) = match f {
        Format::Bam => {
            let mut r = bam::io::Reader::new(b);
            let header = r.read_header().unwrap_or_else(|e| fail("read", name, e));
            let bam: Vec<bam::Record> = r.records().collect::<io::Result<_>>().unwrap_or_else(|e| fail("read", name, e));
            let mut r = bam::io::Reader::new(b);
            let _ = r.read_header();
            let bufs = r.record_bufs(&header).collect::<io::Result<_>>().unwrap_or_else(|e| fail("read", name, e));
            (Content::Aln { header, bufs, bam, sam: Vec::new() }, vec![0, 1], Class::Bgzf)
        }
        Format::Sam | Format::SamGz => {
            let text: Vec<u8> = if f == Format::SamGz { doc.inner.as_ref()?.bytes.to_vec() } else { b.to_vec() };
            let mut r = sam::io::Reader::new(&text[..]);
            let header = r.read_header().unwrap_or_else(|e| fail("read", name, e));
            let sam: Vec<sam::Record> = r.records().collect::<io::Result<_>>().unwrap_or_else(|e| fail("read", name, e));
            let mut r = sam::io::Reader::new(&text[..]);
            let _ = r.read_header();
            let bufs = r.record_bufs(&header).collect::<io::Result<_>>().unwrap_or_else(|e| fail("read", name, e));
            (Content::Aln { header, bufs, bam: Vec::new(), sam }, vec![0, 1], if f == Format::Sam { Class::Plain } else { Class::Bgzf })
        }
        Format::Cram => {
            let repo = vnd::records::repository();
            let mut r = cram::io::reader::Builder::default().set_reference_sequence_repository(repo).build_from_reader(b);
            let header = r.read_header().unwrap_or_else(|e| fail("read", name, e));
            let bufs = r.records(&header).collect::<io::Result<_>>().unwrap_or_else(|e| fail("read", name, e));
            (Content::Aln { header, bufs, bam: Vec::new(), sam: Vec::new() }, vec![0], Class::Decoded)
        }
        Format::Vcf | Format::VcfGz => {
            let text: Vec<u8> = if f == Format::VcfGz { doc.inner.as_ref()?.bytes.to_vec() } else { b.to_vec() };
            let mut r = vcf::io::Reader::new(&text[..]);
            let header = r.read_header().unwrap_or_else(|e| fail("read", name, e));
            let vcf: Vec<vcf::Record> = r.records().collect::<io::Result<_>>().unwrap_or_else(|e| fail("read", name, e));
            let mut r = vcf::io::Reader::new(&text[..]);
            let _ = r.read_header();
            let bufs = r.record_bufs(&header).collect::<io::Result<_>>().unwrap_or_else(|e| fail("read", name, e));
            (Content::Var { header, bufs, vcf, bcf: Vec::new() }, vec![0, 1], if f == Format::Vcf { Class::Plain } else { Class::Bgzf })
        }
        Format::Bcf => {
            let mut r = bcf::io::Reader::new(b);
            let header = r.read_header().unwrap_or_else(|e| fail("read", name, e));
            let bcf: Vec<bcf::Record> = r.records().collect::<io::Result<_>>().unwrap_or_else(|e| fail("read", name, e));
            let mut r = bcf::io::Reader::new(b);
            let _ = r.read_header();
            let bufs = r.record_bufs(&header).collect::<io::Result<_>>().unwrap_or_else(|e| fail("read", name, e));
            (Content::Var { header, bufs, vcf: Vec::new(), bcf }, vec![0, 1], Class::Bgzf)
        }
        Format::Fasta => {
            // the corpus name carries the line width ("fasta-w13-crlf"); the writer emits LF only
            let line = name.split('-').find_map(|p| p.strip_prefix('w').and_then(|n| n.parse::<usize>().ok())).unwrap_or(60);
            let mut r = fasta::io::Reader::new(b);
            let records = r.records().collect::<io::Result<_>>().unwrap_or_else(|e| fail("read", name, e));
            (Content::Fasta { records, line }, vec![0], Class::Plain)
        }
        Format::Fastq => {
            let mut r = fastq::io::Reader::new(b);
            let records = r.records().collect::<io::Result<_>>().unwrap_or_else(|e| fail("read", name, e));
            (Content::Fastq(records), vec![0], Class::Plain)
        }
        Format::Bai => (Content::Linear(bam::bai::io::Reader::new(b).read_index().unwrap_or_else(|e| fail("read", name, e))), vec![0], Class::Plain),
        Format::Tbi => (Content::Linear(tabix::io::Reader::new(b).read_index().unwrap_or_else(|e| fail("read", name, e))), vec![0], Class::Bgzf),
        Format::Csi => (Content::Binned(csi::io::Reader::new(b).read_index().unwrap_or_else(|e| fail("read", name, e))), vec![0], Class::Bgzf),
        Format::Gzi => (Content::Gzi(bgzf::gzi::io::Reader::new(b).read_index().unwrap_or_else(|e| fail("read", name, e))), vec![0], Class::Plain),
        Format::Fai => (Content::Fai(fasta::fai::io::Reader::new(b).read_index().unwrap_or_else(|e| fail("read", name, e))), vec![0], Class::Plain),
        Format::Crai => {
            let mut r = cram::crai::io::Reader::new(b);
            let mut rec = cram::crai::Record::default();
            let mut v = Vec::new();
            while r.read_record(&mut rec).unwrap_or_else(|e| fail("read", name, e)) != 0 {
                v.push(rec.clone());
            }
            (Content::Crai(v), vec![0], Class::Decoded)
        }
        _ => return None,
    };
    let mut case = WCase {
        format: f,
        name: name.clone(),
        content,
        apis,
        class,
        flush_every: 2,
        sync_bytes: Vec::new(),
        sync_payload: Vec::new(),
        sync_log: Vec::new(),
    };
    case.recompute();
    Some(case)
}

impl WCase {
    /// (Re)computes what the synchronous writer produces for the current `flush_every`.
    pub fn recompute(&mut self) {
        let name = self.name.clone();
        self.sync_bytes.clear();
        self.sync_payload.clear();
        self.sync_log.clear();
        for &api in &self.apis.clone() {
            let (res, bytes) = sync_write(self, api);
            if let Some((call, Err(e))) = res.iter().find(|(_, r)| r.is_err()) {
                fail(&format!("sync writer call {call} failed for"), &name, e);
            }
            let payload = match self.class {
                Class::Bgzf => Some(payload_of(&bytes).unwrap_or_else(|e| fail("sync output is not BGZF", &name, e)).0),
                _ => None,
            };
            let log = vnd::read_log(self.format, &bytes[..], &read_opts(self.format, bytes.len()));
            if !log.last().map(|l| vnd::is_end_eof(l)).unwrap_or(false) {
                fail("sync reader rejects the sync writer's output of", &name, format!("{:?}", log.last()));
            }
            self.sync_bytes.push(bytes);
            self.sync_payload.push(payload);
            self.sync_log.push(log);
        }
    }
}

// ------------------------------------------------------------------------------------------ paired drivers

type Calls = Vec<(&'static str, Result<(), String>)>;

fn es(r: io::Result<()>) -> Result<(), String> {
    r.map_err(|e| format!("{:?}: {e}", e.kind()))
}

macro_rules! aw {
    (sync, $e:expr) => {
        $e
    };
    (asyn, $e:expr) => {
        $e.await
    };
}

macro_rules! fl {
    (sync, $w:expr) => {
        std::io::Write::flush($w)
    };
    (asyn, $w:expr) => {
        tokio::io::AsyncWriteExt::flush($w).await
    };
}

/// header, flush, records (through `$call`), a flush after every `flush_every` records.
macro_rules! records_body {
    ($m:ident, $w:ident, $res:ident, $case:ident, $header:expr, $records:expr, $call:ident) => {{
        $res.push(("write_header", es(aw!($m, $w.write_header($header)))));
        if $case.flush_every > 0 {
            $res.push(("flush", es(fl!($m, $w.get_mut()))));
        }
        for (i, rec) in $records.iter().enumerate() {
            $res.push((stringify!($call), es(aw!($m, $w.$call($header, rec)))));
            if $case.flush_every > 0 && (i + 1) % $case.flush_every == 0 {
                $res.push(("flush", es(fl!($m, $w.get_mut()))));
            }
        }
    }};
}

macro_rules! plain_records_body {
    ($m:ident, $w:ident, $res:ident, $case:ident, $records:expr) => {{
        for (i, rec) in $records.iter().enumerate() {
            $res.push(("write_record", es(aw!($m, $w.write_record(rec)))));
            if $case.flush_every > 0 && (i + 1) % $case.flush_every == 0 {
                $res.push(("flush", es(fl!($m, $w.get_mut()))));
            }
        }
    }};
}

macro_rules! aln_body {
    ($m:ident, $w:ident, $res:ident, $case:ident, $api:expr, $lazy:ident) => {{
        let Content::Aln { header, bufs, $lazy, .. } = &$case.content else { unreachable!() };
        if $api == 0 {
            records_body!($m, $w, $res, $case, header, bufs, write_alignment_record);
        } else {
            records_body!($m, $w, $res, $case, header, $lazy, write_record);
        }
    }};
}

macro_rules! var_body {
    ($m:ident, $w:ident, $res:ident, $case:ident, $api:expr, $lazy:ident) => {{
        let Content::Var { header, bufs, $lazy, .. } = &$case.content else { unreachable!() };
        if $api == 0 {
            records_body!($m, $w, $res, $case, header, bufs, write_variant_record);
        } else {
            records_body!($m, $w, $res, $case, header, $lazy, write_record);
        }
    }};
}

fn cram_sync_writer(sink: Vec<u8>) -> cram::io::Writer<Vec<u8>> {
    cram::io::writer::Builder::default().set_reference_sequence_repository(vnd::records::repository()).build_from_writer(sink)
}

fn abgzf<W: AsyncWrite + Unpin>(sink: W, workers: usize) -> bgzf::r#async::io::Writer<W> {
    bgzf::r#async::io::writer::Builder::default().set_worker_count(NonZero::new(workers).unwrap()).build_from_writer(sink)
}

/// The synchronous twin: same calls, `finish` where the async side calls `shutdown`.
pub fn sync_write(case: &WCase, api: u8) -> (Calls, Vec<u8>) {
    let mut res: Calls = Vec::new();
    let out: Vec<u8> = match case.format {
        Format::Bam => {
            let mut w = bam::io::Writer::from(bgzf::io::Writer::new(Vec::new()));
            aln_body!(sync, w, res, case, api, bam);
            finish_bgzf(&mut res, w.into_inner())
        }
        Format::Sam => {
            let mut w = sam::io::Writer::new(Vec::new());
            aln_body!(sync, w, res, case, api, sam);
            w.into_inner()
        }
        Format::SamGz => {
            let mut w = sam::io::Writer::new(bgzf::io::Writer::new(Vec::new()));
            aln_body!(sync, w, res, case, api, sam);
            finish_bgzf(&mut res, w.into_inner())
        }
        Format::Cram => {
            let mut w = cram_sync_writer(Vec::new());
            let Content::Aln { header, bufs, .. } = &case.content else { unreachable!() };
            records_body!(sync, w, res, case, header, bufs, write_alignment_record);
            res.push(("shutdown", es(w.try_finish(header))));
            w.into_inner()
        }
        Format::Vcf => {
            let mut w = vcf::io::Writer::new(Vec::new());
            var_body!(sync, w, res, case, api, vcf);
            w.into_inner()
        }
        Format::VcfGz => {
            let mut w = vcf::io::Writer::new(bgzf::io::Writer::new(Vec::new()));
            var_body!(sync, w, res, case, api, vcf);
            finish_bgzf(&mut res, w.into_inner())
        }
        Format::Bcf => {
            let mut w = bcf::io::Writer::from(bgzf::io::Writer::new(Vec::new()));
            var_body!(sync, w, res, case, api, bcf);
            finish_bgzf(&mut res, w.into_inner())
        }
        Format::Fasta => {
            let Content::Fasta { records, line } = &case.content else { unreachable!() };
            let mut w = fasta::io::writer::Builder::default().set_line_base_count(NonZero::new(*line).unwrap()).build_from_writer(Vec::new());
            plain_records_body!(sync, w, res, case, records);
            w.into_inner()
        }
        Format::Fastq => {
            let Content::Fastq(records) = &case.content else { unreachable!() };
            let mut w = fastq::io::Writer::new(Vec::new());
            plain_records_body!(sync, w, res, case, records);
            w.into_inner()
        }
        Format::Bai => {
            let Content::Linear(idx) = &case.content else { unreachable!() };
            let mut w = bam::bai::io::Writer::new(Vec::new());
            res.push(("write_index", es(w.write_index(idx))));
            w.into_inner()
        }
        Format::Tbi => {
            let Content::Linear(idx) = &case.content else { unreachable!() };
            let mut w = tabix::io::Writer::new(Vec::new());
            res.push(("write_index", es(w.write_index(idx))));
            finish_bgzf(&mut res, w.into_inner())
        }
        Format::Csi => {
            let Content::Binned(idx) = &case.content else { unreachable!() };
            let mut w = csi::io::Writer::new(Vec::new());
            res.push(("write_index", es(w.write_index(idx))));
            finish_bgzf(&mut res, w.into_inner())
        }
        Format::Gzi => {
            let Content::Gzi(idx) = &case.content else { unreachable!() };
            let mut w = bgzf::gzi::io::Writer::new(Vec::new());
            res.push(("write_index", es(w.write_index(idx))));
            w.into_inner()
        }
        Format::Fai => {
            let Content::Fai(idx) = &case.content else { unreachable!() };
            let mut w = fasta::fai::io::Writer::new(Vec::new());
            res.push(("write_index", es(w.write_index(idx))));
            w.into_inner()
        }
        Format::Crai => {
            let Content::Crai(idx) = &case.content else { unreachable!() };
            let mut w = cram::crai::io::Writer::new(Vec::new());
            res.push(("write_index", es(w.write_index(idx))));
            match w.finish() {
                Ok(v) => {
                    res.push(("shutdown", Ok(())));
                    v
                }
                Err(e) => {
                    res.push(("shutdown", es(Err(e))));
                    Vec::new()
                }
            }
        }
        f => unreachable!("no writer driver for {f}"),
    };
    (res, out)
}

fn finish_bgzf(res: &mut Calls, w: bgzf::io::Writer<Vec<u8>>) -> Vec<u8> {
    match w.finish() {
        Ok(v) => {
            res.push(("shutdown", Ok(())));
            v
        }
        Err(e) => {
            res.push(("shutdown", es(Err(e))));
            Vec::new()
        }
    }
}

/// The async driver. `shutdown()` is the writer's own where it has one, else the sink's (through
/// `get_mut()`), as a caller has to do.
pub async fn async_write<W: AsyncWrite + Unpin>(case: &WCase, api: u8, sink: W, workers: usize) -> Calls {
    let mut res: Calls = Vec::new();
    match case.format {
        Format::Bam => {
            let mut w = bam::r#async::io::Writer::from(abgzf(sink, workers));
            aln_body!(asyn, w, res, case, api, bam);
            res.push(("shutdown", es(w.shutdown().await)));
        }
        Format::Sam => {
            let mut w = sam::r#async::io::Writer::new(sink);
            aln_body!(asyn, w, res, case, api, sam);
            res.push(("shutdown", es(w.get_mut().shutdown().await)));
        }
        Format::SamGz => {
            let mut w = sam::r#async::io::Writer::new(abgzf(sink, workers));
            aln_body!(asyn, w, res, case, api, sam);
            res.push(("shutdown", es(w.get_mut().shutdown().await)));
        }
        Format::Cram => {
            let mut w = cram::r#async::io::writer::Builder::default().set_reference_sequence_repository(vnd::records::repository()).build_from_writer(sink);
            let Content::Aln { header, bufs, .. } = &case.content else { unreachable!() };
            records_body!(asyn, w, res, case, header, bufs, write_alignment_record);
            res.push(("shutdown", es(w.shutdown(header).await)));
            res.push(("sink.shutdown", es(w.get_mut().shutdown().await)));
        }
        Format::Vcf => {
            let mut w = vcf::r#async::io::Writer::new(sink);
            var_body!(asyn, w, res, case, api, vcf);
            res.push(("shutdown", es(w.shutdown().await)));
        }
        Format::VcfGz => {
            let mut w = vcf::r#async::io::Writer::new(abgzf(sink, workers));
            var_body!(asyn, w, res, case, api, vcf);
            res.push(("shutdown", es(w.shutdown().await)));
        }
        Format::Bcf => {
            let mut w = bcf::r#async::io::Writer::from(abgzf(sink, workers));
            var_body!(asyn, w, res, case, api, bcf);
            res.push(("shutdown", es(w.get_mut().shutdown().await)));
        }
        Format::Fasta => {
            let Content::Fasta { records, line } = &case.content else { unreachable!() };
            let mut w = fasta::r#async::io::writer::Builder::default().set_line_base_count(NonZero::new(*line).unwrap()).build_from_writer(sink);
            plain_records_body!(asyn, w, res, case, records);
            res.push(("shutdown", es(w.get_mut().shutdown().await)));
        }
        Format::Fastq => {
            let Content::Fastq(records) = &case.content else { unreachable!() };
            let mut w = fastq::r#async::io::Writer::new(sink);
            plain_records_body!(asyn, w, res, case, records);
            res.push(("shutdown", es(w.get_mut().shutdown().await)));
        }
        Format::Bai => {
            let Content::Linear(idx) = &case.content else { unreachable!() };
            let mut w = bam::bai::r#async::io::Writer::new(sink);
            res.push(("write_index", es(w.write_index(idx).await)));
            res.push(("shutdown", es(w.shutdown().await)));
        }
        Format::Tbi => {
            // the tabix / CSI async writers build their BGZF writer themselves (default worker count)
            let Content::Linear(idx) = &case.content else { unreachable!() };
            let mut w = tabix::r#async::io::Writer::new(sink);
            res.push(("write_index", es(w.write_index(idx).await)));
            res.push(("shutdown", es(w.shutdown().await)));
        }
        Format::Csi => {
            let Content::Binned(idx) = &case.content else { unreachable!() };
            let mut w = csi::r#async::io::Writer::new(sink);
            res.push(("write_index", es(w.write_index(idx).await)));
            res.push(("shutdown", es(w.shutdown().await)));
        }
        Format::Gzi => {
            let Content::Gzi(idx) = &case.content else { unreachable!() };
            let mut w = bgzf::gzi::r#async::io::Writer::new(sink);
            res.push(("write_index", es(w.write_index(idx).await)));
            res.push(("shutdown", es(w.get_mut().shutdown().await)));
        }
        Format::Fai => {
            let Content::Fai(idx) = &case.content else { unreachable!() };
            let mut w = fasta::fai::r#async::io::Writer::new(sink);
            res.push(("write_index", es(w.write_index(idx).await)));
            res.push(("shutdown", es(w.shutdown().await)));
        }
        Format::Crai => {
            let Content::Crai(idx) = &case.content else { unreachable!() };
            let mut w = cram::crai::r#async::io::Writer::new(sink);
            res.push(("write_index", es(w.write_index(idx).await)));
            res.push(("shutdown", es(w.shutdown().await)));
        }
        f => unreachable!("no writer driver for {f}"),
    }
    res
}

// ------------------------------------------------------------------------------------------ harness body

/// Number of sink polls of the default (always ready, full transfers) execution: the size of the choice
/// tree under `Choose` grows with its `bound`-th power.
pub fn sink_polls(case: &WCase) -> u64 {
    let ch = Chooser::defaults();
    let sink = PollWriter::new(PollMode::Ready, None);
    let sink2 = sink.clone();
    let api = case.apis[0];
    let _ = vrt::run(&ch, RtConfig::new(1, CostModel::Delay), || vrt::block_on(async_write(case, api, sink2, 1)));
    let n = sink.state.lock().unwrap().polls;
    n
}

fn api_name(case: &WCase, api: u8) -> &'static str {
    match (&case.content, api) {
        (Content::Aln { .. }, 0) => "write_alignment_record",
        (Content::Var { .. }, 0) => "write_variant_record",
        (Content::Aln { .. } | Content::Var { .. }, _) => "write_record",
        (Content::Fasta { .. } | Content::Fastq(_), _) => "write_record",
        _ => "write_index",
    }
}

pub fn workers_apply(f: Format) -> bool {
    matches!(f, Format::Bam | Format::Bcf | Format::SamGz | Format::VcfGz)
}

/// E1 body: document x API x worker count x sink mode, then every poll decision / schedule.
pub fn writer_body(ch: &Chooser, cases: &[&WCase], workers: &[usize], modes: &[PollMode]) -> Outcome {
    let case = *ch.pick_free("doc", cases);
    let ai = ch.free("api", case.apis.len());
    let api = case.apis[ai];
    let w = if workers_apply(case.format) { *ch.pick_free("workers", workers) } else { 1 };
    let mode = ch.pick_free("mode", modes).clone();
    let fmt = case.format.name();
    let aname = api_name(case, api);
    let describe = || {
        format!(
            "async {} writer content-of={} api={aname} flush_every={}{} sink=PollWriter({mode:?})",
            case.format,
            case.name,
            case.flush_every,
            if workers_apply(case.format) { format!(" workers={w}") } else { String::new() }
        )
    };
    let sink = PollWriter::new(mode.clone(), Some(ch.clone()));
    let sink2 = sink.clone();
    let mut cfg = RtConfig::new(w, CostModel::Delay);
    cfg.horizon = 50_000 + 16 * case.sync_bytes[ai].len();
    let caught = vmc::catch(|| vrt::run(ch, cfg, || vrt::block_on(async_write(case, api, sink2, w))));
    let (calls, info) = match caught {
        Ok(x) => x,
        Err((msg, file)) => {
            return Err(Violation::new(
                format!("fmt-writer format={fmt} api={aname} outcome=panic msg={} file={}", vmc::normalise_msg(&msg), file),
                describe(),
                "no panic",
                format!("panic: {msg} in {file}"),
            ));
        }
    };
    ch.obs(info.schedule_string());
    let st_polls = sink.state.lock().unwrap().polls;
    ch.steps(info.steps as u64 + st_polls);
    if info.spawned_blocking >= 2 {
        ch.tag("two-or-more-deflate-tasks");
    }
    check_info(&info, &describe).map_err(|mut v| {
        v.fingerprint = format!("fmt-writer format={fmt} api={aname} {}", v.fingerprint);
        v
    })?;
    let Some(calls) = calls else {
        return Err(Violation::new(format!("fmt-writer format={fmt} api={aname} outcome=aborted-without-cause"), describe(), "completes", "unwound"));
    };
    if let Some((call, Err(e))) = calls.iter().find(|(_, r)| r.is_err()) {
        let kind = e.split(':').next().unwrap_or("");
        return Err(Violation::new(
            format!("fmt-writer format={fmt} api={aname} call={call} symptom=unexpected-error kind={kind}"),
            describe(),
            "every call Ok (as with the sync writer)",
            e.clone(),
        ));
    }
    let bytes = sink.bytes();
    ch.obs_hash(&bytes);
    // the sequence of accepted sizes distinguishes executions of uncompressed writers
    ch.obs_hash((st_polls, sink.state.lock().unwrap().flushes));
    ch.desc(|| format!("{} schedule: {}", describe(), info.schedule_string()));
    let sync_bytes = &case.sync_bytes[ai];
    match case.class {
        Class::Plain => {
            if &bytes != sync_bytes {
                return Err(Violation::new(
                    format!("fmt-writer format={fmt} api={aname} symptom=bytes-differ-from-sync"),
                    describe(),
                    format!("{} bytes, identical to the sync writer's", sync_bytes.len()),
                    vmc::diff_bytes(sync_bytes, &bytes),
                ));
            }
            ch.tag("byte-identical-to-sync-writer");
        }
        Class::Bgzf => {
            let (payload, eofs) = match payload_of(&bytes) {
                Ok(x) => x,
                Err(e) => {
                    return Err(Violation::new(
                        format!("fmt-writer format={fmt} api={aname} symptom=output-not-wellformed-bgzf"),
                        format!("{} schedule: {}", describe(), info.schedule_string()),
                        "well-formed BGZF",
                        e,
                    ));
                }
            };
            let want = case.sync_payload[ai].as_ref().unwrap();
            if &payload != want {
                return Err(Violation::new(
                    format!("fmt-writer format={fmt} api={aname} symptom=payload-differs-from-sync"),
                    format!("{} schedule: {}", describe(), info.schedule_string()),
                    format!("{} payload bytes, identical to the sync writer's", want.len()),
                    vmc::diff_bytes(want, &payload),
                ));
            }
            if eofs != 1 {
                ch.tag("eof-marker-count-not-1");
            }
            if &bytes == sync_bytes {
                ch.tag("byte-identical-to-sync-writer");
            } else {
                ch.tag("bgzf-block-layout-differs-from-sync");
            }
        }
        Class::Decoded => {}
    }
    if case.class != Class::Plain {
        let log = vnd::read_log(case.format, &bytes[..], &read_opts(case.format, bytes.len()));
        let want = &case.sync_log[ai];
        if &log != want {
            let i = log.iter().zip(want.iter()).position(|(a, b)| a != b).unwrap_or(log.len().min(want.len()));
            let kind = want.get(i).or(log.get(i)).map(|l| l.split(['[', ':']).next().unwrap_or("").to_string()).unwrap_or_default();
            return Err(Violation::new(
                format!("fmt-writer format={fmt} api={aname} symptom=decoded-differs-from-sync line={kind}"),
                format!("{} schedule: {}", describe(), info.schedule_string()),
                format!("line {i}: {:?}", want.get(i)),
                format!("line {i}: {:?}", log.get(i)),
            ));
        }
        ch.tag("decoded-equal-to-sync-writer");
    }
    let st = sink.state.lock().unwrap();
    if st.shutdowns == 0 {
        ch.tag("sink-shutdown-never-polled");
    }
    if st.shutdowns > 1 {
        ch.tag("sink-shutdown-completed-more-than-once");
    }
    if st.writes_after_shutdown > 0 {
        ch.tag("write-after-sink-shutdown");
    }
    Ok(())
}
