//! C16 — async readers and writers behave exactly like their synchronous counterparts.

mod bgzf_level;
mod cut;
mod format_level;
mod format_writers;
mod large;

use bgzf_level::{ROp::*, WOp, make_case, make_wscript};
use vmc::{Config, oracle::bgzf::Payload};
use vrt::{CostModel, poll::PollMode};

fn main() {
    vmc::run("C16", "model_checking", |ctx| {
        ctx.rule("every poll schedule (partial transfer / Pending at every poll of the underlying source or sink) and every blocking-task completion order within the deviation bound x worker counts x scripts; the synchronous reader/writer run on the same input is the specification; distinct = distinct (schedule, delivery, observation) logs");
        ctx.assume("tokio-util FramedRead/FramedWrite and futures TryBuffered/Buffer are executed, not explored internally");
        ctx.assume("spawn_blocking is modelled as a controlled thread whose completion wakes the JoinHandle's waker atomically");

        // ---- BGZF level ----
        let mut cases = Vec::new();
        cases.push(make_case(&[3, 5, 2], true, vec![ReadToEnd]));
        cases.push(make_case(&[3, 0, 4], true, vec![ReadToEnd]));
        cases.push(make_case(&[4, 2], false, vec![ReadToEnd]));
        cases.push(make_case(&[], true, vec![ReadToEnd]));
        cases.push(make_case(&[3, 5, 2], true, vec![ReadExact(2), ReadExact(4), ReadExact(4), Read(5)]));
        cases.push(make_case(&[3, 5, 2], true, vec![FillConsume(1), FillConsume(100), ReadExact(3), ReadToEnd]));
        cases.push(make_case(&[3, 5, 2], true, vec![ReadExact(2), Seek(1, 2), ReadToEnd]));
        cases.push(make_case(&[3, 5, 2], true, vec![ReadToEnd, Seek(0, 1), ReadExact(1), Seek(2, 0), ReadToEnd]));
        cases.push(make_case(&[3, 0, 4], true, vec![ReadExact(1), Seek(1, 0), ReadExact(2), ReadToEnd]));
        // seek to the end-of-stream position (file length) and to the EOF marker block
        cases.push(make_case(&[3, 5, 2], true, vec![ReadExact(2), Seek(4, 0), Read(4), Seek(1, 1), ReadExact(2)]));
        cases.push(make_case(&[3, 5], false, vec![ReadToEnd, Seek(2, 0), Read(4), Seek(0, 2), ReadToEnd]));
        cases.push(make_case(&[3, 5, 2], true, vec![ReadExact(2), Seek(3, 0), Read(4)]));
        cases.push(make_case(&[3, 5, 2], true, vec![ReadExact(1), SeekIndex(4), ReadExact(2), SeekIndex(3), ReadExact(7), SeekIndex(10), Read(1), SeekIndex(0), ReadToEnd]));
        cases.push(make_case(&[3, 0, 4], false, vec![SeekIndex(3), ReadExact(2), SeekIndex(7), Read(1), SeekIndex(2), ReadToEnd]));
        // seek onto empty blocks (one and two in a row), then read across the next block boundaries: the
        // positions reported after the landed block must still be the sync reader's
        cases.push(make_case(&[3, 0, 4, 2], true, vec![ReadExact(3), Seek(1, 0), ReadExact(5), ReadExact(1), ReadToEnd]));
        cases.push(make_case(&[3, 0, 0, 4, 2, 1], true, vec![Seek(1, 0), ReadExact(4), ReadExact(1), Seek(2, 0), ReadExact(5), FillConsume(1), ReadToEnd]));
        let workers = [2usize, 1, 3];
        let choose = [PollMode::Choose];
        let uniform = [PollMode::OneByte, PollMode::PendingEvery, PollMode::Irregular, PollMode::Ready];
        let rb = ctx.by_tier(3, 4);
        ctx.harness(Config::new("bgzf_reader", rb), |ch| {
            bgzf_level::reader_body(ch, &cases, &workers, &choose, CostModel::Delay)
        });
        ctx.harness(Config::new("bgzf_reader_uniform", ctx.by_tier(1, 2)), |ch| {
            bgzf_level::reader_body(ch, &cases, &workers, &uniform, CostModel::Delay)
        });

        use WOp::*;
        let scripts = vec![
            make_wscript("3-flushes", vec![W(5), F, W(5), F, W(1)], Payload::Text),
            make_wscript("staging-full", vec![W(65496), W(5)], Payload::Zeros),
            make_wscript("one-block", vec![W(5)], Payload::Text),
            make_wscript("empty", vec![], Payload::Text),
            make_wscript("flush-only", vec![F], Payload::Text),
        ];
        let wb = ctx.by_tier(3, 4);
        ctx.harness(Config::new("bgzf_writer", wb), |ch| {
            bgzf_level::writer_body(ch, &scripts, &workers, &choose, CostModel::Preempt)
        });
        ctx.harness(Config::new("bgzf_writer_uniform", ctx.by_tier(1, 2)), |ch| {
            bgzf_level::writer_body(ch, &scripts, &workers, &uniform, CostModel::Preempt)
        });

        // ---- format level ----
        format_level_harnesses(ctx);
    });
}

fn format_level_harnesses(ctx: &mut vmc::Ctx) {
    use format_level::{RCase, Script};
    use vnd::Format;

    ctx.rule("format level: corpus document x script (sequential read through every record API, region queries incl. repeated / overlapping / unknown regions, query_unmapped, read-query-read) x BGZF worker count {1,2} x source adversary (PollReader Choose within the deviation bound; OneByte / PendingEvery / Irregular; CutReader = every set of k window boundaries); the trace of the synchronous reader driven by the same macro-generated driver is the specification; writers: content of every corpus document x record API x worker count x PollWriter mode");
    ctx.assume("vnd render_* functions and the synchronous readers used to decode writer outputs are deterministic");
    ctx.assume("the CSI / tabix async readers and writers build their BGZF layer with the default worker count (available_parallelism); it cannot be chosen through their API");

    let env_u32 = |k: &str| std::env::var(k).ok().and_then(|s| s.parse::<u32>().ok());
    // development switch (never set by ./check): run only the format-level harnesses whose name contains it
    let only = std::env::var("C16_ONLY").ok();
    let on = |name: &str| only.as_deref().map(|o| o.split(',').any(|o| name == o)).unwrap_or(true);
    // development switch: the thorough corpus and document sets in a quick-tier run
    let thorough = ctx.thorough() || std::env::var_os("C16_THOROUGH_SETS").is_some();
    let docs = vnd::corpus(thorough);
    // plus, for the BGZF based formats, the same payloads with block boundaries inside the record prefixes
    // (and, thorough, every 61 payload bytes): the format readers then see short reads from the BGZF layer
    let mut extra: Vec<vnd::Doc> = Vec::new();
    for d in docs.iter().filter(|d| !d.big && d.set != "empty") {
        extra.extend(format_level::reblocked(d, None));
        if thorough {
            extra.extend(format_level::reblocked(d, Some(61)));
        }
    }
    // tabix / CSI documents with a block boundary inside every integer field (at most 64 of them)
    for d in docs.iter().filter(|d| !d.big && d.set != "empty") {
        extra.extend(large::reblocked_in_counts(d, 64, None));
    }
    let all: Vec<RCase> = docs.iter().chain(extra.iter()).filter(|d| !d.big).filter_map(|d| format_level::make_rcase(&docs, d)).collect();
    // one small document per format for the deeper bounds: the one with the most scripts, then the smallest
    let mut small: Vec<RCase> = Vec::new();
    for f in Format::ALL {
        // documents with at least two records (header, records, EOF in the first sequential trace)
        let mut of: Vec<&RCase> = all.iter().filter(|c| c.format == f && c.scripts.iter().zip(&c.expect).any(|(s, t)| matches!(s, Script::Seq(_)) && t.lines.len() > 3) && !c.name.contains("reblocked")).collect();
        of.sort_by_key(|c| (c.name.contains("empty"), std::cmp::Reverse(c.scripts.len()), c.bytes.len()));
        // FASTA: the CRLF document is the interesting one
        if f == Format::Fasta {
            of.sort_by_key(|c| (!c.name.contains("crlf"), c.bytes.len()));
        }
        if let Some(c) = of.first() {
            small.push(c.restricted(&|_| true).unwrap());
        }
    }
    eprintln!("[C16] format level: {} reader cases ({} in the deep set: {})", all.len(), small.len(), small.iter().map(|c| c.name.as_str()).collect::<Vec<_>>().join(" "));
    let workers = [1usize, 2];
    let uniform = [PollMode::OneByte, PollMode::PendingEvery, PollMode::Irregular];
    let choose = [PollMode::Choose];

    // readers
    let bu = env_u32("C16_BU").unwrap_or(ctx.by_tier(0, 1));
    if on("fmt_reader_uniform") {
        ctx.harness(Config::new("fmt_reader_uniform", bu), |ch| format_level::reader_body(ch, &all.iter().collect::<Vec<_>>(), &workers, &uniform));
    }
    let b = env_u32("C16_B").unwrap_or(ctx.by_tier(1, 2));
    if on("fmt_reader") {
        // the documents re-blocked every 61 bytes / inside every index count have 20+ inflate tasks per
        // execution: bound 1 in both tiers
        let (light, heavy): (Vec<&RCase>, Vec<&RCase>) = all.iter().partition(|c| !c.name.contains("reblocked-every") && !c.name.contains("reblocked-in-counts"));
        ctx.harness(Config::new("fmt_reader", b), |ch| format_level::reader_body(ch, &light, &workers, &choose));
        if !heavy.is_empty() {
            ctx.harness(Config::new("fmt_reader_manyblocks", 1), |ch| format_level::reader_body(ch, &heavy, &workers, &choose));
        }
    }
    let bd = env_u32("C16_BD").unwrap_or(ctx.by_tier(2, 3));
    if on("fmt_reader_deep") {
        ctx.harness(Config::new("fmt_reader_deep", bd), |ch| format_level::reader_body(ch, &small.iter().collect::<Vec<_>>(), &workers, &choose));
    }

    // every single window boundary: all scripts for readers without a BGZF layer; for the BGZF based
    // ones (the BGZF level harnesses own the block framing) one sequential, the query and the mixed scripts
    let cut1: Vec<RCase> = all
        .iter()
        .filter_map(|c| {
            if c.name.contains("reblocked") {
                // the BGZF level harnesses own the block framing; the re-blocked documents are for the
                // Choose / uniform harnesses
                None
            } else if c.workers_apply || matches!(c.format, Format::Csi | Format::Tbi) {
                let deep = small.iter().any(|s| s.name == c.name);
                if !deep && !thorough {
                    return None;
                }
                c.restricted(&|s| matches!(s, Script::Seq(0) | Script::Mixed(_)) || matches!(s, Script::Query(l, _) if *l == "three-regions" || *l == "same-region-twice"))
            } else if c.format == Format::Cram && !thorough {
                // CRAM executions are the expensive ones: one document, three scripts in the quick tier
                if !small.iter().any(|s| s.name == c.name) {
                    return None;
                }
                c.restricted(&|s| matches!(s, Script::Seq(_)) || matches!(s, Script::Query(l, _) if *l == "same-region-twice"))
            } else {
                c.restricted(&|_| true)
            }
        })
        .collect();
    if on("fmt_reader_cut1") {
        ctx.harness(Config::new("fmt_reader_cut1", 0), |ch| format_level::reader_cut_body(ch, &cut1, 1, &|_| 1));
    }
    // every pair of window boundaries on a grid of at most `g` offsets, readers without a BGZF layer
    let g = ctx.by_tier(48usize, 128);
    let cut2: Vec<RCase> = (if !thorough { &small } else { &all })
        .iter()
        .filter(|c| !(c.workers_apply || matches!(c.format, Format::Csi | Format::Tbi)))
        .filter_map(|c| c.restricted(&|s| thorough || matches!(s, Script::Seq(0) | Script::Seq(1))))
        .collect();
    if on("fmt_reader_cut2") {
        ctx.harness(Config::new("fmt_reader_cut2", 0), |ch| format_level::reader_cut_body(ch, &cut2, 2, &|c| c.bytes.len().div_ceil(g)));
    }

    // writers
    let wcases: Vec<format_writers::WCase> = docs.iter().filter(|d| !d.big).filter_map(format_writers::make_wcase).collect();
    let mut wsmall: Vec<&format_writers::WCase> = Vec::new();
    for f in Format::ALL {
        let mut of: Vec<&format_writers::WCase> = wcases.iter().filter(|c| c.format == f && c.sync_log[0].len() > 2).collect();
        of.sort_by_key(|c| (c.name.contains("empty"), c.sync_bytes[0].len()));
        if let Some(c) = of.first() {
            wsmall.push(c);
        }
    }
    eprintln!("[C16] format level: {} writer cases ({} in the deep set: {})", wcases.len(), wsmall.len(), wsmall.iter().map(|c| c.name.as_str()).collect::<Vec<_>>().join(" "));
    let wall: Vec<&format_writers::WCase> = wcases.iter().collect();
    if on("fmt_writer_uniform") {
        ctx.harness(Config::new("fmt_writer_uniform", bu), |ch| format_writers::writer_body(ch, &wall, &workers, &uniform));
    }
    if on("fmt_writer") {
        // documents whose default execution polls the sink more than 150 times (FASTA with 1-base lines:
        // 1800 polls) get bound 1 in both tiers
        let (short, long): (Vec<&format_writers::WCase>, Vec<&format_writers::WCase>) = wcases.iter().partition(|c| b <= 1 || format_writers::sink_polls(c) <= 150);
        ctx.harness(Config::new("fmt_writer", b), |ch| format_writers::writer_body(ch, &short, &workers, &choose));
        if !long.is_empty() {
            eprintln!("[C16] fmt_writer_long: {}", long.iter().map(|c| c.name.as_str()).collect::<Vec<_>>().join(" "));
            ctx.harness(Config::new("fmt_writer_long", 1), |ch| format_writers::writer_body(ch, &long, &workers, &choose));
        }
    }
    if on("fmt_writer_deep") {
        ctx.harness(Config::new("fmt_writer_deep", bd), |ch| format_writers::writer_body(ch, &wsmall, &workers, &choose));
    }

    // ---- documents larger than one BGZF block (headers / index sections > 64 KiB): uniform adversaries
    // only, plus a bound-1 Choose run on the tabix index whose names block crosses a block boundary ----
    let mut ldocs = large::large_docs();
    let lre: Vec<vnd::Doc> = ldocs
        .iter()
        .filter_map(|d| match d.format {
            // boundaries inside the header counts only (n_ref … l_nm / l_aux … n_ref is behind the names)
            Format::Tbi => large::reblocked_in_counts(d, 16, Some(36)),
            Format::Csi => large::reblocked_in_counts(d, 16, Some(44)),
            _ => None,
        })
        .collect();
    ldocs.extend(lre);
    let lcases: Vec<RCase> = ldocs
        .iter()
        .filter_map(|d| format_level::make_rcase(&ldocs, d))
        .filter_map(|c| {
            let indexed = matches!(c.format, Format::Bam | Format::VcfGz);
            c.restricted(&|s| match s {
                Script::Seq(0) => true,
                Script::Seq(1) => matches!(c.format, Format::Bam | Format::VcfGz | Format::Sam | Format::Vcf | Format::Crai),
                Script::Query(l, _) => indexed && *l == "three-regions",
                _ => false,
            })
        })
        .collect();
    eprintln!("[C16] format level: {} large reader cases: {}", lcases.len(), lcases.iter().map(|c| format!("{}({}B)", c.name, c.bytes.len())).collect::<Vec<_>>().join(" "));
    if on("fmt_reader_large_uniform") {
        ctx.harness(Config::new("fmt_reader_large_uniform", 0), |ch| format_level::reader_body(ch, &lcases.iter().collect::<Vec<_>>(), &workers, &uniform));
    }
    if on("fmt_reader_large") {
        let one: Vec<&RCase> = lcases.iter().filter(|c| c.name == "tbi-large-names").collect();
        ctx.harness(Config::new("fmt_reader_large", 1), |ch| format_level::reader_body(ch, &one, &workers, &choose));
    }
    let lw: Vec<format_writers::WCase> = ldocs
        .iter()
        .filter(|d| !d.name.contains("reblocked"))
        .filter_map(format_writers::make_wcase)
        .map(|mut c| {
            // one BGZF block per 500 records, not per 2
            c.flush_every = 500;
            c.recompute();
            c
        })
        .collect();
    if on("fmt_writer_large_uniform") {
        ctx.harness(Config::new("fmt_writer_large_uniform", 0), |ch| format_writers::writer_body(ch, &lw.iter().collect::<Vec<_>>(), &workers, &uniform));
    }
}
