//! C16 — async readers and writers behave exactly like their synchronous counterparts.

mod bgzf_level;
mod cut;
mod format_level;
mod format_writers;

use bgzf_level::{ROp::*, WOp, make_case, make_wscript};
use vmc::{Config, oracle::bgzf::Payload};
use vrt::{CostModel, poll::PollMode};

fn main() {
    vmc::run("C16", "model_checking", |ctx| {
        ctx.rule("every poll schedule (partial transfer / Pending at every poll of the underlying source or sink) and every blocking-task completion order within the deviation bound x worker counts x scripts; the synchronous reader/writer run on the same input is the specification; distinct = distinct (schedule, delivery, observation) logs");
        ctx.assume("tokio-util FramedRead/FramedWrite and futures TryBuffered/Buffer are executed, not explored internally");
        ctx.assume("spawn_blocking is modelled as a controlled thread whose completion wakes the JoinHandle's waker atomically");

        // ---- BGZF level ----
        let mut cases = Vec::new();
        cases.push(make_case(&[3, 5, 2], true, vec![ReadToEnd]));
        cases.push(make_case(&[3, 0, 4], true, vec![ReadToEnd]));
        cases.push(make_case(&[4, 2], false, vec![ReadToEnd]));
        cases.push(make_case(&[], true, vec![ReadToEnd]));
        cases.push(make_case(&[3, 5, 2], true, vec![ReadExact(2), ReadExact(4), ReadExact(4), Read(5)]));
        cases.push(make_case(&[3, 5, 2], true, vec![FillConsume(1), FillConsume(100), ReadExact(3), ReadToEnd]));
        cases.push(make_case(&[3, 5, 2], true, vec![ReadExact(2), Seek(1, 2), ReadToEnd]));
        cases.push(make_case(&[3, 5, 2], true, vec![ReadToEnd, Seek(0, 1), ReadExact(1), Seek(2, 0), ReadToEnd]));
        cases.push(make_case(&[3, 0, 4], true, vec![ReadExact(1), Seek(1, 0), ReadExact(2), ReadToEnd]));
        // seek to the end-of-stream position (file length) and to the EOF marker block
        cases.push(make_case(&[3, 5, 2], true, vec![ReadExact(2), Seek(4, 0), Read(4), Seek(1, 1), ReadExact(2)]));
        cases.push(make_case(&[3, 5], false, vec![ReadToEnd, Seek(2, 0), Read(4), Seek(0, 2), ReadToEnd]));
        cases.push(make_case(&[3, 5, 2], true, vec![ReadExact(2), Seek(3, 0), Read(4)]));
        let workers = [2usize, 1, 3];
        let choose = [PollMode::Choose];
        let uniform = [PollMode::OneByte, PollMode::PendingEvery, PollMode::Irregular, PollMode::Ready];
        let rb = ctx.by_tier(3, 4);
        ctx.harness(Config::new("bgzf_reader", rb), |ch| {
            bgzf_level::reader_body(ch, &cases, &workers, &choose, CostModel::Delay)
        });
        ctx.harness(Config::new("bgzf_reader_uniform", ctx.by_tier(1, 2)), |ch| {
            bgzf_level::reader_body(ch, &cases, &workers, &uniform, CostModel::Delay)
        });

        use WOp::*;
        let scripts = vec![
            make_wscript("3-flushes", vec![W(5), F, W(5), F, W(1)], Payload::Text),
            make_wscript("staging-full", vec![W(65496), W(5)], Payload::Zeros),
            make_wscript("one-block", vec![W(5)], Payload::Text),
            make_wscript("empty", vec![], Payload::Text),
            make_wscript("flush-only", vec![F], Payload::Text),
        ];
        let wb = ctx.by_tier(3, 4);
        ctx.harness(Config::new("bgzf_writer", wb), |ch| {
            bgzf_level::writer_body(ch, &scripts, &workers, &choose, CostModel::Preempt)
        });
        ctx.harness(Config::new("bgzf_writer_uniform", ctx.by_tier(1, 2)), |ch| {
            bgzf_level::writer_body(ch, &scripts, &workers, &uniform, CostModel::Preempt)
        });

        // ---- format level ----
        format_level_harnesses(ctx);
    });
}

fn format_level_harnesses(ctx: &mut vmc::Ctx) {
    use vnd::Format;
    let docs = vnd::corpus(ctx.thorough());
    let all: Vec<format_level::RCase> = docs.iter().filter(|d| !d.big).filter_map(|d| format_level::make_rcase(&docs, d)).collect();
    eprintln!("[C16] format level: {} reader cases", all.len());
    let workers = [1usize, 2];
    let uniform = [PollMode::OneByte, PollMode::PendingEvery, PollMode::Irregular];
    ctx.harness(Config::new("fmt_reader_uniform", 0), |ch| format_level::reader_body(ch, &all, &workers, &uniform));
    let choose = [PollMode::Choose];
    let b: u32 = std::env::var("C16_B").ok().and_then(|s| s.parse().ok()).unwrap_or(ctx.by_tier(1, 2));
    ctx.harness(Config::new("fmt_reader", b), |ch| format_level::reader_body(ch, &all, &workers, &choose));
    let wcases: Vec<format_writers::WCase> = docs.iter().filter(|d| !d.big).filter_map(format_writers::make_wcase).collect();
    eprintln!("[C16] format level: {} writer cases", wcases.len());
    ctx.harness(Config::new("fmt_writer_uniform", 0), |ch| format_writers::writer_body(ch, &wcases, &workers, &uniform));
    ctx.harness(Config::new("fmt_writer", b), |ch| format_writers::writer_body(ch, &wcases, &workers, &choose));
    let _ = Format::Bam;
}
