fn main() {
    println!("MACHINERY-ERROR property=C16 check not built yet");
    std::process::exit(2);
}
