//! A second source adversary: the document is delivered in windows that end exactly at a chosen set of
//! absolute offsets ("cuts"). Enumerating every cut set of size k is the complete space of k-split
//! deliveries, which `PollReader(Choose)` (1 byte / half / all) only samples.

use std::{
    io::{self, SeekFrom},
    pin::Pin,
    sync::{Arc, Mutex},
    task::{Context, Poll},
};

use tokio::io::{AsyncBufRead, AsyncRead, AsyncSeek, ReadBuf};

pub struct CutReader {
    data: Arc<Vec<u8>>,
    pos: usize,
    window_end: usize,
    cuts: Vec<usize>,
    /// Answer `Pending` (with an immediate self-wake) once before every delivery and every seek.
    pend: bool,
    last_pending: bool,
    seek_to: Option<usize>,
    /// Slow source: everything from the first cut on "arrives" only when a controlled helper thread has
    /// run; until then polls answer `Pending` (the waker is woken by that thread, not by the poll itself).
    /// Unlike a self-waking `Pending` this lets the blocking inflate tasks finish *while* the source is
    /// stalled in the middle of a block, so a block can be handed to the caller while the frame decoder
    /// sits on a half-read one.
    slow: Option<Slow>,
    /// What was delivered (0 = Pending); shared with the harness.
    pub log: Arc<Mutex<Vec<usize>>>,
}

struct Slow {
    arrived: Arc<std::sync::atomic::AtomicBool>,
    waker: Arc<Mutex<Option<std::task::Waker>>>,
    requested: bool,
}

impl CutReader {
    pub fn new(data: Arc<Vec<u8>>, mut cuts: Vec<usize>, pend: bool) -> Self {
        cuts.sort_unstable();
        Self { data, pos: 0, window_end: 0, cuts, pend, last_pending: false, seek_to: None, slow: None, log: Arc::new(Mutex::new(Vec::new())) }
    }

    /// The slow source described at the `slow` field (no self-waking `Pending`s).
    pub fn new_slow(data: Arc<Vec<u8>>, cuts: Vec<usize>) -> Self {
        let mut r = Self::new(data, cuts, false);
        r.slow = Some(Slow { arrived: Arc::new(std::sync::atomic::AtomicBool::new(false)), waker: Arc::new(Mutex::new(None)), requested: false });
        r
    }

    /// true: the bytes at `self.pos` have not arrived yet; the waker is registered with the delivery thread.
    fn stalled(&mut self, cx: &mut Context<'_>) -> bool {
        use std::sync::atomic::Ordering;
        let first = self.cuts.first().copied().unwrap_or(usize::MAX);
        let pos = self.pos;
        let Some(slow) = self.slow.as_mut() else { return false };
        if pos < first || slow.arrived.load(Ordering::SeqCst) {
            return false;
        }
        *slow.waker.lock().unwrap() = Some(cx.waker().clone());
        if !slow.requested {
            slow.requested = true;
            let (arrived, waker) = (slow.arrived.clone(), slow.waker.clone());
            // a controlled thread under vrt (a scheduling point like any other spawn)
            let _ = noodles_bgzf::verif::thread::spawn(move || {
                arrived.store(true, Ordering::SeqCst);
                let w = waker.lock().unwrap().take();
                if let Some(w) = w {
                    w.wake();
                }
            });
        }
        // the thread may have run inside the spawn's scheduling point
        if self.slow.as_ref().unwrap().arrived.load(Ordering::SeqCst) {
            return false;
        }
        self.log.lock().unwrap().push(0);
        true
    }

    fn next_end(&self) -> usize {
        let len = self.data.len();
        self.cuts.iter().copied().find(|&c| c > self.pos).unwrap_or(len).min(len)
    }

    /// true: answer Pending now.
    fn pend_now(&mut self, cx: &mut Context<'_>) -> bool {
        if self.pend && !self.last_pending {
            self.last_pending = true;
            self.log.lock().unwrap().push(0);
            cx.waker().wake_by_ref();
            true
        } else {
            self.last_pending = false;
            false
        }
    }
}

impl AsyncRead for CutReader {
    fn poll_read(mut self: Pin<&mut Self>, cx: &mut Context<'_>, buf: &mut ReadBuf<'_>) -> Poll<io::Result<()>> {
        let avail = self.next_end().saturating_sub(self.pos);
        let n = avail.min(buf.remaining());
        if n == 0 {
            return Poll::Ready(Ok(()));
        }
        if self.stalled(cx) || self.pend_now(cx) {
            return Poll::Pending;
        }
        let p = self.pos;
        buf.put_slice(&self.data[p..p + n]);
        self.pos += n;
        self.window_end = self.window_end.max(self.pos);
        self.log.lock().unwrap().push(n);
        Poll::Ready(Ok(()))
    }
}

impl AsyncBufRead for CutReader {
    fn poll_fill_buf(mut self: Pin<&mut Self>, cx: &mut Context<'_>) -> Poll<io::Result<&[u8]>> {
        if self.pos >= self.window_end && self.pos < self.data.len() {
            if self.stalled(cx) || self.pend_now(cx) {
                return Poll::Pending;
            }
            self.window_end = self.next_end();
            let n = self.window_end - self.pos;
            self.log.lock().unwrap().push(n);
        }
        let this = self.get_mut();
        let end = this.window_end.max(this.pos).min(this.data.len());
        Poll::Ready(Ok(&this.data[this.pos.min(end)..end]))
    }

    fn consume(mut self: Pin<&mut Self>, amt: usize) {
        self.pos = (self.pos + amt).min(self.window_end.max(self.pos));
    }
}

impl AsyncSeek for CutReader {
    fn start_seek(mut self: Pin<&mut Self>, position: SeekFrom) -> io::Result<()> {
        let new = match position {
            SeekFrom::Start(n) => n as i128,
            SeekFrom::End(d) => self.data.len() as i128 + d as i128,
            SeekFrom::Current(d) => self.pos as i128 + d as i128,
        };
        if new < 0 {
            return Err(io::Error::new(io::ErrorKind::InvalidInput, "seek before start"));
        }
        self.seek_to = Some(new as usize);
        Ok(())
    }

    fn poll_complete(mut self: Pin<&mut Self>, cx: &mut Context<'_>) -> Poll<io::Result<u64>> {
        if let Some(t) = self.seek_to {
            if self.pend_now(cx) {
                return Poll::Pending;
            }
            self.seek_to = None;
            self.pos = t;
            self.window_end = t;
        }
        Poll::Ready(Ok(self.pos as u64))
    }
}
