//! Presence-spanning record sequences: documents in which every ordered pair of a small set of record
//! shapes (full / minimal / no samples / no aux / no sequence / no qualities / long name …) occurs as two
//! consecutive records, so that a reader that reuses one record object (or one line / samples buffer) is
//! shown every "what follows unrelated buffer content" transition. Built with the synchronous writers under
//! the header of the carrier document; the synchronous reader on the same bytes is the specification.
//!
//! `prefill` pre-dirties a record object with the richest record of the document before the first read
//! (scripts `…(pre-dirtied)`).

use std::{cell::RefCell, io::Write as _, sync::Arc};

use noodles_bam as bam;
use noodles_bcf as bcf;
use noodles_bgzf as bgzf;
use noodles_fastq as fastq;
use noodles_gff as gff;
use noodles_sam::{self as sam, alignment::io::Write as _};
use noodles_vcf::{self as vcf, variant::io::Write as _};
use vnd::{Doc, Format};

/// Candidate documents, best first: the reader case takes the first one the sync reader (and indexer) accepts.
pub fn presence_docs(doc: &Doc) -> Vec<(String, Vec<u8>)> {
    let mut v = Vec::new();
    match doc.format {
        Format::Bam | Format::Sam | Format::SamGz => {
            if let Some(b) = alignment_doc(doc) {
                v.push(("presence-pairs".to_string(), b));
            }
        }
        Format::Bcf | Format::Vcf | Format::VcfGz => {
            for (label, with_no_samples) in [("presence-pairs", true), ("presence-pairs-all-with-samples", false)] {
                if let Some(b) = variant_doc(doc, with_no_samples) {
                    v.push((label.to_string(), b));
                }
            }
        }
        Format::Fastq => {
            for (label, with_empty) in [("presence-pairs", true), ("presence-pairs-no-empty-sequence", false)] {
                v.push((label.to_string(), fastq_doc(with_empty)));
            }
        }
        Format::Fasta => {
            for (label, with_empty) in [("presence-pairs", true), ("presence-pairs-no-empty-sequence", false)] {
                v.push((label.to_string(), fasta_doc(with_empty)));
            }
        }
        Format::Gff => v.push(("presence-pairs".to_string(), gff_doc())),
        Format::Crai => v.push(("presence-pairs".to_string(), crai_doc())),
        _ => {}
    }
    v
}

/// All ordered pairs (a, b) of `0..n`, flattened: a, b, a, b' …
fn pairs(n: usize) -> Vec<usize> {
    let mut v = Vec::new();
    for a in 0..n {
        for b in 0..n {
            v.push(a);
            v.push(b);
        }
    }
    v
}

fn sam_header_text(doc: &Doc) -> Option<(sam::Header, Vec<u8>)> {
    let header = match doc.format {
        Format::Bam => bam::io::Reader::new(&doc.bytes[..]).read_header().ok()?,
        Format::SamGz => sam::io::Reader::new(bgzf::io::Reader::new(&doc.bytes[..])).read_header().ok()?,
        _ => sam::io::Reader::new(&doc.bytes[..]).read_header().ok()?,
    };
    let mut w = sam::io::Writer::new(Vec::new());
    w.write_header(&header).ok()?;
    Some((header, w.into_inner()))
}

fn alignment_doc(doc: &Doc) -> Option<Vec<u8>> {
    let (header, mut text) = sam_header_text(doc)?;
    let refs: Vec<String> = header.reference_sequences().keys().map(|k| k.to_string()).collect();
    if refs.len() < 2 {
        return None;
    }
    let seq = pairs(6);
    let half = seq.len() / 2;
    for (i, shape) in seq.iter().enumerate() {
        let (r, p) = if i < half { (&refs[0], 1 + 5 * i) } else { (&refs[1], 1 + 5 * (i - half)) };
        let line = match shape {
            // placed unmapped read without a name, bases, qualities or aux
            0 => format!("*\t4\t{r}\t{p}\t0\t*\t*\t0\t0\t*\t*"),
            1 => format!(
                "full{i}\t99\t{r}\t{p}\t60\t3S4M1I2M\t=\t{}\t15\tACGTACGTAC\tABCDEFGHIJ\tRG:Z:rg0\tNM:i:1\tXA:A:c\tXB:B:c,-1,2\tXS:Z:hello world\tXF:f:1.5\tXL:B:S,1,65535",
                p + 5
            ),
            2 => format!("n{i}\t0\t{r}\t{p}\t30\t5M\t*\t0\t0\tACGTA\tIIIII"),
            3 => format!("s{i}\t0\t{r}\t{p}\t7\t*\t*\t0\t0\t*\t*\tXA:A:d\tXI:i:70000"),
            4 => format!("q{i}\t16\t{r}\t{p}\t9\t3M\t*\t0\t0\tACG\t*"),
            _ => format!("a-read-name-of-forty-characters-{i:07}z\t0\t{r}\t{p}\t255\t1M\t*\t0\t0\tA\tI"),
        };
        text.extend_from_slice(line.as_bytes());
        text.push(b'\n');
    }
    let mut r = sam::io::Reader::new(&text[..]);
    let header = r.read_header().ok()?;
    let recs = r.record_bufs(&header).collect::<std::io::Result<Vec<_>>>().ok()?;
    match doc.format {
        Format::Sam => {
            let mut w = sam::io::Writer::new(Vec::new());
            w.write_header(&header).ok()?;
            for rec in &recs {
                w.write_alignment_record(&header, rec).ok()?;
            }
            Some(w.into_inner())
        }
        Format::SamGz => {
            let mut w = sam::io::Writer::new(bgzf::io::Writer::new(Vec::new()));
            w.write_header(&header).ok()?;
            w.get_mut().flush().ok()?;
            for (i, rec) in recs.iter().enumerate() {
                w.write_alignment_record(&header, rec).ok()?;
                if i % 5 == 4 {
                    w.get_mut().flush().ok()?;
                }
            }
            w.into_inner().finish().ok()
        }
        _ => {
            let mut w = bam::io::Writer::new(Vec::new());
            w.write_header(&header).ok()?;
            w.get_mut().flush().ok()?;
            for (i, rec) in recs.iter().enumerate() {
                w.write_alignment_record(&header, rec).ok()?;
                if i % 5 == 4 {
                    w.get_mut().flush().ok()?;
                }
            }
            w.into_inner().finish().ok()
        }
    }
}

fn variant_doc(doc: &Doc, with_no_samples: bool) -> Option<Vec<u8>> {
    let header = match doc.format {
        Format::Bcf => bcf::io::Reader::new(&doc.bytes[..]).read_header().ok()?,
        Format::VcfGz => vcf::io::Reader::new(bgzf::io::Reader::new(&doc.bytes[..])).read_header().ok()?,
        _ => vcf::io::Reader::new(&doc.bytes[..]).read_header().ok()?,
    };
    let n_samples = header.sample_names().len();
    let contigs: Vec<String> = header.contigs().keys().map(|k| k.to_string()).collect();
    if contigs.len() < 2 {
        return None;
    }
    let mut w = vcf::io::Writer::new(Vec::new());
    w.write_header(&header).ok()?;
    let mut text = w.into_inner();
    let shapes: Vec<usize> = if with_no_samples { vec![0, 1, 2, 3, 4] } else { vec![0, 1, 3, 4] };
    let seq: Vec<usize> = pairs(shapes.len()).into_iter().map(|k| shapes[k]).collect();
    let half = seq.len() / 2;
    let samples = |format: &str, values: &[&str]| -> String {
        if n_samples == 0 {
            return String::new();
        }
        let mut s = format!("\t{format}");
        for k in 0..n_samples {
            s.push('\t');
            s.push_str(values[k % values.len()]);
        }
        s
    };
    for (i, shape) in seq.iter().enumerate() {
        let (c, p) = if i < half { (&contigs[0], 1 + 5 * i) } else { (&contigs[1], 1 + 5 * (i - half)) };
        let line = match shape {
            0 => format!("{c}\t{p}\t.\tA\t.\t.\t.\t.{}", samples("GT", &["./."])),
            1 => format!(
                "{c}\t{p}\trs{i};id{i}\tAC\tA,ACT\t30.5\tq10;s50\tDP=3;AF=0.25,0.75;DB;XS=hello;XC=x;XI=1,-2,3;XF=0.5,0.001{}",
                samples("GT:DP:GQ:HQ:XV:XT", &["0/1:10:40:1,2:0.5:foo", "1|2:.:35:3,4:1.5:bar"])
            ),
            // shape 2 loses its samples below
            2 => format!("{c}\t{p}\t.\tG\tT\t5\tPASS\tDP=1{}", samples("GT", &["0/0"])),
            3 => format!("{c}\t{p}\tx{i}\tC\tG\t.\t.\t.{}", samples("GT:DP", &["0/0:1", "1/1:2"])),
            _ => format!("{c}\t{p}\t.\tT\t<DEL>\t99\tPASS\tDB{}", samples("GT", &["0|1", "1|0"])),
        };
        text.extend_from_slice(line.as_bytes());
        text.push(b'\n');
    }
    let mut r = vcf::io::Reader::new(&text[..]);
    let header = r.read_header().ok()?;
    let mut recs = r.record_bufs(&header).collect::<std::io::Result<Vec<_>>>().ok()?;
    for (rec, shape) in recs.iter_mut().zip(&seq) {
        if *shape == 2 {
            // a record without FORMAT / per-sample data under a header that has samples
            *rec.samples_mut() = Default::default();
        }
    }
    match doc.format {
        Format::Vcf => {
            let mut w = vcf::io::Writer::new(Vec::new());
            w.write_header(&header).ok()?;
            for rec in &recs {
                w.write_variant_record(&header, rec).ok()?;
            }
            Some(w.into_inner())
        }
        Format::VcfGz => {
            let mut w = vcf::io::Writer::new(bgzf::io::Writer::new(Vec::new()));
            w.write_header(&header).ok()?;
            w.get_mut().flush().ok()?;
            for (i, rec) in recs.iter().enumerate() {
                w.write_variant_record(&header, rec).ok()?;
                if i % 5 == 4 {
                    w.get_mut().flush().ok()?;
                }
            }
            w.into_inner().finish().ok()
        }
        _ => {
            let mut w = bcf::io::Writer::new(Vec::new());
            w.write_header(&header).ok()?;
            w.get_mut().flush().ok()?;
            for (i, rec) in recs.iter().enumerate() {
                w.write_variant_record(&header, rec).ok()?;
                if i % 5 == 4 {
                    w.get_mut().flush().ok()?;
                }
            }
            w.into_inner().finish().ok()
        }
    }
}

fn fastq_doc(with_empty: bool) -> Vec<u8> {
    let shapes: Vec<usize> = if with_empty { vec![0, 1, 2, 3] } else { vec![0, 1, 3] };
    let mut out = Vec::new();
    for (i, k) in pairs(shapes.len()).into_iter().enumerate() {
        let s = match shapes[k] {
            0 => format!("@long{i}/1 a description with spaces LN:20\nACGTACGTACGTACGTACGT\n+\nABCDEFGHIJKLMNOPQRST\n"),
            1 => format!("@s{i}\nA\n+\nI\n"),
            2 => format!("@e{i} empty\n\n+\n\n"),
            _ => format!("@d{i}\td\nACGTN\n+d{i}\n!#5I~\n"),
        };
        out.extend_from_slice(s.as_bytes());
    }
    out
}

fn fasta_doc(with_empty: bool) -> Vec<u8> {
    let shapes: Vec<usize> = if with_empty { vec![0, 1, 2, 3] } else { vec![0, 1, 3] };
    let mut out = Vec::new();
    for (i, k) in pairs(shapes.len()).into_iter().enumerate() {
        let s = match shapes[k] {
            0 => format!(">long{i} a description; with|punct=1\n{}\n{}\nACGTACGTAC\n", "ACGT".repeat(15), "TTGGCCAA".repeat(7) + "TTGG"),
            1 => format!(">s{i}\nA\n"),
            2 => format!(">e{i} no sequence\n"),
            _ => format!(">d{i} d\nACGTN\nNN\n"),
        };
        out.extend_from_slice(s.as_bytes());
    }
    out
}

fn gff_doc() -> Vec<u8> {
    let mut out = b"##gff-version 3\n".to_vec();
    for (i, k) in pairs(5).into_iter().enumerate() {
        let p = 1 + 3 * i;
        let s = match k {
            0 => format!("sq0\tvnd\tgene\t{p}\t{}\t0.5\t+\t0\tID=gene{i};Name=g%3B{i};Note=a%2Cb,c;Dbxref=X:1,Y:2;Alias=%25 x\n", p + 50),
            1 => format!("sq1\t.\tregion\t{p}\t{}\t.\t.\t.\t.\n", p + 1),
            2 => format!("##sequence-region sq{i} 1 400\n"),
            3 => format!("#comment {i}\n"),
            _ => format!("sq0\tsrc\tCDS\t{p}\t{}\t12\t-\t2\tID=c{i}\n", p + 9),
        };
        out.extend_from_slice(s.as_bytes());
    }
    out
}

fn crai_doc() -> Vec<u8> {
    let mut text = String::new();
    for (i, k) in pairs(3).into_iter().enumerate() {
        match k {
            0 => text.push_str(&format!("0\t{}\t20\t{}\t50\t300\n", 10 + i, 100 + 1000 * i)),
            1 => text.push_str(&format!("-1\t0\t0\t{}\t60\t200\n", 100 + 1000 * i)),
            _ => text.push_str(&format!("2\t{}\t123456\t{}\t1234567\t7654321\n", 1 + i, 100 + 1000 * i)),
        }
    }
    crate::format_level::foreign::gzip(text.as_bytes(), 6)
}

// ------------------------------------------------------------------------------------------ pre-dirtying

thread_local! {
    /// (format, bytes, index of the richest record) of the document being driven on this thread.
    static DIRT: RefCell<Option<(Format, Arc<Vec<u8>>, usize)>> = const { RefCell::new(None) };
}

pub fn set_dirt(d: Option<(Format, Arc<Vec<u8>>, usize)>) {
    DIRT.with(|x| *x.borrow_mut() = d);
}

fn dirt() -> Option<(Format, Arc<Vec<u8>>, usize)> {
    DIRT.with(|x| x.borrow().clone())
}

/// A record object that can be filled with the richest record of the current document (read with the
/// synchronous reader) before the reader under test gets it.
pub trait Prefill {
    fn prefill(&mut self);
}

macro_rules! nth {
    ($n:expr, $read:expr) => {{
        for _ in 0..=$n {
            match $read {
                Ok(0) | Err(_) => break,
                Ok(_) => {}
            }
        }
    }};
}

impl Prefill for bam::Record {
    fn prefill(&mut self) {
        if let Some((Format::Bam, b, n)) = dirt() {
            let mut r = bam::io::Reader::new(&b[..]);
            if r.read_header().is_ok() {
                nth!(n, r.read_record(self));
            }
        }
    }
}

impl Prefill for sam::Record {
    fn prefill(&mut self) {
        match dirt() {
            Some((Format::Sam, b, n)) => {
                let mut r = sam::io::Reader::new(&b[..]);
                if r.read_header().is_ok() {
                    nth!(n, r.read_record(self));
                }
            }
            Some((Format::SamGz, b, n)) => {
                let mut r = sam::io::Reader::new(bgzf::io::Reader::new(&b[..]));
                if r.read_header().is_ok() {
                    nth!(n, r.read_record(self));
                }
            }
            _ => {}
        }
    }
}

impl Prefill for sam::alignment::RecordBuf {
    fn prefill(&mut self) {
        match dirt() {
            Some((Format::Bam, b, n)) => {
                let mut r = bam::io::Reader::new(&b[..]);
                if let Ok(h) = r.read_header() {
                    nth!(n, r.read_record_buf(&h, self));
                }
            }
            Some((Format::Sam, b, n)) => {
                let mut r = sam::io::Reader::new(&b[..]);
                if let Ok(h) = r.read_header() {
                    nth!(n, r.read_record_buf(&h, self));
                }
            }
            Some((Format::SamGz, b, n)) => {
                let mut r = sam::io::Reader::new(bgzf::io::Reader::new(&b[..]));
                if let Ok(h) = r.read_header() {
                    nth!(n, r.read_record_buf(&h, self));
                }
            }
            _ => {}
        }
    }
}

impl Prefill for vcf::Record {
    fn prefill(&mut self) {
        match dirt() {
            Some((Format::Vcf, b, n)) => {
                let mut r = vcf::io::Reader::new(&b[..]);
                if r.read_header().is_ok() {
                    nth!(n, r.read_record(self));
                }
            }
            Some((Format::VcfGz, b, n)) => {
                let mut r = vcf::io::Reader::new(bgzf::io::Reader::new(&b[..]));
                if r.read_header().is_ok() {
                    nth!(n, r.read_record(self));
                }
            }
            _ => {}
        }
    }
}

impl Prefill for vcf::variant::RecordBuf {
    fn prefill(&mut self) {
        match dirt() {
            Some((Format::Vcf, b, n)) => {
                let mut r = vcf::io::Reader::new(&b[..]);
                if let Ok(h) = r.read_header() {
                    nth!(n, r.read_record_buf(&h, self));
                }
            }
            Some((Format::VcfGz, b, n)) => {
                let mut r = vcf::io::Reader::new(bgzf::io::Reader::new(&b[..]));
                if let Ok(h) = r.read_header() {
                    nth!(n, r.read_record_buf(&h, self));
                }
            }
            _ => {}
        }
    }
}

impl Prefill for bcf::Record {
    fn prefill(&mut self) {
        if let Some((Format::Bcf, b, n)) = dirt() {
            let mut r = bcf::io::Reader::new(&b[..]);
            if r.read_header().is_ok() {
                nth!(n, r.read_record(self));
            }
        }
    }
}

impl Prefill for fastq::Record {
    fn prefill(&mut self) {
        if let Some((Format::Fastq, b, n)) = dirt() {
            let mut r = fastq::io::Reader::new(&b[..]);
            nth!(n, r.read_record(self));
        }
    }
}

impl Prefill for gff::Line {
    fn prefill(&mut self) {
        if let Some((Format::Gff, b, n)) = dirt() {
            let mut r = gff::io::Reader::new(&b[..]);
            nth!(n, r.read_line(self));
        }
    }
}
