//! S1 (not a C16 violation: sync and async agree): crai read_index() does not clear its line buffer
//! between records, so every index with two or more records is rejected; read_record() works.
use noodles_cram::crai;
use noodles_core::Position;
fn main() -> Result<(), Box<dyn std::error::Error>> {
    let index = vec![
        crai::Record::new(Some(0), Position::new(10), 20, 100, 50, 300),
        crai::Record::new(Some(1), Position::new(5), 7, 500, 60, 200),
    ];
    for n in 1..=2 {
        let mut w = crai::io::Writer::new(Vec::new());
        w.write_index(&index[..n])?;
        let bytes = w.finish()?;
        let sync = crai::io::Reader::new(&bytes[..]).read_index();
        let rt = tokio::runtime::Builder::new_current_thread().build()?;
        let asy = rt.block_on(async { crai::r#async::io::Reader::new(&bytes[..]).read_index().await });
        let mut r = crai::io::Reader::new(&bytes[..]);
        let mut rec = crai::Record::default();
        let mut k = 0;
        while r.read_record(&mut rec)? != 0 { k += 1; }
        println!("{n} record(s): sync read_index = {:?}; async read_index = {:?}; read_record loop = {k} records",
            sync.map(|v| v.len()).map_err(|e| e.to_string()), asy.map(|v| v.len()).map_err(|e| e.to_string()));
    }
    Ok(())
}
