//! The async CSI writer omits n_ref: its output is 4 payload bytes shorter than the sync writer's and the
//! sync reader cannot read it back.
use std::io::Read;
use noodles_bgzf as bgzf;
use noodles_csi as csi;
fn main() -> Result<(), Box<dyn std::error::Error>> {
    let index = csi::Index::default();
    let mut w = csi::io::Writer::new(Vec::new());
    w.write_index(&index)?;
    let sync_bytes = w.into_inner().finish()?;
    let rt = tokio::runtime::Builder::new_current_thread().build()?;
    let async_bytes = rt.block_on(async {
        let mut w = csi::r#async::io::Writer::new(Vec::new());
        w.write_index(&index).await?;
        w.shutdown().await?;
        Ok::<_, std::io::Error>(w.into_inner().into_inner())
    })?;
    for (who, b) in [("sync ", &sync_bytes), ("async", &async_bytes)] {
        let mut payload = Vec::new();
        bgzf::io::Reader::new(&b[..]).read_to_end(&mut payload)?;
        let back = csi::io::Reader::new(&b[..]).read_index();
        println!("{who} writer: payload {} bytes {:02x?} -> sync read_index: {}", payload.len(), payload, match back { Ok(_) => "Ok".to_string(), Err(e) => format!("Err({:?}: {e})", e.kind()) });
    }
    Ok(())
}
