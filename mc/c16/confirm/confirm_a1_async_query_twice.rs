//! The same region queried twice on one async BAM reader: the second query yields nothing.
//! Real tokio current-thread runtime, no verification hooks.
use std::io::Cursor;
use futures::TryStreamExt;
use noodles_bam as bam;
use noodles_core::Position;
use noodles_csi::{self as csi, binning_index::{Indexer, index::reference_sequence::{bin::Chunk, index::LinearIndex}}};
use noodles_sam::{self as sam, alignment::{io::Write as _, RecordBuf, record::{Flags, cigar::{Op, op::Kind}}, record_buf::{Cigar, Sequence, QualityScores}}, header::record::value::{Map, map::ReferenceSequence}};

fn main() -> Result<(), Box<dyn std::error::Error>> {
    let header = sam::Header::builder()
        .add_reference_sequence("sq0", Map::<ReferenceSequence>::new(std::num::NonZero::new(400).unwrap()))
        .build();
    let rec = |name: &str, pos: usize| RecordBuf::builder()
        .set_name(name).set_flags(Flags::empty()).set_reference_sequence_id(0)
        .set_alignment_start(Position::new(pos).unwrap())
        .set_cigar(Cigar::from(vec![Op::new(Kind::Match, 4)]))
        .set_sequence(Sequence::from(b"ACGT".to_vec())).set_quality_scores(QualityScores::from(vec![30; 4])).build();
    let records = [rec("r0", 3), rec("r1", 17)];
    let mut w = bam::io::Writer::new(Vec::new());
    w.write_header(&header)?;
    for r in &records { w.write_alignment_record(&header, r)?; }
    w.try_finish()?;
    let bytes = w.get_ref().get_ref().clone();

    // index with the sync reader
    let mut r = bam::io::Reader::new(&bytes[..]);
    r.read_header()?;
    let mut ix = Indexer::<LinearIndex>::default();
    let mut start = r.get_ref().virtual_position();
    let mut record = bam::Record::default();
    while r.read_record(&mut record)? != 0 {
        let end = r.get_ref().virtual_position();
        let ctx = Some((0, record.alignment_start().transpose()?.unwrap(), sam::alignment::Record::alignment_end(&record).transpose()?.unwrap(), true));
        ix.add_record(ctx, Chunk::new(start, end))?;
        start = end;
    }
    let index: csi::binning_index::Index<LinearIndex> = ix.build(1);
    let region = "sq0".parse()?;

    let mut sr = bam::io::Reader::new(Cursor::new(bytes.clone()));
    let h = sr.read_header()?;
    for i in 0..2 {
        let n = sr.query(&h, &index, &region)?.records().count();
        println!("sync  query #{i} of sq0: {n} records");
    }
    let rt = tokio::runtime::Builder::new_current_thread().build()?;
    rt.block_on(async {
        let mut ar = bam::r#async::io::Reader::new(Cursor::new(bytes.clone()));
        let h = ar.read_header().await?;
        for i in 0..2 {
            let v: Vec<_> = ar.query(&h, &index, &region)?.records().try_collect().await?;
            println!("async query #{i} of sq0: {} records", v.len());
        }
        Ok::<_, std::io::Error>(())
    })?;
    Ok(())
}
