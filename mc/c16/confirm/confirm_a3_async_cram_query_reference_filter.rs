//! A3: the async CRAM Query filters by interval only; the sync one (since 7b960b4) also by reference
//! sequence. A query on sq0 over a multi-reference container yields the sq1 record in async only.
use std::io::{Cursor, Write as _};
use futures::TryStreamExt;
use noodles_core::Position;
use noodles_cram as cram;
use noodles_fasta::{self as fasta, record::{Definition, Sequence as FaSeq}};
use noodles_sam::{self as sam, alignment::{io::Write as _, RecordBuf, record::{Flags, MappingQuality, cigar::{Op, op::Kind}}, record_buf::{Cigar, Sequence, QualityScores}}, header::record::value::{Map, map::ReferenceSequence}};

fn main() -> Result<(), Box<dyn std::error::Error>> {
    let repo = fasta::Repository::new(vec![
        fasta::Record::new(Definition::new("sq0", None), FaSeq::from(vec![b'A'; 100])),
        fasta::Record::new(Definition::new("sq1", None), FaSeq::from(vec![b'C'; 100])),
    ]);
    let len = std::num::NonZero::new(100).unwrap();
    let header = sam::Header::builder()
        .add_reference_sequence("sq0", Map::<ReferenceSequence>::new(len))
        .add_reference_sequence("sq1", Map::<ReferenceSequence>::new(len))
        .build();
    let rec = |name: &str, rid: usize| RecordBuf::builder()
        .set_name(name).set_flags(Flags::empty()).set_reference_sequence_id(rid)
        .set_alignment_start(Position::new(5).unwrap()).set_mapping_quality(MappingQuality::new(30).unwrap())
        .set_cigar(Cigar::from(vec![Op::new(Kind::Match, 4)]))
        .set_sequence(Sequence::from(b"ACGT".to_vec())).set_quality_scores(QualityScores::from(vec![30; 4])).build();
    let mut w = cram::io::writer::Builder::default().set_reference_sequence_repository(repo.clone()).build_from_writer(Vec::new());
    w.write_header(&header)?;
    w.write_alignment_record(&header, &rec("on-sq0", 0))?;
    w.write_alignment_record(&header, &rec("on-sq1", 1))?;
    w.try_finish(&header)?;
    let bytes = w.get_ref().clone();
    let path = std::env::temp_dir().join("c16-a3.cram");
    std::fs::File::create(&path)?.write_all(&bytes)?;
    let index = cram::fs::index(&path)?;
    let _ = std::fs::remove_file(&path);
    println!("crai: {index:?}");
    let region = "sq0".parse()?;

    let mut sr = cram::io::reader::Builder::default().set_reference_sequence_repository(repo.clone()).build_from_reader(Cursor::new(bytes.clone()));
    let h = sr.read_header()?;
    let names: Vec<String> = sr.query(&h, &index, &region)?.records().map(|r| r.map(|r| r.name().unwrap().to_string())).collect::<Result<_, _>>()?;
    println!("sync  query sq0: {names:?}");

    let rt = tokio::runtime::Builder::new_current_thread().build()?;
    rt.block_on(async {
        let mut ar = cram::r#async::io::reader::Builder::default().set_reference_sequence_repository(repo.clone()).build_from_reader(Cursor::new(bytes.clone()));
        let h = ar.read_header().await?;
        let v: Vec<RecordBuf> = ar.query(&h, &index, &region)?.records().try_collect().await?;
        println!("async query sq0: {:?}", v.iter().map(|r| r.name().unwrap().to_string()).collect::<Vec<_>>());
        Ok::<_, std::io::Error>(())
    })?;
    Ok(())
}
