//! D23: async FASTA read_sequence keeps the CR of a CRLF pair that is split across two fill_buf windows.
//! tokio runtime free: the future is polled by hand with a no-op waker.
use std::{future::Future, io, pin::{Pin, pin}, task::{Context, Poll, Waker}};
use noodles_fasta as fasta;
use tokio::io::{AsyncBufRead, AsyncRead, ReadBuf};

/// Delivers the given chunks as successive fill_buf windows.
struct Chunks { chunks: Vec<&'static [u8]>, i: usize, off: usize }
impl AsyncRead for Chunks {
    fn poll_read(self: Pin<&mut Self>, _: &mut Context<'_>, _: &mut ReadBuf<'_>) -> Poll<io::Result<()>> { unimplemented!() }
}
impl AsyncBufRead for Chunks {
    fn poll_fill_buf(self: Pin<&mut Self>, _: &mut Context<'_>) -> Poll<io::Result<&[u8]>> {
        let this = self.get_mut();
        while this.i < this.chunks.len() && this.off == this.chunks[this.i].len() { this.i += 1; this.off = 0; }
        Poll::Ready(Ok(if this.i < this.chunks.len() { &this.chunks[this.i][this.off..] } else { &[] }))
    }
    fn consume(mut self: Pin<&mut Self>, amt: usize) { self.off += amt; }
}
fn run<F: Future>(f: F) -> F::Output {
    let mut f = pin!(f);
    let mut cx = Context::from_waker(Waker::noop());
    loop { if let Poll::Ready(v) = f.as_mut().poll(&mut cx) { return v; } }
}
fn main() {
    let whole: &[u8] = b">s\nAC\r\nGT\r\n";
    // sync reader, whole input
    let mut r = fasta::io::Reader::new(whole);
    let mut d = fasta::record::Definition::default();
    r.read_definition(&mut d).unwrap();
    let mut sync_seq = Vec::new();
    r.read_sequence(&mut sync_seq).unwrap();
    for chunks in [vec![whole], vec![&b">s\nAC\r"[..], &b"\nGT\r\n"[..]]] {
        let seq = run(async {
            let mut r = fasta::r#async::io::Reader::new(Chunks { chunks: chunks.clone(), i: 0, off: 0 });
            let mut d = fasta::record::Definition::default();
            r.read_definition(&mut d).await.unwrap();
            let mut seq = Vec::new();
            r.read_sequence(&mut seq).await.unwrap();
            seq
        });
        println!("windows={:?}\n  sync  = {:?}\n  async = {:?}  {}", chunks.iter().map(|c| String::from_utf8_lossy(c).into_owned()).collect::<Vec<_>>(),
            String::from_utf8_lossy(&sync_seq), String::from_utf8_lossy(&seq), if seq == sync_seq { "equal" } else { "DIFFERENT" });
    }
}
