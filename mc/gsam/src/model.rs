//! Spec-level model of SAM/BAM alignment records and headers (plain data, no noodles types).
//!
//! A `GRec` is both the generated input and the canonical *view* of anything noodles hands back
//! (eager `RecordBuf`, lazy `bam::Record`/`sam::Record`, raw BAM bytes parsed by `rawbam`), so every
//! comparison is done on this type by code written here.

use std::fmt::Write as _;

/// CIGAR op kind codes as in SAMv1 §4.2 (`MIDNSHP=X` → 0..8).
pub const KINDS: &[u8; 9] = b"MIDNSHP=X";

pub fn consumes_read(kind: u8) -> bool {
    matches!(kind, 0 | 1 | 4 | 7 | 8)
}

pub fn consumes_ref(kind: u8) -> bool {
    matches!(kind, 0 | 2 | 3 | 7 | 8)
}

/// A typed auxiliary value. Floats are kept as bit patterns so that comparison is exact.
#[derive(Clone, Debug, PartialEq, Eq, Hash)]
pub enum GVal {
    A(u8),
    I8(i8),
    U8(u8),
    I16(i16),
    U16(u16),
    I32(i32),
    U32(u32),
    F(u32),
    Z(Vec<u8>),
    H(Vec<u8>),
    BI8(Vec<i8>),
    BU8(Vec<u8>),
    BI16(Vec<i16>),
    BU16(Vec<u16>),
    BI32(Vec<i32>),
    BU32(Vec<u32>),
    BF(Vec<u32>),
    /// An integer whose storage width is not carried (SAM text `i`): numeric value only.
    Int(i64),
}

impl GVal {
    pub fn f(x: f32) -> Self {
        GVal::F(x.to_bits())
    }
    pub fn bf(xs: &[f32]) -> Self {
        GVal::BF(xs.iter().map(|x| x.to_bits()).collect())
    }
    pub fn as_int(&self) -> Option<i64> {
        Some(match self {
            GVal::I8(n) => *n as i64,
            GVal::U8(n) => *n as i64,
            GVal::I16(n) => *n as i64,
            GVal::U16(n) => *n as i64,
            GVal::I32(n) => *n as i64,
            GVal::U32(n) => *n as i64,
            GVal::Int(n) => *n,
            _ => return None,
        })
    }
    /// BAM type letter (`B` arrays as `B` + subtype).
    pub fn type_code(&self) -> &'static str {
        match self {
            GVal::A(_) => "A",
            GVal::I8(_) => "c",
            GVal::U8(_) => "C",
            GVal::I16(_) => "s",
            GVal::U16(_) => "S",
            GVal::I32(_) => "i",
            GVal::U32(_) => "I",
            GVal::F(_) => "f",
            GVal::Z(_) => "Z",
            GVal::H(_) => "H",
            GVal::BI8(_) => "Bc",
            GVal::BU8(_) => "BC",
            GVal::BI16(_) => "Bs",
            GVal::BU16(_) => "BS",
            GVal::BI32(_) => "Bi",
            GVal::BU32(_) => "BI",
            GVal::BF(_) => "Bf",
            GVal::Int(_) => "int",
        }
    }
    pub fn has_nonfinite(&self) -> bool {
        match self {
            GVal::F(b) => !f32::from_bits(*b).is_finite(),
            GVal::BF(v) => v.iter().any(|b| !f32::from_bits(*b).is_finite()),
            _ => false,
        }
    }
    pub fn has_nan(&self) -> bool {
        match self {
            GVal::F(b) => f32::from_bits(*b).is_nan(),
            GVal::BF(v) => v.iter().any(|b| f32::from_bits(*b).is_nan()),
            _ => false,
        }
    }
    /// Rust-ish rendering used in decoded counterexamples.
    pub fn render(&self) -> String {
        fn list<T: std::fmt::Display>(v: &[T]) -> String {
            let mut s = String::from("[");
            for (i, x) in v.iter().enumerate() {
                if i > 0 {
                    s.push(',');
                }
                if i == 6 && v.len() > 8 {
                    let _ = write!(s, "…(+{})", v.len() - 6);
                    break;
                }
                let _ = write!(s, "{x}");
            }
            s.push(']');
            s
        }
        match self {
            GVal::A(c) => format!("A:{}", esc(&[*c])),
            GVal::I8(n) => format!("c:{n}"),
            GVal::U8(n) => format!("C:{n}"),
            GVal::I16(n) => format!("s:{n}"),
            GVal::U16(n) => format!("S:{n}"),
            GVal::I32(n) => format!("i:{n}"),
            GVal::U32(n) => format!("I:{n}"),
            GVal::F(b) => format!("f:{:?}(0x{b:08x})", f32::from_bits(*b)),
            GVal::Z(s) => format!("Z:\"{}\"", esc(s)),
            GVal::H(s) => format!("H:\"{}\"", esc(s)),
            GVal::BI8(v) => format!("B:c{}", list(v)),
            GVal::BU8(v) => format!("B:C{}", list(v)),
            GVal::BI16(v) => format!("B:s{}", list(v)),
            GVal::BU16(v) => format!("B:S{}", list(v)),
            GVal::BI32(v) => format!("B:i{}", list(v)),
            GVal::BU32(v) => format!("B:I{}", list(v)),
            GVal::BF(v) => {
                let f: Vec<String> = v.iter().map(|b| format!("{:?}", f32::from_bits(*b))).collect();
                format!("B:f{}", list(&f))
            }
            GVal::Int(n) => format!("int:{n}"),
        }
    }
}

pub fn esc(b: &[u8]) -> String {
    let mut s = String::new();
    let shown = if b.len() > 40 { &b[..24] } else { b };
    for &c in shown {
        match c {
            b'"' => s.push_str("\\\""),
            b'\\' => s.push_str("\\\\"),
            0x20..=0x7e => s.push(c as char),
            b'\t' => s.push_str("\\t"),
            _ => {
                let _ = write!(s, "\\x{c:02x}");
            }
        }
    }
    if b.len() > 40 {
        let _ = write!(s, "…({} bytes)", b.len());
    }
    s
}

/// One alignment record of the SAM data model. Coordinates are 1-based; `mapq == 255` is "missing".
#[derive(Clone, Debug, PartialEq, Eq, Hash, Default)]
pub struct GRec {
    pub name: Option<Vec<u8>>,
    pub flags: u16,
    pub rid: Option<usize>,
    pub pos: Option<u64>,
    pub mapq: u8,
    pub cigar: Vec<(u8, u64)>,
    pub mrid: Option<usize>,
    pub mpos: Option<u64>,
    pub tlen: i32,
    pub seq: Vec<u8>,
    pub qual: Vec<u8>,
    pub aux: Vec<([u8; 2], GVal)>,
}

impl GRec {
    pub fn unmapped() -> Self {
        GRec { flags: 4, mapq: 255, ..Default::default() }
    }
    pub fn read_len(&self) -> u64 {
        self.cigar.iter().filter(|(k, _)| consumes_read(*k)).map(|(_, l)| *l).sum()
    }
    pub fn ref_span(&self) -> u64 {
        self.cigar.iter().filter(|(k, _)| consumes_ref(*k)).map(|(_, l)| *l).sum()
    }
    /// 1-based inclusive end as SAMv1 defines it (a record without reference span ends where it starts).
    pub fn end(&self) -> Option<u64> {
        self.pos.map(|p| match self.ref_span() {
            0 => p,
            s => p + s - 1,
        })
    }
    pub fn cigar_string(&self) -> String {
        if self.cigar.is_empty() {
            return "*".into();
        }
        let mut s = String::new();
        for (k, l) in &self.cigar {
            let _ = write!(s, "{l}{}", KINDS[*k as usize] as char);
        }
        s
    }
    /// Compact human-readable form (long CIGARs / sequences are abbreviated).
    pub fn render(&self) -> String {
        let mut s = String::new();
        let _ = write!(
            s,
            "name={} flags=0x{:x} rid={:?} pos={:?} mapq={} cigar={} mrid={:?} mpos={:?} tlen={} seq={} qual={}",
            match &self.name {
                None => "*".to_string(),
                Some(n) => format!("\"{}\"", esc(n)),
            },
            self.flags,
            self.rid,
            self.pos,
            self.mapq,
            render_cigar(&self.cigar),
            self.mrid,
            self.mpos,
            self.tlen,
            render_seq(&self.seq),
            render_qual(&self.qual),
        );
        s.push_str(" aux=[");
        for (i, (t, v)) in self.aux.iter().enumerate() {
            if i > 0 {
                s.push(' ');
            }
            let _ = write!(s, "{}:{}", esc(t), v.render());
        }
        s.push(']');
        s
    }
}

pub fn render_cigar(c: &[(u8, u64)]) -> String {
    if c.is_empty() {
        return "*".into();
    }
    if c.len() <= 12 {
        let mut s = String::new();
        for (k, l) in c {
            let _ = write!(s, "{l}{}", KINDS.get(*k as usize).copied().unwrap_or(b'?') as char);
        }
        return s;
    }
    let mut s = String::new();
    for (k, l) in &c[..4] {
        let _ = write!(s, "{l}{}", KINDS.get(*k as usize).copied().unwrap_or(b'?') as char);
    }
    let _ = write!(s, "…({} ops)", c.len());
    s
}

pub fn render_seq(q: &[u8]) -> String {
    if q.is_empty() {
        "*".into()
    } else if q.len() <= 24 {
        format!("\"{}\"", esc(q))
    } else {
        format!("\"{}\"…({} bases)", esc(&q[..16]), q.len())
    }
}

pub fn render_qual(q: &[u8]) -> String {
    if q.is_empty() {
        "*".into()
    } else if q.len() <= 12 {
        format!("{q:?}")
    } else {
        format!("{:?}…({} scores)", &q[..8], q.len())
    }
}

/// The first field in which two records differ: (field, left, right).
pub fn diff(a: &GRec, b: &GRec) -> Option<(String, String, String)> {
    macro_rules! f {
        ($name:expr, $x:expr, $y:expr, $r:expr) => {
            if $x != $y {
                return Some(($name.to_string(), $r($x), $r($y)));
            }
        };
    }
    f!("name", &a.name, &b.name, |n: &Option<Vec<u8>>| match n {
        None => "*".to_string(),
        Some(n) => format!("\"{}\"", esc(n)),
    });
    f!("flags", &a.flags, &b.flags, |x: &u16| format!("0x{x:x}"));
    f!("rid", &a.rid, &b.rid, |x: &Option<usize>| format!("{x:?}"));
    f!("pos", &a.pos, &b.pos, |x: &Option<u64>| format!("{x:?}"));
    f!("mapq", &a.mapq, &b.mapq, |x: &u8| format!("{x}"));
    if a.cigar != b.cigar {
        let i = a.cigar.iter().zip(&b.cigar).position(|(x, y)| x != y).unwrap_or(a.cigar.len().min(b.cigar.len()));
        return Some((
            "cigar".into(),
            format!("{} (first difference at op {i})", render_cigar(&a.cigar)),
            render_cigar(&b.cigar),
        ));
    }
    f!("mrid", &a.mrid, &b.mrid, |x: &Option<usize>| format!("{x:?}"));
    f!("mpos", &a.mpos, &b.mpos, |x: &Option<u64>| format!("{x:?}"));
    f!("tlen", &a.tlen, &b.tlen, |x: &i32| format!("{x}"));
    if a.seq != b.seq {
        let i = a.seq.iter().zip(&b.seq).position(|(x, y)| x != y).unwrap_or(a.seq.len().min(b.seq.len()));
        return Some(("seq".into(), format!("{} (first difference at base {i})", render_seq(&a.seq)), render_seq(&b.seq)));
    }
    if a.qual != b.qual {
        return Some(("qual".into(), render_qual(&a.qual), render_qual(&b.qual)));
    }
    if a.aux != b.aux {
        let ra = |x: &[([u8; 2], GVal)]| {
            let v: Vec<String> = x.iter().map(|(t, v)| format!("{}:{}", esc(t), v.render())).collect();
            format!("[{}]", v.join(" "))
        };
        // classify: same tags in the same order?
        let ta: Vec<_> = a.aux.iter().map(|x| x.0).collect();
        let tb: Vec<_> = b.aux.iter().map(|x| x.0).collect();
        let what = if ta != tb {
            "aux-tags".to_string()
        } else {
            let i = a.aux.iter().zip(&b.aux).position(|(x, y)| x != y).unwrap();
            format!("aux-{}", a.aux[i].1.type_code())
        };
        return Some((what, ra(&a.aux), ra(&b.aux)));
    }
    None
}

// ------------------------------------------------------------------------------------------------
// headers

/// One header line: record kind (`HD`, `SQ`, `RG`, `PG`, `CO`) and, for `CO`, the raw comment;
/// otherwise the ordered tag/value list.
#[derive(Clone, Debug, PartialEq, Eq, Hash)]
pub enum GLine {
    Map { kind: [u8; 2], fields: Vec<([u8; 2], Vec<u8>)> },
    Co(Vec<u8>),
}

impl GLine {
    pub fn map(kind: &str, fields: &[(&str, &str)]) -> Self {
        GLine::Map {
            kind: kind.as_bytes().try_into().unwrap(),
            fields: fields
                .iter()
                .map(|(t, v)| (t.as_bytes().try_into().unwrap(), v.as_bytes().to_vec()))
                .collect(),
        }
    }
    pub fn kind(&self) -> [u8; 2] {
        match self {
            GLine::Map { kind, .. } => *kind,
            GLine::Co(_) => *b"CO",
        }
    }
    pub fn get(&self, tag: &[u8; 2]) -> Option<&[u8]> {
        match self {
            GLine::Map { fields, .. } => fields.iter().find(|(t, _)| t == tag).map(|(_, v)| &v[..]),
            GLine::Co(_) => None,
        }
    }
    pub fn to_text(&self) -> Vec<u8> {
        let mut out = vec![b'@'];
        match self {
            GLine::Map { kind, fields } => {
                out.extend_from_slice(kind);
                for (t, v) in fields {
                    out.push(b'\t');
                    out.extend_from_slice(t);
                    out.push(b':');
                    out.extend_from_slice(v);
                }
            }
            GLine::Co(c) => {
                out.extend_from_slice(b"CO\t");
                out.extend_from_slice(c);
            }
        }
        out.push(b'\n');
        out
    }
}

/// A header as an ordered list of lines (the order of the text).
#[derive(Clone, Debug, PartialEq, Eq, Hash, Default)]
pub struct GHeader {
    pub lines: Vec<GLine>,
}

impl GHeader {
    pub fn to_text(&self) -> Vec<u8> {
        let mut out = Vec::new();
        for l in &self.lines {
            out.extend(l.to_text());
        }
        out
    }
    pub fn render(&self) -> String {
        format!("\"{}\"", esc_full(&self.to_text()))
    }
    /// The value the SAM data model assigns to this text: lines grouped by kind in file order
    /// (`@HD`, then `@SQ`s, `@RG`s, `@PG`s, `@CO`s), the identifying tags (`VN`; `SN`,`LN`; `ID`)
    /// first, then the remaining tags in their order of appearance.
    pub fn canonical(&self) -> GHeader {
        let mut out = Vec::new();
        for kind in [b"HD", b"SQ", b"RG", b"PG", b"CO"] {
            for l in &self.lines {
                if &l.kind() != kind {
                    continue;
                }
                match l {
                    GLine::Co(c) => out.push(GLine::Co(c.clone())),
                    GLine::Map { kind, fields } => {
                        let lead: &[&[u8; 2]] = match kind {
                            b"HD" => &[b"VN"],
                            b"SQ" => &[b"SN", b"LN"],
                            _ => &[b"ID"],
                        };
                        let mut f = Vec::new();
                        for t in lead {
                            if let Some(x) = fields.iter().find(|(ft, _)| ft == *t) {
                                f.push(x.clone());
                            }
                        }
                        for x in fields {
                            if !lead.contains(&&x.0) {
                                f.push(x.clone());
                            }
                        }
                        out.push(GLine::Map { kind: *kind, fields: f });
                    }
                }
            }
        }
        GHeader { lines: out }
    }
    pub fn refs(&self) -> Vec<(Vec<u8>, u64)> {
        self.lines
            .iter()
            .filter(|l| l.kind() == *b"SQ")
            .map(|l| {
                let n = l.get(b"SN").unwrap_or(b"").to_vec();
                let ln = std::str::from_utf8(l.get(b"LN").unwrap_or(b"0")).ok().and_then(|s| s.parse().ok()).unwrap_or(0);
                (n, ln)
            })
            .collect()
    }
}

pub fn esc_full(b: &[u8]) -> String {
    let mut s = String::new();
    for &c in b {
        match c {
            b'"' => s.push_str("\\\""),
            b'\\' => s.push_str("\\\\"),
            b'\t' => s.push_str("\\t"),
            b'\n' => s.push_str("\\n"),
            0x20..=0x7e => s.push(c as char),
            _ => {
                let _ = write!(s, "\\x{c:02x}");
            }
        }
    }
    s
}

/// First difference between two headers: (what, left, right). `what` distinguishes a pure
/// reordering of tags inside a line from a change of content.
pub fn diff_header(a: &GHeader, b: &GHeader) -> Option<(String, String, String)> {
    if a == b {
        return None;
    }
    let n = a.lines.len().min(b.lines.len());
    for i in 0..n {
        let (x, y) = (&a.lines[i], &b.lines[i]);
        if x == y {
            continue;
        }
        let kind = String::from_utf8_lossy(&x.kind()).to_string();
        let what = match (x, y) {
            (GLine::Map { kind: k1, fields: f1 }, GLine::Map { kind: k2, fields: f2 }) if k1 == k2 => {
                let mut s1 = f1.clone();
                let mut s2 = f2.clone();
                s1.sort();
                s2.sort();
                if s1 == s2 { format!("{kind}-tag-order") } else { format!("{kind}-fields") }
            }
            (GLine::Co(_), GLine::Co(_)) => "CO-text".to_string(),
            _ => "line-kind".to_string(),
        };
        return Some((what, esc_full(&x.to_text()), esc_full(&y.to_text())));
    }
    Some((
        "line-count".into(),
        format!("{} lines", a.lines.len()),
        format!("{} lines", b.lines.len()),
    ))
}
