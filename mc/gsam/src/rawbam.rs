//! Independent parser for (uncompressed) BAM streams, written from SAMv1 §4.2 — no noodles code.

use crate::model::{GRec, GVal};

/// SAMv1 §5.3, verbatim port of the C function (`beg` 0-based inclusive, `end` 0-based exclusive).
pub fn reg2bin(beg: i64, end: i64) -> i64 {
    let end = end - 1;
    if beg >> 14 == end >> 14 {
        return ((1 << 15) - 1) / 7 + (beg >> 14);
    }
    if beg >> 17 == end >> 17 {
        return ((1 << 12) - 1) / 7 + (beg >> 17);
    }
    if beg >> 20 == end >> 20 {
        return ((1 << 9) - 1) / 7 + (beg >> 20);
    }
    if beg >> 23 == end >> 23 {
        return ((1 << 6) - 1) / 7 + (beg >> 23);
    }
    if beg >> 26 == end >> 26 {
        return ((1 << 3) - 1) / 7 + (beg >> 26);
    }
    0
}

#[derive(Clone, Debug, Default)]
pub struct RawHeader {
    pub text: Vec<u8>,
    pub refs: Vec<(Vec<u8>, i32)>,
}

/// The fixed-size core and the variable-length parts of one record, undecoded.
#[derive(Clone, Debug, Default)]
pub struct RawRec {
    pub block_size: u32,
    pub ref_id: i32,
    pub pos: i32,
    pub l_read_name: u8,
    pub mapq: u8,
    pub bin: u16,
    pub n_cigar_op: u16,
    pub flag: u16,
    pub l_seq: u32,
    pub next_ref_id: i32,
    pub next_pos: i32,
    pub tlen: i32,
    pub read_name: Vec<u8>,
    pub cigar: Vec<u32>,
    pub seq: Vec<u8>,
    pub qual: Vec<u8>,
    pub aux: Vec<([u8; 2], GVal)>,
}

struct Cur<'a> {
    b: &'a [u8],
    p: usize,
}

impl<'a> Cur<'a> {
    fn take(&mut self, n: usize, what: &str) -> Result<&'a [u8], String> {
        if self.b.len() - self.p < n {
            return Err(format!("{what}: need {n} bytes at offset {}, have {}", self.p, self.b.len() - self.p));
        }
        let s = &self.b[self.p..self.p + n];
        self.p += n;
        Ok(s)
    }
    fn u8(&mut self, w: &str) -> Result<u8, String> {
        Ok(self.take(1, w)?[0])
    }
    fn u16(&mut self, w: &str) -> Result<u16, String> {
        Ok(u16::from_le_bytes(self.take(2, w)?.try_into().unwrap()))
    }
    fn u32(&mut self, w: &str) -> Result<u32, String> {
        Ok(u32::from_le_bytes(self.take(4, w)?.try_into().unwrap()))
    }
    fn i32(&mut self, w: &str) -> Result<i32, String> {
        Ok(self.u32(w)? as i32)
    }
    fn cstr(&mut self, w: &str) -> Result<&'a [u8], String> {
        let rest = &self.b[self.p..];
        let i = rest.iter().position(|&c| c == 0).ok_or_else(|| format!("{w}: no NUL terminator"))?;
        self.p += i + 1;
        Ok(&rest[..i])
    }
    fn done(&self) -> bool {
        self.p >= self.b.len()
    }
}

fn parse_aux(c: &mut Cur) -> Result<Vec<([u8; 2], GVal)>, String> {
    let mut out = Vec::new();
    while !c.done() {
        let tag: [u8; 2] = c.take(2, "aux tag")?.try_into().unwrap();
        let ty = c.u8("aux type")?;
        let v = match ty {
            b'A' => GVal::A(c.u8("A")?),
            b'c' => GVal::I8(c.u8("c")? as i8),
            b'C' => GVal::U8(c.u8("C")?),
            b's' => GVal::I16(c.u16("s")? as i16),
            b'S' => GVal::U16(c.u16("S")?),
            b'i' => GVal::I32(c.i32("i")?),
            b'I' => GVal::U32(c.u32("I")?),
            b'f' => GVal::F(c.u32("f")?),
            b'Z' => GVal::Z(c.cstr("Z")?.to_vec()),
            b'H' => GVal::H(c.cstr("H")?.to_vec()),
            b'B' => {
                let sub = c.u8("B subtype")?;
                let n = c.u32("B count")? as usize;
                let size = match sub {
                    b'c' | b'C' => 1,
                    b's' | b'S' => 2,
                    b'i' | b'I' | b'f' => 4,
                    x => return Err(format!("aux B subtype {x:#x}")),
                };
                let raw = c.take(n.checked_mul(size).ok_or("B size overflow")?, "B payload")?;
                match sub {
                    b'c' => GVal::BI8(raw.iter().map(|&x| x as i8).collect()),
                    b'C' => GVal::BU8(raw.to_vec()),
                    b's' => GVal::BI16(raw.chunks(2).map(|x| i16::from_le_bytes(x.try_into().unwrap())).collect()),
                    b'S' => GVal::BU16(raw.chunks(2).map(|x| u16::from_le_bytes(x.try_into().unwrap())).collect()),
                    b'i' => GVal::BI32(raw.chunks(4).map(|x| i32::from_le_bytes(x.try_into().unwrap())).collect()),
                    b'I' => GVal::BU32(raw.chunks(4).map(|x| u32::from_le_bytes(x.try_into().unwrap())).collect()),
                    _ => GVal::BF(raw.chunks(4).map(|x| u32::from_le_bytes(x.try_into().unwrap())).collect()),
                }
            }
            x => return Err(format!("aux type {x:#x}")),
        };
        out.push((tag, v));
    }
    Ok(out)
}

/// Parses one record body (the `block_size` bytes after the length prefix).
pub fn parse_record(body: &[u8]) -> Result<RawRec, String> {
    let mut c = Cur { b: body, p: 0 };
    let mut r = RawRec { block_size: body.len() as u32, ..Default::default() };
    r.ref_id = c.i32("refID")?;
    r.pos = c.i32("pos")?;
    r.l_read_name = c.u8("l_read_name")?;
    r.mapq = c.u8("mapq")?;
    r.bin = c.u16("bin")?;
    r.n_cigar_op = c.u16("n_cigar_op")?;
    r.flag = c.u16("flag")?;
    r.l_seq = c.u32("l_seq")?;
    r.next_ref_id = c.i32("next_refID")?;
    r.next_pos = c.i32("next_pos")?;
    r.tlen = c.i32("tlen")?;
    r.read_name = c.take(r.l_read_name as usize, "read_name")?.to_vec();
    let cg = c.take(r.n_cigar_op as usize * 4, "cigar")?;
    r.cigar = cg.chunks(4).map(|x| u32::from_le_bytes(x.try_into().unwrap())).collect();
    r.seq = c.take((r.l_seq as usize).div_ceil(2), "seq")?.to_vec();
    r.qual = c.take(r.l_seq as usize, "qual")?.to_vec();
    r.aux = parse_aux(&mut c)?;
    Ok(r)
}

/// Splits an uncompressed BAM stream into header and record bodies.
pub fn parse_stream(bytes: &[u8]) -> Result<(RawHeader, Vec<RawRec>), String> {
    let mut c = Cur { b: bytes, p: 0 };
    if c.take(4, "magic")? != b"BAM\x01" {
        return Err("bad magic".into());
    }
    let l_text = c.u32("l_text")? as usize;
    let text = c.take(l_text, "text")?.to_vec();
    let n_ref = c.u32("n_ref")? as usize;
    let mut refs = Vec::new();
    for _ in 0..n_ref {
        let l_name = c.u32("l_name")? as usize;
        let name = c.take(l_name, "ref name")?;
        if name.last() != Some(&0) {
            return Err("reference name not NUL terminated".into());
        }
        let l_ref = c.i32("l_ref")?;
        refs.push((name[..l_name - 1].to_vec(), l_ref));
    }
    let mut recs = Vec::new();
    while !c.done() {
        let bs = c.u32("block_size")? as usize;
        let body = c.take(bs, "record body")?;
        recs.push(parse_record(body).map_err(|e| format!("record {}: {e}", recs.len()))?);
    }
    Ok((RawHeader { text, refs }, recs))
}

impl RawRec {
    /// Decodes the raw record into the data model exactly as SAMv1 §4.2 prescribes, including the
    /// `CG` convention of §4.2.2. Returns also whether the convention was used.
    pub fn decode(&self) -> Result<(GRec, bool), String> {
        const BASES: &[u8; 16] = b"=ACMGRSVTWYHKDBN";
        let mut g = GRec::default();
        if self.read_name.last() != Some(&0) {
            return Err("read_name not NUL terminated".into());
        }
        let nm = &self.read_name[..self.read_name.len() - 1];
        if nm.contains(&0) {
            return Err("read_name contains NUL".into());
        }
        g.name = if nm == b"*" { None } else { Some(nm.to_vec()) };
        g.flags = self.flag;
        g.rid = match self.ref_id {
            -1 => None,
            n if n >= 0 => Some(n as usize),
            n => return Err(format!("refID {n}")),
        };
        g.mrid = match self.next_ref_id {
            -1 => None,
            n if n >= 0 => Some(n as usize),
            n => return Err(format!("next_refID {n}")),
        };
        g.pos = match self.pos {
            -1 => None,
            n if n >= 0 => Some(n as u64 + 1),
            n => return Err(format!("pos {n}")),
        };
        g.mpos = match self.next_pos {
            -1 => None,
            n if n >= 0 => Some(n as u64 + 1),
            n => return Err(format!("next_pos {n}")),
        };
        g.mapq = self.mapq;
        g.tlen = self.tlen;
        let dec = |w: u32| -> Result<(u8, u64), String> {
            let k = (w & 0xf) as u8;
            if k > 8 {
                return Err(format!("cigar op kind {k}"));
            }
            Ok((k, (w >> 4) as u64))
        };
        for &w in &self.cigar {
            g.cigar.push(dec(w)?);
        }
        for i in 0..self.l_seq as usize {
            let b = self.seq[i / 2];
            let n = if i % 2 == 0 { b >> 4 } else { b & 0xf };
            g.seq.push(BASES[n as usize]);
        }
        g.qual = if self.qual.iter().all(|&q| q == 0xff) { Vec::new() } else { self.qual.clone() };
        g.aux = self.aux.clone();
        let mut used_cg = false;
        if g.cigar.len() == 2 && g.cigar[0] == (4, self.l_seq as u64) && g.cigar[1].0 == 3 {
            if let Some(i) = g.aux.iter().position(|(t, _)| t == b"CG") {
                if let GVal::BU32(v) = &g.aux[i].1 {
                    let mut full = Vec::with_capacity(v.len());
                    for &w in v {
                        full.push(dec(w)?);
                    }
                    g.cigar = full;
                    g.aux.remove(i);
                    used_cg = true;
                } else {
                    return Err("CG is not B:I".into());
                }
            }
        }
        Ok((g, used_cg))
    }
}
