//! gsam — SAM/BAM record and header grammar, spec-level model, normalisation and raw BAM parsing
//! shared by the C05 and C06 checks.

pub mod conv;
pub mod dynpath;
pub mod r#gen;
pub mod hcaps;
pub mod hdrraw;
pub mod hgen;
pub mod io;
pub mod lazyrw;
pub mod model;
pub mod rawbam;
pub mod reuse;
pub mod samtext;
pub mod spec;
pub mod wseq;

pub use model::{GHeader, GLine, GRec, GVal};
pub use spec::Expect;
