//! The bounded record grammar of DESIGN.md §2.2 / §4 C05–C06 as a Chooser-driven generator:
//! one deviation-class choice per field, around one of four base records.

use vmc::Chooser;

use crate::model::{GRec, GVal};

#[derive(Clone, Copy, Debug, PartialEq)]
pub enum RefSel {
    None,
    First,
    Last,
    /// `n_ref` itself: one past the dictionary.
    OutOfRange,
}

impl RefSel {
    pub fn resolve(self, n_ref: usize) -> Option<usize> {
        match self {
            RefSel::None => None,
            RefSel::First => Some(0),
            RefSel::Last => Some(n_ref.saturating_sub(1)),
            RefSel::OutOfRange => Some(n_ref),
        }
    }
}

#[derive(Clone, Copy, Debug, PartialEq)]
pub enum CigarSel {
    Empty,
    /// `nM`
    M(u64),
    /// `1S3M`
    SM,
    /// all nine kinds, length 1 each
    All9,
    /// the literal placeholder shape `kSmN` with k = l_seq (4S10N with a 4-base read)
    KSmN,
    /// `1M 268435455N 1M` (largest op length, short read)
    BigN,
    /// `268435455M` (largest op length on a read-consuming op; SEQ must be `*`)
    BigM,
    /// `268435456M` (one too large for the 28-bit length)
    TooBig,
    /// `1M (1D 1M)*`: n ops, read length (n+1)/2
    Ops(usize),
    /// `(1I)*n`: n ops, no reference span (alignment_span of a long CIGAR being 0)
    OpsIns(usize),
    /// as `Ops(n)`, but the record's SEQ (and QUAL) is `*` unless a length is chosen explicitly —
    /// the secondary alignment of an ultra-long read (placeholder `0S<m>N`)
    OpsStarSeq(usize),
}

impl CigarSel {
    pub fn heavy(self) -> bool {
        matches!(self, CigarSel::Ops(n) | CigarSel::OpsIns(n) | CigarSel::OpsStarSeq(n) if n > 1000) || matches!(self, CigarSel::M(n) if n > 1000)
    }
    pub fn ops(self) -> Vec<(u8, u64)> {
        match self {
            CigarSel::Empty => vec![],
            CigarSel::M(n) => vec![(0, n)],
            CigarSel::SM => vec![(4, 1), (0, 3)],
            CigarSel::All9 => (0..9).map(|k| (k, 1)).collect(),
            CigarSel::KSmN => vec![(4, 4), (3, 10)],
            CigarSel::BigN => vec![(0, 1), (3, (1 << 28) - 1), (0, 1)],
            CigarSel::BigM => vec![(0, (1 << 28) - 1)],
            CigarSel::TooBig => vec![(0, 1 << 28)],
            CigarSel::Ops(n) | CigarSel::OpsStarSeq(n) => (0..n).map(|i| (if i % 2 == 0 { 0 } else { 2 }, 1)).collect(),
            CigarSel::OpsIns(n) => (0..n).map(|_| (1, 1)).collect(),
        }
    }
}

#[derive(Clone, Copy, Debug, PartialEq)]
pub enum SeqLen {
    /// The CIGAR's read length when that is in 1..=100000; `*` when it is larger; the given
    /// default when the CIGAR implies none.
    Auto(usize),
    Fixed(usize),
}

#[derive(Clone, Copy, Debug, PartialEq)]
pub enum Letters {
    Acgt,
    Iupac,
    Lower,
    /// letters SAM allows but BAM folds to `N`: `.`, `X`, `u`
    FoldSam,
    /// bytes outside the SAM SEQ alphabet (BAM still maps them to `N`)
    FoldBam,
}

impl Letters {
    pub fn make(self, n: usize) -> Vec<u8> {
        let pat: &[u8] = match self {
            Letters::Acgt => b"ACGT",
            Letters::Iupac => b"=ACMGRSVTWYHKDBN",
            Letters::Lower => b"acgtnryk",
            Letters::FoldSam => b"A.XuC",
            Letters::FoldBam => b"!A*\xff",
        };
        (0..n).map(|i| pat[i % pat.len()]).collect()
    }
}

#[derive(Clone, Copy, Debug, PartialEq)]
pub enum QualSel {
    Absent,
    Ramp,
    All0,
    All93,
    /// one score of 94
    Has94,
    /// every score 0xff (BAM's own "missing" filler given as a value)
    AllFF,
    /// only the first score 0xff
    FirstFF,
    LenPlus1,
    LenMinus1,
    /// every score 9 (`*` in SAM text when the read has one base)
    All9,
}

impl QualSel {
    pub fn make(self, n: usize) -> Vec<u8> {
        match self {
            QualSel::Absent => vec![],
            QualSel::Ramp => (0..n).map(|i| ((i * 7 + 1) % 94) as u8).collect(),
            QualSel::All0 => vec![0; n],
            QualSel::All93 => vec![93; n],
            QualSel::Has94 => {
                let mut v: Vec<u8> = vec![40; n];
                if let Some(x) = v.last_mut() {
                    *x = 94;
                }
                v
            }
            QualSel::AllFF => vec![0xff; n],
            QualSel::FirstFF => {
                let mut v: Vec<u8> = vec![40; n];
                if let Some(x) = v.first_mut() {
                    *x = 0xff;
                }
                v
            }
            QualSel::LenPlus1 => vec![30; n + 1],
            QualSel::LenMinus1 => vec![30; n.saturating_sub(1)],
            QualSel::All9 => vec![9; n],
        }
    }
}

#[derive(Clone, Copy, Debug, PartialEq)]
pub enum TagMode {
    /// `XA XB XC`
    Distinct,
    /// slot 1 repeats slot 0's tag
    Dup,
    /// `NH RG MD` (standard tags)
    Standard,
    /// `x1 Y9 zz`
    LowerDigit,
    /// `1A` in slot 0 (not a valid tag)
    Invalid,
}

impl TagMode {
    pub fn tag(self, slot: usize) -> [u8; 2] {
        let t: [&[u8; 2]; 3] = match self {
            TagMode::Distinct => [b"XA", b"XB", b"XC"],
            TagMode::Dup => [b"XA", b"XA", b"XC"],
            TagMode::Standard => [b"NH", b"RG", b"MD"],
            TagMode::LowerDigit => [b"x1", b"Y9", b"zz"],
            TagMode::Invalid => [b"1A", b"XB", b"XC"],
        };
        *t[slot]
    }
}

/// Per-field alphabets (first element of each is *not* special: the base record supplies the
/// default index; every other entry costs one deviation).
#[derive(Clone, Debug)]
pub struct Alphabet {
    pub names: Vec<Option<Vec<u8>>>,
    pub flags: Vec<u16>,
    pub refs: Vec<RefSel>,
    pub poss: Vec<Option<u64>>,
    pub mapqs: Vec<u8>,
    pub cigars: Vec<CigarSel>,
    pub tlens: Vec<i32>,
    pub seqlens: Vec<SeqLen>,
    pub letters: Vec<Letters>,
    pub quals: Vec<QualSel>,
    /// index 0 = "no field in this slot"
    pub auxvals: Vec<Option<GVal>>,
    pub tagmodes: Vec<TagMode>,
}

pub fn name_of_len(n: usize) -> Vec<u8> {
    // graphic bytes without '@', varied so that truncation would be visible
    (0..n).map(|i| b"abcdefghijklmnopqrstuvwxyz0123456789"[i % 36]).collect()
}

/// Aux values at the range boundaries of every type (DESIGN §4 C05 **A**).
pub fn aux_values(sam_only_valid: bool, wide: bool) -> Vec<Option<GVal>> {
    use GVal::*;
    let mut v: Vec<GVal> = vec![
        I32(-1),
        Z(b"a b~".to_vec()),
        BU16(vec![0, 1, 65535]),
        A(b'!'),
        A(b'~'),
        I8(i8::MIN),
        I8(i8::MAX),
        U8(0),
        U8(u8::MAX),
        I16(i16::MIN),
        I16(i16::MAX),
        U16(0),
        U16(u16::MAX),
        I32(i32::MIN),
        I32(i32::MAX),
        I32(0),
        U32(0),
        U32(u32::MAX),
        U32(1 << 31),
        // just beyond the range of the next narrower type (where a text reader picks the width)
        I32(-129),
        I32(-32769),
        U16(256),
        U32(65536),
        GVal::f(0.0),
        GVal::f(-0.0),
        GVal::f(1.0),
        GVal::f(0.1),
        GVal::f(1e-7),
        GVal::f(f32::MAX),
        GVal::f(f32::MIN_POSITIVE),
        GVal::f(-1.5e10),
        Z(vec![]),
        Z(b"a".to_vec()),
        Z((b' '..=b'~').collect()),
        Z(b":;,=*\t".iter().copied().filter(|&c| c != b'\t').collect()),
        H(vec![]),
        H(b"1AE3".to_vec()),
        BI8(vec![]),
        BI8(vec![i8::MIN]),
        BI8(vec![i8::MIN, 0, i8::MAX]),
        BU8(vec![]),
        BU8(vec![u8::MAX]),
        BU8(vec![0, 1, u8::MAX]),
        BI16(vec![]),
        BI16(vec![i16::MIN]),
        BI16(vec![i16::MIN, 0, i16::MAX]),
        BU16(vec![]),
        BU16(vec![u16::MAX]),
        BI32(vec![]),
        BI32(vec![i32::MIN]),
        BI32(vec![i32::MIN, 0, i32::MAX]),
        BU32(vec![]),
        BU32(vec![u32::MAX]),
        BU32(vec![0, 1, u32::MAX]),
        BF(vec![]),
        GVal::bf(&[0.1]),
        GVal::bf(&[-0.0, 1e-7, f32::MAX]),
    ];
    if wide {
        v.extend([
            A(b'A'),
            A(b':'),
            I8(0),
            I16(0),
            I16(-1),
            I32(32768),
            I32(128),
            GVal::f(1e-45),
            GVal::f(-f32::MAX),
            GVal::f(16777216.0),
            GVal::f(0.3),
            GVal::f(1e10),
            Z(b"1".to_vec()),
            Z(b"x:Z:y".to_vec()),
            H(b"00".to_vec()),
            H(b"FFFFFFFFFF".to_vec()),
            BU8((0..=255).collect()),
            GVal::bf(&[1.0, 0.5, 1e-45, f32::MIN_POSITIVE]),
            GVal::bf(&[1e10, 3.0e-5]),
        ]);
    }
    // outside the data model (writer may reject; if it accepts, the round trip must be exact)
    v.extend([A(b' '), Z(b"a\tb".to_vec()), H(b"1AE".to_vec()), H(b"1ae3".to_vec())]);
    if !sam_only_valid {
        // valid in BAM (any bit pattern is a float), not expressible as SAM text
        v.extend([GVal::f(f32::INFINITY), GVal::f(f32::NEG_INFINITY), GVal::F(0x7fc0_0001), GVal::bf(&[f32::INFINITY, f32::NAN])]);
    } else {
        v.extend([GVal::f(f32::INFINITY), GVal::bf(&[f32::NEG_INFINITY])]);
    }
    std::iter::once(None).chain(v.into_iter().map(Some)).collect()
}


/// Aux values whose element / byte counts sit at and above 2^16 (no count field of an aux value is 16
/// bits wide, so nothing may happen there): kept with the other expensive entries.
pub fn big_aux_values(wide: bool) -> Vec<Option<GVal>> {
    let mut v = vec![GVal::BU8((0..65536u32).map(|i| (i % 251) as u8).collect()), GVal::Z((0..65536u32).map(|i| b'!' + (i % 94) as u8).collect())];
    if wide {
        v.extend([
            GVal::BU8((0..65535u32).map(|i| (i % 251) as u8).collect()),
            GVal::BU16((0..65537u32).map(|i| (i % 65521) as u16).collect()),
            GVal::BI32((0..65536).map(|i| i * 31 - 1_000_000).collect()),
            GVal::H((0..65536u32).map(|i| b"0123456789ABCDEF"[(i % 16) as usize]).collect()),
        ]);
    }
    v.into_iter().map(Some).collect()
}

impl Alphabet {
    /// C05: the BAM record grammar. `heavy` adds the expensive entries (≥ 65535 ops, 65536 bases).
    pub fn bam(wide: bool, heavy: bool) -> Self {
        let mut a = Alphabet {
            names: vec![
                None,
                Some(b"r".to_vec()),
                Some(b"r1".to_vec()),
                Some(b"read:3;x,y/1".to_vec()),
                Some(name_of_len(254)),
                Some(name_of_len(255)),
                Some(b"a@b".to_vec()),
                Some(vec![]),
                Some(b"*".to_vec()),
                Some(b"a b".to_vec()),
                Some((b'!'..=b'~').filter(|&c| c != b'@').collect()),
            ],
            flags: vec![
                4, 0, 99, 147, 0x1, 0x2, 0x8, 0x10, 0x20, 0x40, 0x80, 0x100, 0x200, 0x400, 0x800, 0x4 | 0x1 | 0x8, 0xfff,
            ],
            refs: vec![RefSel::None, RefSel::First, RefSel::Last, RefSel::OutOfRange],
            poss: vec![
                None,
                Some(1),
                Some(2),
                Some(16384),
                Some(16385),
                Some((1 << 29) - 1),
                Some(1 << 29),
                Some((1 << 31) - 1),
                Some(1 << 31),
                Some((1 << 31) + 1),
                Some((1 << 32) + 1),
            ],
            mapqs: vec![255, 30, 0, 254],
            cigars: vec![
                CigarSel::Empty,
                CigarSel::M(4),
                CigarSel::SM,
                CigarSel::All9,
                CigarSel::KSmN,
                CigarSel::BigN,
                CigarSel::BigM,
                CigarSel::TooBig,
            ],
            tlens: vec![0, 1, -1, i32::MIN, i32::MAX],
            seqlens: vec![SeqLen::Auto(0), SeqLen::Auto(4), SeqLen::Fixed(0), SeqLen::Fixed(1), SeqLen::Fixed(2), SeqLen::Fixed(3)],
            letters: vec![Letters::Acgt, Letters::Iupac, Letters::Lower, Letters::FoldSam, Letters::FoldBam],
            quals: vec![
                QualSel::Absent,
                QualSel::Ramp,
                QualSel::All0,
                QualSel::All93,
                QualSel::Has94,
                QualSel::AllFF,
                QualSel::FirstFF,
                QualSel::LenPlus1,
                QualSel::LenMinus1,
            ],
            auxvals: aux_values(false, wide),
            tagmodes: vec![TagMode::Distinct, TagMode::Dup, TagMode::Standard, TagMode::LowerDigit, TagMode::Invalid],
        };
        if wide {
            a.poss.extend([Some(131072), Some((1 << 26) + 1), Some((1 << 29) - 4)]);
            a.cigars.extend([CigarSel::M(16384), CigarSel::M(1 << 26)]);
            a.seqlens.push(SeqLen::Fixed(5));
            a.tlens.extend([i32::MIN + 1, 1 << 29]);
            a.mapqs.extend([1, 93]);
        }
        if heavy {
            a.cigars.extend([CigarSel::Ops(65535), CigarSel::Ops(65536), CigarSel::Ops(70000)]);
            a.seqlens.push(SeqLen::Fixed(65536));
            a.auxvals.extend(big_aux_values(wide));
            if wide {
                a.cigars.extend([CigarSel::OpsIns(65536), CigarSel::OpsStarSeq(65536)]);
            }
        }
        a
    }

    /// C06: what SAM text can carry plus SAM-only shapes; BAM-only values (positions beyond 2³¹−1,
    /// non-finite floats) stay in as `Either` cases.
    pub fn sam(wide: bool, heavy: bool) -> Self {
        let mut a = Self::bam(wide, false);
        a.auxvals = aux_values(true, wide);
        a.quals.push(QualSel::All9);
        // drop the purely BAM-side overflow entries that C05 owns; keep one of each class
        a.poss.retain(|p| *p != Some((1 << 32) + 1));
        if heavy {
            a.cigars.extend([CigarSel::Ops(65536), CigarSel::OpsStarSeq(65536)]);
            // (the wider set of big aux values is C05's: every C06 execution converts ~14 times)
            a.auxvals.extend(big_aux_values(false));
            if wide {
                a.cigars.extend([CigarSel::Ops(65535), CigarSel::OpsIns(65536)]);
            }
        }
        a
    }
}

/// A base record as a vector of alphabet values (looked up by value, so that alphabets can be
/// extended without touching the bases).
#[derive(Clone, Debug)]
pub struct Base {
    pub label: &'static str,
    pub name: Option<Vec<u8>>,
    pub flags: u16,
    pub rid: RefSel,
    pub pos: Option<u64>,
    pub mapq: u8,
    pub cigar: CigarSel,
    pub mrid: RefSel,
    pub mpos: Option<u64>,
    pub tlen: i32,
    pub seqlen: SeqLen,
    pub letters: Letters,
    pub qual: QualSel,
    pub aux: [Option<GVal>; 3],
    pub tagmode: TagMode,
}

pub fn bases() -> Vec<Base> {
    vec![
        Base {
            label: "unmapped-empty",
            name: None,
            flags: 4,
            rid: RefSel::None,
            pos: None,
            mapq: 255,
            cigar: CigarSel::Empty,
            mrid: RefSel::None,
            mpos: None,
            tlen: 0,
            seqlen: SeqLen::Auto(0),
            letters: Letters::Acgt,
            qual: QualSel::Absent,
            aux: [None, None, None],
            tagmode: TagMode::Distinct,
        },
        Base {
            label: "simple-mapped",
            name: Some(b"r1".to_vec()),
            flags: 0,
            rid: RefSel::First,
            pos: Some(1),
            mapq: 30,
            cigar: CigarSel::M(4),
            mrid: RefSel::None,
            mpos: None,
            tlen: 0,
            seqlen: SeqLen::Auto(4),
            letters: Letters::Acgt,
            qual: QualSel::Ramp,
            aux: [None, None, None],
            tagmode: TagMode::Distinct,
        },
        Base {
            label: "paired",
            name: Some(b"r".to_vec()),
            flags: 99,
            rid: RefSel::First,
            pos: Some(16384),
            mapq: 0,
            cigar: CigarSel::SM,
            mrid: RefSel::First,
            mpos: Some(16385),
            tlen: 1,
            seqlen: SeqLen::Auto(4),
            letters: Letters::Lower,
            qual: QualSel::All93,
            aux: [None, None, None],
            tagmode: TagMode::Distinct,
        },
        Base {
            label: "everything-present",
            name: Some(b"read:3;x,y/1".to_vec()),
            flags: 147,
            rid: RefSel::Last,
            pos: Some(2),
            mapq: 254,
            cigar: CigarSel::All9,
            mrid: RefSel::First,
            mpos: Some(1),
            tlen: -1,
            seqlen: SeqLen::Auto(4),
            letters: Letters::Iupac,
            qual: QualSel::Ramp,
            aux: [Some(GVal::I32(-1)), Some(GVal::Z(b"a b~".to_vec())), Some(GVal::BU16(vec![0, 1, 65535]))],
            tagmode: TagMode::Distinct,
        },
    ]
}

fn idx<T: PartialEq + std::fmt::Debug>(xs: &[T], x: &T, what: &str) -> usize {
    xs.iter().position(|y| y == x).unwrap_or_else(|| vmc::machinery(format!("base value {x:?} missing from alphabet {what}")))
}

/// One deviation-class choice whose default is `xs[default]`.
fn pick_dev<'a, T>(ch: &Chooser, label: &'static str, xs: &'a [T], default: usize) -> &'a T {
    let k = ch.dev(label, xs.len());
    let i = if k == 0 {
        default
    } else if k <= default {
        k - 1
    } else {
        k
    };
    &xs[i]
}

/// The generated record plus the selectors that produced it (for tags / descriptions).
#[derive(Clone, Debug)]
pub struct Generated {
    pub rec: GRec,
    pub cigar_sel: CigarSel,
    pub base: &'static str,
}

/// Draws one record: all fields within the explorer's deviation bound of `base`.
pub fn gen_record(ch: &Chooser, a: &Alphabet, base: &Base, n_ref: usize) -> Generated {
    let (brid, bmrid) = if n_ref == 0 { (RefSel::None, RefSel::None) } else { (base.rid, base.mrid) };
    let name = pick_dev(ch, "name", &a.names, idx(&a.names, &base.name, "names")).clone();
    let flags = *pick_dev(ch, "flags", &a.flags, idx(&a.flags, &base.flags, "flags"));
    let rid = *pick_dev(ch, "rid", &a.refs, idx(&a.refs, &brid, "refs"));
    let pos = *pick_dev(ch, "pos", &a.poss, idx(&a.poss, &base.pos, "poss"));
    let mapq = *pick_dev(ch, "mapq", &a.mapqs, idx(&a.mapqs, &base.mapq, "mapqs"));
    let cigar_sel = *pick_dev(ch, "cigar", &a.cigars, idx(&a.cigars, &base.cigar, "cigars"));
    let mrid = *pick_dev(ch, "mrid", &a.refs, idx(&a.refs, &bmrid, "refs"));
    let mpos = *pick_dev(ch, "mpos", &a.poss, idx(&a.poss, &base.mpos, "poss"));
    let tlen = *pick_dev(ch, "tlen", &a.tlens, idx(&a.tlens, &base.tlen, "tlens"));
    let seqlen = *pick_dev(ch, "seq.len", &a.seqlens, idx(&a.seqlens, &base.seqlen, "seqlens"));
    let letters = *pick_dev(ch, "seq.letters", &a.letters, idx(&a.letters, &base.letters, "letters"));
    let qual = *pick_dev(ch, "qual", &a.quals, idx(&a.quals, &base.qual, "quals"));
    let a0 = pick_dev(ch, "aux0", &a.auxvals, idx(&a.auxvals, &base.aux[0], "auxvals")).clone();
    let a1 = pick_dev(ch, "aux1", &a.auxvals, idx(&a.auxvals, &base.aux[1], "auxvals")).clone();
    let a2 = pick_dev(ch, "aux2", &a.auxvals, idx(&a.auxvals, &base.aux[2], "auxvals")).clone();
    let tagmode = *pick_dev(ch, "aux.tags", &a.tagmodes, idx(&a.tagmodes, &base.tagmode, "tagmodes"));

    let cigar = cigar_sel.ops();
    let rl: u64 = cigar.iter().filter(|(k, _)| crate::model::consumes_read(*k)).map(|(_, l)| *l).sum();
    let n = match seqlen {
        SeqLen::Fixed(n) => n,
        SeqLen::Auto(_) if matches!(cigar_sel, CigarSel::OpsStarSeq(_)) => 0,
        SeqLen::Auto(d) => {
            if rl == 0 {
                d
            } else if rl <= 100_000 {
                rl as usize
            } else {
                0
            }
        }
    };
    let mut aux = Vec::new();
    for (slot, v) in [a0, a1, a2].into_iter().enumerate() {
        if let Some(v) = v {
            aux.push((tagmode.tag(slot), v));
        }
    }
    let rec = GRec {
        name,
        flags,
        rid: rid.resolve(n_ref),
        pos,
        mapq,
        cigar,
        mrid: mrid.resolve(n_ref),
        mpos,
        tlen,
        seq: letters.make(n),
        qual: qual.make(n),
        aux,
    };
    Generated { rec, cigar_sel, base: base.label }
}

/// Two fixed, valid neighbours used to frame the generated record in multi-record files.
pub fn neighbours(n_ref: usize) -> (GRec, GRec) {
    let a = GRec {
        name: Some(b"first".to_vec()),
        flags: if n_ref > 0 { 0 } else { 4 },
        rid: if n_ref > 0 { Some(0) } else { None },
        pos: Some(7),
        mapq: 11,
        cigar: vec![(0, 3)],
        mrid: None,
        mpos: None,
        tlen: 0,
        seq: b"TGA".to_vec(),
        qual: vec![1, 2, 3],
        aux: vec![(*b"NM", GVal::U8(1))],
    };
    let b = GRec {
        name: Some(b"last".to_vec()),
        flags: 4,
        mapq: 255,
        seq: b"NN".to_vec(),
        aux: vec![(*b"XZ", GVal::Z(b"end".to_vec()))],
        ..Default::default()
    };
    (a, b)
}
