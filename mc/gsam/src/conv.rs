//! Model → noodles values (`build_*`) and noodles values → model (`view_*`).
//!
//! The views use only public accessors; the eager view uses `RecordBuf`'s inherent API, the lazy
//! view goes through the `sam::alignment::Record` trait (which `bam::Record` and `sam::Record`
//! implement by delegating to their lazy field views).

use std::io;

use bstr::BString;
use noodles_core::Position;
use noodles_sam::{
    self as sam,
    alignment::{
        RecordBuf,
        record::{
            Flags, MappingQuality,
            cigar::{Op, op::Kind},
            data::field::{Tag, Value as LVal, value::Array as LArr},
        },
        record_buf::{
            Cigar, Data, QualityScores, Sequence,
            data::field::{Value as BVal, value::Array as BArr},
        },
    },
};

use crate::model::{GHeader, GLine, GRec, GVal};

pub const KIND_TABLE: [Kind; 9] = [
    Kind::Match,
    Kind::Insertion,
    Kind::Deletion,
    Kind::Skip,
    Kind::SoftClip,
    Kind::HardClip,
    Kind::Pad,
    Kind::SequenceMatch,
    Kind::SequenceMismatch,
];

pub fn kind_code(k: Kind) -> u8 {
    match k {
        Kind::Match => 0,
        Kind::Insertion => 1,
        Kind::Deletion => 2,
        Kind::Skip => 3,
        Kind::SoftClip => 4,
        Kind::HardClip => 5,
        Kind::Pad => 6,
        Kind::SequenceMatch => 7,
        Kind::SequenceMismatch => 8,
    }
}

pub fn build_value(v: &GVal) -> BVal {
    match v {
        GVal::A(c) => BVal::Character(*c),
        GVal::I8(n) => BVal::Int8(*n),
        GVal::U8(n) => BVal::UInt8(*n),
        GVal::I16(n) => BVal::Int16(*n),
        GVal::U16(n) => BVal::UInt16(*n),
        GVal::I32(n) => BVal::Int32(*n),
        GVal::U32(n) => BVal::UInt32(*n),
        GVal::F(b) => BVal::Float(f32::from_bits(*b)),
        GVal::Z(s) => BVal::String(BString::from(s.clone())),
        GVal::H(s) => BVal::Hex(BString::from(s.clone())),
        GVal::BI8(v) => BVal::Array(BArr::Int8(v.clone())),
        GVal::BU8(v) => BVal::Array(BArr::UInt8(v.clone())),
        GVal::BI16(v) => BVal::Array(BArr::Int16(v.clone())),
        GVal::BU16(v) => BVal::Array(BArr::UInt16(v.clone())),
        GVal::BI32(v) => BVal::Array(BArr::Int32(v.clone())),
        GVal::BU32(v) => BVal::Array(BArr::UInt32(v.clone())),
        GVal::BF(v) => BVal::Array(BArr::Float(v.iter().map(|b| f32::from_bits(*b)).collect())),
        GVal::Int(n) => BVal::try_from(*n).expect("Int model value in range"),
    }
}

/// Builds the `RecordBuf` holding exactly the model record (duplicate tags: `Data` keeps one field
/// per tag, the later value in the earlier position — mirrored by [`dedup_aux`]).
pub fn build_record(g: &GRec) -> RecordBuf {
    let mut r = RecordBuf::default();
    *r.name_mut() = g.name.clone().map(BString::from);
    *r.flags_mut() = Flags::from(g.flags);
    *r.reference_sequence_id_mut() = g.rid;
    *r.alignment_start_mut() = g.pos.map(|p| Position::new(p as usize).expect("pos >= 1"));
    *r.mapping_quality_mut() = MappingQuality::new(g.mapq);
    let ops: Vec<Op> = g.cigar.iter().map(|(k, l)| Op::new(KIND_TABLE[*k as usize], *l as usize)).collect();
    *r.cigar_mut() = Cigar::from(ops);
    *r.mate_reference_sequence_id_mut() = g.mrid;
    *r.mate_alignment_start_mut() = g.mpos.map(|p| Position::new(p as usize).expect("mpos >= 1"));
    *r.template_length_mut() = g.tlen;
    *r.sequence_mut() = Sequence::from(g.seq.clone());
    *r.quality_scores_mut() = QualityScores::from(g.qual.clone());
    let data: Data = g.aux.iter().map(|(t, v)| (Tag::new(t[0], t[1]), build_value(v))).collect();
    *r.data_mut() = data;
    r
}

/// What a tag → value container makes of a field list with repeated tags.
pub fn dedup_aux(aux: &[([u8; 2], GVal)]) -> Vec<([u8; 2], GVal)> {
    let mut out: Vec<([u8; 2], GVal)> = Vec::new();
    for (t, v) in aux {
        if let Some(i) = out.iter().position(|(x, _)| x == t) {
            out[i].1 = v.clone();
        } else {
            out.push((*t, v.clone()));
        }
    }
    out
}

fn view_bval(v: &BVal) -> GVal {
    match v {
        BVal::Character(c) => GVal::A(*c),
        BVal::Int8(n) => GVal::I8(*n),
        BVal::UInt8(n) => GVal::U8(*n),
        BVal::Int16(n) => GVal::I16(*n),
        BVal::UInt16(n) => GVal::U16(*n),
        BVal::Int32(n) => GVal::I32(*n),
        BVal::UInt32(n) => GVal::U32(*n),
        BVal::Float(x) => GVal::F(x.to_bits()),
        BVal::String(s) => GVal::Z(s.to_vec()),
        BVal::Hex(s) => GVal::H(s.to_vec()),
        BVal::Array(a) => match a {
            BArr::Int8(v) => GVal::BI8(v.clone()),
            BArr::UInt8(v) => GVal::BU8(v.clone()),
            BArr::Int16(v) => GVal::BI16(v.clone()),
            BArr::UInt16(v) => GVal::BU16(v.clone()),
            BArr::Int32(v) => GVal::BI32(v.clone()),
            BArr::UInt32(v) => GVal::BU32(v.clone()),
            BArr::Float(v) => GVal::BF(v.iter().map(|x| x.to_bits()).collect()),
        },
    }
}

/// Eager view (inherent `RecordBuf` accessors).
pub fn view_buf(r: &RecordBuf) -> GRec {
    GRec {
        name: r.name().map(|n| n.to_vec()),
        flags: u16::from(r.flags()),
        rid: r.reference_sequence_id(),
        pos: r.alignment_start().map(|p| usize::from(p) as u64),
        mapq: r.mapping_quality().map(u8::from).unwrap_or(255),
        cigar: r.cigar().as_ref().iter().map(|op| (kind_code(op.kind()), op.len() as u64)).collect(),
        mrid: r.mate_reference_sequence_id(),
        mpos: r.mate_alignment_start().map(|p| usize::from(p) as u64),
        tlen: r.template_length(),
        seq: r.sequence().as_ref().to_vec(),
        qual: r.quality_scores().as_ref().to_vec(),
        aux: r.data().iter().map(|(t, v)| (<[u8; 2]>::from(t), view_bval(v))).collect(),
    }
}

const ITER_CAP: usize = 400_000;

fn collect_capped<T>(what: &str, it: impl Iterator<Item = io::Result<T>>) -> Result<Vec<T>, String> {
    let mut out = Vec::new();
    for (i, x) in it.enumerate() {
        if i > ITER_CAP {
            return Err(format!("{what}: iterator did not end after {ITER_CAP} items"));
        }
        out.push(x.map_err(|e| format!("{what}: {e}"))?);
    }
    Ok(out)
}

pub fn view_lval(v: &LVal<'_>) -> Result<GVal, String> {
    Ok(match v {
        LVal::Character(c) => GVal::A(*c),
        LVal::Int8(n) => GVal::I8(*n),
        LVal::UInt8(n) => GVal::U8(*n),
        LVal::Int16(n) => GVal::I16(*n),
        LVal::UInt16(n) => GVal::U16(*n),
        LVal::Int32(n) => GVal::I32(*n),
        LVal::UInt32(n) => GVal::U32(*n),
        LVal::Float(x) => GVal::F(x.to_bits()),
        LVal::String(s) => GVal::Z(s.to_vec()),
        LVal::Hex(s) => GVal::H(s.to_vec()),
        LVal::Array(a) => match a {
            LArr::Int8(v) => GVal::BI8(collect_capped("B:c", v.iter())?),
            LArr::UInt8(v) => GVal::BU8(collect_capped("B:C", v.iter())?),
            LArr::Int16(v) => GVal::BI16(collect_capped("B:s", v.iter())?),
            LArr::UInt16(v) => GVal::BU16(collect_capped("B:S", v.iter())?),
            LArr::Int32(v) => GVal::BI32(collect_capped("B:i", v.iter())?),
            LArr::UInt32(v) => GVal::BU32(collect_capped("B:I", v.iter())?),
            LArr::Float(v) => GVal::BF(collect_capped("B:f", v.iter())?.into_iter().map(|x| x.to_bits()).collect()),
        },
    })
}

/// Lazy view through the `sam::alignment::Record` trait. `Err((field, message))` names the accessor
/// that failed.
pub fn view_lazy(r: &dyn sam::alignment::Record, header: &sam::Header) -> Result<GRec, (String, String)> {
    let e = |f: &str| {
        let f = f.to_string();
        move |m: String| (f.clone(), m)
    };
    let ioe = |f: &str| {
        let f = f.to_string();
        move |m: io::Error| (f.clone(), m.to_string())
    };
    let mut g = GRec::default();
    g.name = r.name().map(|n| n.to_vec());
    g.flags = u16::from(r.flags().map_err(ioe("flags"))?);
    g.rid = r.reference_sequence_id(header).transpose().map_err(ioe("rid"))?;
    g.pos = r.alignment_start().transpose().map_err(ioe("pos"))?.map(|p| usize::from(p) as u64);
    g.mapq = r.mapping_quality().transpose().map_err(ioe("mapq"))?.map(u8::from).unwrap_or(255);
    {
        let c = r.cigar();
        let ops = collect_capped("cigar", c.iter()).map_err(e("cigar"))?;
        if ops.len() != c.len() {
            return Err(("cigar".into(), format!("len() = {} but iter() yields {} ops", c.len(), ops.len())));
        }
        if c.is_empty() != ops.is_empty() {
            return Err(("cigar".into(), "is_empty() disagrees with iter()".into()));
        }
        g.cigar = ops.iter().map(|op| (kind_code(op.kind()), op.len() as u64)).collect();
    }
    g.mrid = r.mate_reference_sequence_id(header).transpose().map_err(ioe("mrid"))?;
    g.mpos = r.mate_alignment_start().transpose().map_err(ioe("mpos"))?.map(|p| usize::from(p) as u64);
    g.tlen = r.template_length().map_err(ioe("tlen"))?;
    {
        let s = r.sequence();
        let mut v = Vec::with_capacity(s.len().min(ITER_CAP));
        for (i, b) in s.iter().enumerate() {
            if i > ITER_CAP {
                return Err(("seq".into(), "iterator did not end".into()));
            }
            v.push(b);
        }
        if v.len() != s.len() {
            return Err(("seq".into(), format!("len() = {} but iter() yields {} bases", s.len(), v.len())));
        }
        if s.is_empty() != v.is_empty() {
            return Err(("seq".into(), "is_empty() disagrees with iter()".into()));
        }
        // positional access at the ends and in the middle
        for i in [0usize, 1, v.len() / 2, v.len().saturating_sub(1)] {
            if s.get(i) != v.get(i).copied() {
                return Err(("seq".into(), format!("get({i}) = {:?} but iter() gave {:?}", s.get(i), v.get(i))));
            }
        }
        if s.get(v.len()).is_some() {
            return Err(("seq".into(), "get(len) is Some".into()));
        }
        g.seq = v;
    }
    {
        let q = r.quality_scores();
        let v = collect_capped("qual", q.iter()).map_err(e("qual"))?;
        if v.len() != q.len() {
            return Err(("qual".into(), format!("len() = {} but iter() yields {} scores", q.len(), v.len())));
        }
        if q.is_empty() != v.is_empty() {
            return Err(("qual".into(), "is_empty() disagrees with iter()".into()));
        }
        g.qual = v;
    }
    {
        let d = r.data();
        let mut n = 0usize;
        for x in d.iter() {
            n += 1;
            if n > ITER_CAP {
                return Err(("aux".into(), "iterator did not end".into()));
            }
            let (t, v) = x.map_err(ioe("aux"))?;
            let gv = view_lval(&v).map_err(e("aux"))?;
            g.aux.push((<[u8; 2]>::from(t), gv));
        }
        if d.is_empty() != g.aux.is_empty() {
            return Err(("aux".into(), "is_empty() disagrees with iter()".into()));
        }
        // keyed access must agree with iteration (first field of that tag)
        for (t, v) in &g.aux {
            let first = g.aux.iter().find(|(x, _)| x == t).map(|(_, v)| v).unwrap();
            if first != v {
                continue;
            }
            match d.get(&Tag::new(t[0], t[1])) {
                None => return Err(("aux".into(), format!("get({}) is None but iter() lists the tag", crate::model::esc(t)))),
                Some(Err(x)) => return Err(("aux".into(), format!("get({}): {x}", crate::model::esc(t)))),
                Some(Ok(lv)) => {
                    let got = view_lval(&lv).map_err(e("aux"))?;
                    if &got != v {
                        return Err((
                            "aux".into(),
                            format!("get({}) = {} but iter() gave {}", crate::model::esc(t), got.render(), v.render()),
                        ));
                    }
                }
            }
        }
        if d.get(&Tag::new(b'z', b'9')).is_some() && !g.aux.iter().any(|(t, _)| t == b"z9") {
            return Err(("aux".into(), "get(z9) is Some for an absent tag".into()));
        }
    }
    Ok(g)
}

// ------------------------------------------------------------------------------------------------
// headers

/// Canonical view of a `sam::Header` (kinds in the order HD, SQ, RG, PG, CO; identifying tags
/// first, then the other fields in container order).
pub fn view_header(h: &sam::Header) -> GHeader {
    let mut lines = Vec::new();
    let tv = |t: &[u8; 2], v: &[u8]| (*t, v.to_vec());
    if let Some(hd) = h.header() {
        let v = hd.version();
        let mut fields = vec![(*b"VN", format!("{}.{}", v.major(), v.minor()).into_bytes())];
        for (t, v) in hd.other_fields() {
            fields.push(tv(t.as_ref(), v));
        }
        lines.push(GLine::Map { kind: *b"HD", fields });
    }
    for (name, sq) in h.reference_sequences() {
        let mut fields = vec![(*b"SN", name.to_vec()), (*b"LN", usize::from(sq.length()).to_string().into_bytes())];
        for (t, v) in sq.other_fields() {
            fields.push(tv(t.as_ref(), v));
        }
        lines.push(GLine::Map { kind: *b"SQ", fields });
    }
    for (id, rg) in h.read_groups() {
        let mut fields = vec![(*b"ID", id.to_vec())];
        for (t, v) in rg.other_fields() {
            fields.push(tv(t.as_ref(), v));
        }
        lines.push(GLine::Map { kind: *b"RG", fields });
    }
    for (id, pg) in h.programs().as_ref() {
        let mut fields = vec![(*b"ID", id.to_vec())];
        for (t, v) in pg.other_fields() {
            fields.push(tv(t.as_ref(), v));
        }
        lines.push(GLine::Map { kind: *b"PG", fields });
    }
    for c in h.comments() {
        lines.push(GLine::Co(c.to_vec()));
    }
    GHeader { lines }
}

/// Parses header text with noodles' SAM reader (which stops at the first non-`@` line).
pub fn parse_header_text(text: &[u8]) -> io::Result<sam::Header> {
    let mut r = sam::io::Reader::new(text);
    r.read_header()
}

/// Builds a header through the typed API (no parser involved). Only standard shapes: `VN`, `SN`/`LN`,
/// `ID`, and string-valued other fields.
pub fn build_header_api(g: &GHeader) -> Result<sam::Header, String> {
    use sam::header::record::value::{
        Map,
        map::{Header as HHd, Program, ReadGroup, ReferenceSequence, header::Version, tag::Other},
    };
    use std::num::NonZero;
    let mut h = sam::Header::default();
    fn other<S: sam::header::record::value::map::tag::Standard>(t: &[u8; 2]) -> Result<Other<S>, String> {
        Other::try_from(*t).map_err(|_| format!("{} is a standard tag", String::from_utf8_lossy(t)))
    }
    for l in &g.lines {
        match l {
            GLine::Co(c) => h.add_comment(BString::from(c.clone())),
            GLine::Map { kind, fields } => match kind {
                b"HD" => {
                    let vn = l.get(b"VN").ok_or("HD without VN")?;
                    let s = std::str::from_utf8(vn).map_err(|e| e.to_string())?;
                    let (a, b) = s.split_once('.').ok_or("VN")?;
                    let v = Version::new(a.parse().map_err(|_| "VN")?, b.parse().map_err(|_| "VN")?);
                    let mut m = Map::<HHd>::new(v);
                    for (t, v) in fields.iter().filter(|(t, _)| t != b"VN") {
                        m.other_fields_mut().insert(other(t)?, BString::from(v.clone()));
                    }
                    *h.header_mut() = Some(m);
                }
                b"SQ" => {
                    let sn = l.get(b"SN").ok_or("SQ without SN")?;
                    let ln: usize = std::str::from_utf8(l.get(b"LN").ok_or("SQ without LN")?)
                        .map_err(|e| e.to_string())?
                        .parse()
                        .map_err(|_| "LN")?;
                    let mut m = Map::<ReferenceSequence>::new(NonZero::new(ln).ok_or("LN:0")?);
                    for (t, v) in fields.iter().filter(|(t, _)| t != b"SN" && t != b"LN") {
                        m.other_fields_mut().insert(other(t)?, BString::from(v.clone()));
                    }
                    h.reference_sequences_mut().insert(BString::from(sn.to_vec()), m);
                }
                b"RG" => {
                    let id = l.get(b"ID").ok_or("RG without ID")?;
                    let mut m = Map::<ReadGroup>::default();
                    for (t, v) in fields.iter().filter(|(t, _)| t != b"ID") {
                        m.other_fields_mut().insert(other(t)?, BString::from(v.clone()));
                    }
                    h.read_groups_mut().insert(BString::from(id.to_vec()), m);
                }
                b"PG" => {
                    let id = l.get(b"ID").ok_or("PG without ID")?;
                    let mut m = Map::<Program>::default();
                    for (t, v) in fields.iter().filter(|(t, _)| t != b"ID") {
                        m.other_fields_mut().insert(other(t)?, BString::from(v.clone()));
                    }
                    h.programs_mut().as_mut().insert(BString::from(id.to_vec()), m);
                }
                _ => return Err("unknown kind".into()),
            },
        }
    }
    Ok(h)
}
