//! Spec-level expectations: which records a BAM / SAM writer must accept, must reject, or may do
//! either with, and the normalisations the formats prescribe. Written from SAMv1 (§1.4, §1.5, §4.2);
//! no noodles code.

use crate::model::{GRec, GVal};

/// What the property statement allows a writer to do with a record.
#[derive(Clone, Debug, PartialEq, Eq)]
pub enum Expect {
    /// Valid and representable: the writer must accept it and the round trip must be exact.
    Accept,
    /// Not representable in the target fields ("does not fit"): `Err` required, `Ok` is a violation.
    Reject(&'static str),
    /// Outside the SAM data model but physically writable, or unclear in the statement: `Err` is
    /// fine, `Ok` must round-trip exactly.
    Either(&'static str),
    /// A format-level ambiguity (e.g. QUAL `*`): the outcome is observed but not judged.
    Ambiguous(&'static str),
}

impl Expect {
    pub fn class(&self) -> &'static str {
        match self {
            Expect::Accept => "accept",
            Expect::Reject(_) => "reject",
            Expect::Either(_) => "either",
            Expect::Ambiguous(_) => "ambiguous",
        }
    }
    pub fn why(&self) -> &'static str {
        match self {
            Expect::Accept => "valid",
            Expect::Reject(w) | Expect::Either(w) | Expect::Ambiguous(w) => w,
        }
    }
}

fn name_invalid(n: &[u8]) -> bool {
    // [!-?A-~]{1,254}
    n.is_empty() || n.len() > 254 || n == b"*" || n.iter().any(|&b| !(b'!'..=b'~').contains(&b) || b == b'@')
}

fn tag_invalid(t: &[u8; 2]) -> bool {
    !(t[0].is_ascii_alphabetic() && t[1].is_ascii_alphanumeric())
}

fn val_invalid(v: &GVal) -> Option<&'static str> {
    match v {
        GVal::A(c) if !(b'!'..=b'~').contains(c) => Some("aux-A-not-graphic"),
        GVal::Z(s) if s.iter().any(|c| !(b' '..=b'~').contains(c)) => Some("aux-Z-not-printable"),
        GVal::H(s) if s.len() % 2 != 0 || s.iter().any(|c| !matches!(c, b'0'..=b'9' | b'A'..=b'F')) => Some("aux-H-invalid"),
        _ => None,
    }
}

/// BAM (SAMv1 §4.2). `n_ref` is the size of the reference dictionary written to the file.
pub fn expect_bam(g: &GRec, n_ref: usize) -> Expect {
    // --- does not fit its BAM field -------------------------------------------------------------
    if let Some(n) = &g.name {
        if n.len() + 1 > 255 {
            return Expect::Reject("name-length>254");
        }
    }
    for (w, p) in [("pos", g.pos), ("mpos", g.mpos)] {
        if let Some(p) = p {
            if p - 1 > i32::MAX as u64 {
                return Expect::Reject(if w == "pos" { "pos>2^31" } else { "mpos>2^31" });
            }
        }
    }
    if g.cigar.iter().any(|(_, l)| *l >= 1 << 28) {
        return Expect::Reject("cigar-op-length>=2^28");
    }
    if !g.qual.is_empty() && g.qual.len() != g.seq.len() {
        return Expect::Reject("qual-length!=seq-length");
    }
    // --- invalid in the SAM data model but physically writable -----------------------------------
    if let Some(n) = &g.name {
        if name_invalid(n) {
            return Expect::Either("name-invalid");
        }
    }
    if g.rid.is_some_and(|r| r >= n_ref) || g.mrid.is_some_and(|r| r >= n_ref) {
        return Expect::Either("ref-id>=n_ref");
    }
    if g.qual.iter().any(|&q| q > 93) {
        return Expect::Either("qual>93");
    }
    let rl = g.read_len();
    if rl > 0 && !g.seq.is_empty() && rl != g.seq.len() as u64 {
        return Expect::Either("cigar-read-length!=seq-length");
    }
    for (t, v) in &g.aux {
        if tag_invalid(t) {
            return Expect::Either("aux-tag-invalid");
        }
        if t == b"CG" {
            return Expect::Ambiguous("aux-CG-reserved");
        }
        if let Some(w) = val_invalid(v) {
            return Expect::Either(w);
        }
    }
    Expect::Accept
}

/// SAM text (SAMv1 §1.4, §1.5). Nothing "must be rejected" by the C06 statement, so invalid values
/// are `Either`.
pub fn expect_sam(g: &GRec, n_ref: usize) -> Expect {
    if g.seq.len() == 1 && g.qual == [9] {
        return Expect::Ambiguous("qual-is-literally-*");
    }
    if let Some(n) = &g.name {
        if name_invalid(n) {
            return Expect::Either("name-invalid");
        }
    }
    if g.rid.is_some_and(|r| r >= n_ref) || g.mrid.is_some_and(|r| r >= n_ref) {
        return Expect::Either("ref-id>=n_ref");
    }
    if g.pos.is_some_and(|p| p > (1 << 31) - 1) || g.mpos.is_some_and(|p| p > (1 << 31) - 1) {
        return Expect::Either("pos>2^31-1");
    }
    if g.tlen == i32::MIN {
        return Expect::Either("tlen=-2^31");
    }
    if g.cigar.iter().any(|(_, l)| *l >= 1 << 28) {
        return Expect::Either("cigar-op-length>=2^28");
    }
    if g.seq.iter().any(|b| !matches!(b, b'A'..=b'Z' | b'a'..=b'z' | b'=' | b'.')) {
        return Expect::Either("seq-char-invalid");
    }
    if !g.qual.is_empty() && g.qual.len() != g.seq.len() {
        return Expect::Either("qual-length!=seq-length");
    }
    if g.qual.iter().any(|&q| q > 93) {
        return Expect::Either("qual>93");
    }
    let rl = g.read_len();
    if rl > 0 && !g.seq.is_empty() && rl != g.seq.len() as u64 {
        return Expect::Either("cigar-read-length!=seq-length");
    }
    for (t, v) in &g.aux {
        if tag_invalid(t) {
            return Expect::Either("aux-tag-invalid");
        }
        if t == b"CG" {
            return Expect::Ambiguous("aux-CG-reserved");
        }
        if let Some(w) = val_invalid(v) {
            return Expect::Either(w);
        }
        if v.has_nan() {
            return Expect::Ambiguous("aux-float-NaN");
        }
        if v.has_nonfinite() {
            return Expect::Either("aux-float-not-finite");
        }
    }
    Expect::Accept
}

/// SAMv1 §4.2.3: bases are stored case-insensitively; everything outside `=ACMGRSVTWYHKDBN` is `N`.
pub fn fold_base_bam(b: u8) -> u8 {
    let u = b.to_ascii_uppercase();
    if b"=ACMGRSVTWYHKDBN".contains(&u) { u } else { b'N' }
}

/// The record as BAM is specified to give it back.
pub fn norm_bam(g: &GRec) -> GRec {
    let mut n = g.clone();
    for b in &mut n.seq {
        *b = fold_base_bam(*b);
    }
    n
}

/// SAM text does not carry the storage width of integer fields: compare them numerically.
pub fn norm_sam(g: &GRec) -> GRec {
    let mut n = g.clone();
    for (_, v) in &mut n.aux {
        if let Some(i) = v.as_int() {
            *v = GVal::Int(i);
        }
    }
    n
}

/// Both (for SAM ≡ BAM comparisons).
pub fn norm_both(g: &GRec) -> GRec {
    norm_sam(&norm_bam(g))
}
