//! Independent, naive SAM text parser (SAMv1 §1.3–§1.5) used as a second opinion on what noodles
//! writes. No noodles code; numbers are parsed with Rust's `str::parse`.

use crate::model::{GHeader, GLine, GRec, GVal, KINDS};

fn utf8(b: &[u8]) -> Result<&str, String> {
    std::str::from_utf8(b).map_err(|e| e.to_string())
}

fn num<T: std::str::FromStr>(b: &[u8], what: &str) -> Result<T, String> {
    utf8(b)?.parse::<T>().map_err(|_| format!("{what}: cannot parse {:?}", String::from_utf8_lossy(b)))
}

fn list<T: std::str::FromStr>(b: &[u8], what: &str) -> Result<Vec<T>, String> {
    // `b` is everything after the subtype letter: "" or ",v,v…"
    if b.is_empty() {
        return Ok(vec![]);
    }
    if b[0] != b',' {
        return Err(format!("{what}: expected ',' after subtype"));
    }
    b[1..].split(|&c| c == b',').map(|x| num::<T>(x, what)).collect()
}

pub fn parse_aux_field(f: &[u8]) -> Result<([u8; 2], GVal), String> {
    if f.len() < 5 || f[2] != b':' || f[4] != b':' {
        return Err(format!("aux field {:?} is not TAG:TYPE:VALUE", String::from_utf8_lossy(f)));
    }
    let tag = [f[0], f[1]];
    let v = &f[5..];
    let val = match f[3] {
        b'A' => {
            if v.len() != 1 {
                return Err("A value is not one character".into());
            }
            GVal::A(v[0])
        }
        b'i' => GVal::Int(num::<i64>(v, "i")?),
        b'f' => GVal::F(num::<f32>(v, "f")?.to_bits()),
        b'Z' => GVal::Z(v.to_vec()),
        b'H' => GVal::H(v.to_vec()),
        b'B' => {
            if v.is_empty() {
                return Err("B without subtype".into());
            }
            let rest = &v[1..];
            match v[0] {
                b'c' => GVal::BI8(list(rest, "B:c")?),
                b'C' => GVal::BU8(list(rest, "B:C")?),
                b's' => GVal::BI16(list(rest, "B:s")?),
                b'S' => GVal::BU16(list(rest, "B:S")?),
                b'i' => GVal::BI32(list(rest, "B:i")?),
                b'I' => GVal::BU32(list(rest, "B:I")?),
                b'f' => GVal::BF(list::<f32>(rest, "B:f")?.into_iter().map(|x| x.to_bits()).collect()),
                x => return Err(format!("B subtype {:?}", x as char)),
            }
        }
        x => return Err(format!("aux type {:?}", x as char)),
    };
    Ok((tag, val))
}

pub fn parse_cigar(b: &[u8]) -> Result<Vec<(u8, u64)>, String> {
    if b == b"*" {
        return Ok(vec![]);
    }
    let mut out = Vec::new();
    let mut n: Option<u64> = None;
    for &c in b {
        if c.is_ascii_digit() {
            n = Some(n.unwrap_or(0).checked_mul(10).and_then(|x| x.checked_add((c - b'0') as u64)).ok_or("cigar length overflow")?);
        } else {
            let k = KINDS.iter().position(|&k| k == c).ok_or_else(|| format!("cigar op {:?}", c as char))?;
            out.push((k as u8, n.take().ok_or("cigar op without length")?));
        }
    }
    if n.is_some() {
        return Err("cigar ends in digits".into());
    }
    Ok(out)
}

/// Parses one alignment line (without the trailing newline).
pub fn parse_record_line(line: &[u8], ref_names: &[Vec<u8>]) -> Result<GRec, String> {
    let f: Vec<&[u8]> = line.split(|&c| c == b'\t').collect();
    if f.len() < 11 {
        return Err(format!("{} columns", f.len()));
    }
    let rname = |b: &[u8], what: &str| -> Result<Option<usize>, String> {
        if b == b"*" {
            return Ok(None);
        }
        ref_names
            .iter()
            .position(|n| n == b)
            .map(Some)
            .ok_or_else(|| format!("{what} {:?} not in the dictionary", String::from_utf8_lossy(b)))
    };
    let mut g = GRec::default();
    g.name = if f[0] == b"*" { None } else { Some(f[0].to_vec()) };
    g.flags = num::<u16>(f[1], "FLAG")?;
    g.rid = rname(f[2], "RNAME")?;
    g.pos = match num::<u64>(f[3], "POS")? {
        0 => None,
        n => Some(n),
    };
    g.mapq = num::<u8>(f[4], "MAPQ")?;
    g.cigar = parse_cigar(f[5])?;
    g.mrid = if f[6] == b"=" { g.rid } else { rname(f[6], "RNEXT")? };
    g.mpos = match num::<u64>(f[7], "PNEXT")? {
        0 => None,
        n => Some(n),
    };
    g.tlen = num::<i32>(f[8], "TLEN")?;
    g.seq = if f[9] == b"*" { vec![] } else { f[9].to_vec() };
    g.qual = if f[10] == b"*" {
        vec![]
    } else {
        let mut q = Vec::with_capacity(f[10].len());
        for &c in f[10] {
            if !(b'!'..=b'~').contains(&c) {
                return Err(format!("QUAL byte {c:#x}"));
            }
            q.push(c - 33);
        }
        q
    };
    for x in &f[11..] {
        g.aux.push(parse_aux_field(x)?);
    }
    Ok(g)
}

/// Splits SAM text into header lines (file order) and alignment lines.
pub fn split_file(text: &[u8]) -> Result<(GHeader, Vec<Vec<u8>>), String> {
    let mut lines = Vec::new();
    let mut recs = Vec::new();
    if !text.is_empty() && text.last() != Some(&b'\n') {
        return Err("text does not end with a newline".into());
    }
    let body = if text.is_empty() { text } else { &text[..text.len() - 1] };
    let mut in_header = true;
    if text.is_empty() {
        return Ok((GHeader::default(), recs));
    }
    for l in body.split(|&c| c == b'\n') {
        if in_header && l.first() == Some(&b'@') {
            if l.len() < 3 {
                return Err("short header line".into());
            }
            let kind = [l[1], l[2]];
            if &kind == b"CO" {
                if l.get(3) != Some(&b'\t') {
                    return Err("@CO without tab".into());
                }
                lines.push(GLine::Co(l[4..].to_vec()));
            } else {
                let mut fields = Vec::new();
                for f in l[3..].split(|&c| c == b'\t').skip(1) {
                    if f.len() < 3 || f[2] != b':' {
                        return Err(format!("header field {:?}", String::from_utf8_lossy(f)));
                    }
                    fields.push(([f[0], f[1]], f[3..].to_vec()));
                }
                if l.len() > 3 && l[3] != b'\t' {
                    return Err("header kind not followed by tab".into());
                }
                lines.push(GLine::Map { kind, fields });
            }
        } else {
            in_header = false;
            recs.push(l.to_vec());
        }
    }
    Ok((GHeader { lines }, recs))
}
