//! Re-writing lazily read `bam::Record`s: the three ways a lazy record reaches a BAM writer —
//! `Writer::write_record(&bam::Record)`, `write_alignment_record(&lazy)` and
//! `write_alignment_record(&RecordBuf::try_from_alignment_record(&lazy))` — must agree with each other
//! (same `Ok`/`Err`, and when `Ok` the same bytes, `bin` included), for records read from
//! noodles-written files and from foreign bytes (stale `bin`, reference ids beyond the destination
//! header); and what is written must decode to the record that was read.

use std::io;

use noodles_bam as bam;
use noodles_sam::{
    self as sam,
    alignment::{RecordBuf, io::Write as _},
};

use crate::{
    conv::build_record,
    io::{Container, write_bam},
    model::{GHeader, GLine, GRec, diff},
    rawbam::{self, RawRec},
    reuse,
    spec::norm_bam,
};

/// A header with `n` references `sq0..`.
pub fn header_with_refs(n: usize) -> (GHeader, sam::Header) {
    let mut lines = vec![GLine::map("HD", &[("VN", "1.6")])];
    for i in 0..n {
        lines.push(GLine::map("SQ", &[("SN", &format!("sq{i}")), ("LN", &format!("{}", 100_000 + i))]));
    }
    let g = GHeader { lines };
    let h = crate::conv::parse_header_text(&g.to_text()).expect("header parses");
    (g, h)
}

/// Records of the source file (its header has 5 references).
pub fn source_records(with_long: bool) -> Vec<(&'static str, GRec)> {
    let f = reuse::full();
    let set = reuse::record_set();
    let pick = |l: &str| set.iter().find(|(x, _)| *x == l).map(|(_, r)| r.clone()).expect("reuse record");
    let mut v = vec![
        ("full(ref 2, mate ref 0)", f.clone()),
        ("empty", pick("empty")),
        ("no-cigar", pick("no-cigar")),
        ("shorter", pick("shorter")),
        ("longer", pick("longer")),
        ("on-last-ref(4)", GRec { rid: Some(4), mrid: Some(4), ..f.clone() }),
        ("mate-on-last-ref(4)", GRec { rid: Some(0), mrid: Some(4), ..f.clone() }),
        ("unmapped-placed-on-ref-3", GRec { flags: 0x4 | 0x1, rid: Some(3), pos: Some(77), mapq: 255, cigar: vec![], mrid: Some(3), mpos: Some(77), ..f.clone() }),
        ("pos-2^29+5", GRec { pos: Some((1 << 29) + 5), ..f.clone() }),
    ];
    if with_long {
        // > 65535 ops: the lazy CIGAR comes from the CG tag
        let cigar: Vec<(u8, u64)> = (0..65536).map(|i| (if i % 2 == 0 { 0 } else { 2 }, 1)).collect();
        v.push((
            "65536-ops",
            GRec { cigar, seq: (0..32768).map(|i| b"ACGT"[i % 4]).collect(), qual: vec![], aux: vec![(*b"XA", crate::model::GVal::U8(1))], ..f.clone() },
        ));
    }
    v
}

/// What was done to the stored `bin` of every record of the source file.
#[derive(Clone, Copy, Debug, PartialEq)]
pub enum Source {
    /// exactly what noodles wrote
    Own,
    /// `bin = 0` (left unset by the producer)
    BinZero,
    /// a stale value
    BinWrong,
    /// hand-built > 65535-op records whose `CG` field is first / in the middle / last among the aux
    /// fields (the format does not say where `CG` goes; noodles and htslib append it)
    AuxOrder,
}

impl Source {
    pub fn name(self) -> &'static str {
        match self {
            Source::Own => "noodles-written",
            Source::BinZero => "foreign(bin=0)",
            Source::BinWrong => "foreign(bin-stale)",
            Source::AuxOrder => "foreign(aux-order)",
        }
    }
}

/// The source file: a raw BAM stream; returns the bytes and the offset of every record body.
pub fn source_file(header: &sam::Header, recs: &[GRec], source: Source) -> Result<Vec<u8>, String> {
    let bufs: Vec<RecordBuf> = recs.iter().map(build_record).collect();
    let dynr: Vec<&dyn sam::alignment::Record> = bufs.iter().map(|r| r as &dyn sam::alignment::Record).collect();
    let mut bytes = write_bam(header, &dynr, Container::Raw).map_err(|e| format!("{}: {}", e.step, e.err))?;
    if source == Source::Own || source == Source::AuxOrder {
        return Ok(bytes);
    }
    // walk the stream by hand and patch the bin field (offset 10..12 of each record body)
    let l_text = u32::from_le_bytes(bytes[4..8].try_into().unwrap()) as usize;
    let mut p = 8 + l_text;
    let n_ref = u32::from_le_bytes(bytes[p..p + 4].try_into().unwrap()) as usize;
    p += 4;
    for _ in 0..n_ref {
        let l_name = u32::from_le_bytes(bytes[p..p + 4].try_into().unwrap()) as usize;
        p += 4 + l_name + 4;
    }
    while p < bytes.len() {
        let bs = u32::from_le_bytes(bytes[p..p + 4].try_into().unwrap()) as usize;
        let body = p + 4;
        let old = u16::from_le_bytes(bytes[body + 10..body + 12].try_into().unwrap());
        let new = match source {
            Source::BinZero => 0,
            _ => old ^ 0x1235,
        };
        bytes[body + 10..body + 12].copy_from_slice(&new.to_le_bytes());
        p = body + bs;
    }
    Ok(bytes)
}

pub fn read_lazy(bytes: &[u8]) -> io::Result<Vec<bam::Record>> {
    let mut r = bam::io::Reader::from(bytes);
    r.read_header()?;
    let mut out = Vec::new();
    loop {
        let mut rec = bam::Record::default();
        if r.read_record(&mut rec)? == 0 {
            break;
        }
        out.push(rec);
        if out.len() > 64 {
            return Err(io::Error::other("no EOF"));
        }
    }
    Ok(out)
}

#[derive(Clone, Copy, Debug, PartialEq)]
pub enum Entry {
    /// `bam::io::Writer::write_record(&header, &bam::Record)`
    WriteRecord,
    /// `write_alignment_record(&header, &lazy)`
    WriteAlignmentLazy,
    /// `write_alignment_record(&header, &RecordBuf::try_from_alignment_record(&header, &lazy)?)`
    WriteAlignmentBuf,
}

impl Entry {
    pub fn name(self) -> &'static str {
        match self {
            Entry::WriteRecord => "write_record(lazy)",
            Entry::WriteAlignmentLazy => "write_alignment_record(lazy)",
            Entry::WriteAlignmentBuf => "write_alignment_record(RecordBuf::try_from(lazy))",
        }
    }
}

/// The record bytes (block size + body) one entry point produces into a fresh writer with `dst`.
pub fn write_one(entry: Entry, dst: &sam::Header, lazy: &bam::Record) -> io::Result<Vec<u8>> {
    let mut w = bam::io::Writer::from(Vec::new());
    w.write_header(dst)?;
    let head = w.get_ref().len();
    match entry {
        Entry::WriteRecord => w.write_record(dst, lazy)?,
        Entry::WriteAlignmentLazy => w.write_alignment_record(dst, lazy)?,
        Entry::WriteAlignmentBuf => {
            let buf = RecordBuf::try_from_alignment_record(dst, lazy)?;
            w.write_alignment_record(dst, &buf)?
        }
    }
    Ok(w.into_inner()[head..].to_vec())
}

#[derive(Debug)]
pub struct Fail {
    /// class-level: which comparison / entry point
    pub what: String,
    pub field: String,
    pub expected: String,
    pub observed: String,
}

fn raw_of(bytes: &[u8]) -> Result<RawRec, String> {
    if bytes.len() < 4 {
        return Err("no block size".into());
    }
    let bs = u32::from_le_bytes(bytes[..4].try_into().unwrap()) as usize;
    if bytes.len() != 4 + bs {
        return Err(format!("block_size {bs} but {} bytes follow", bytes.len() - 4));
    }
    rawbam::parse_record(&bytes[4..])
}

/// Names the first raw field in which two encoded records differ.
fn raw_diff(a: &[u8], b: &[u8]) -> String {
    match (raw_of(a), raw_of(b)) {
        (Ok(x), Ok(y)) => {
            macro_rules! f {
                ($n:ident) => {
                    if x.$n != y.$n {
                        return format!("{}: {:?} vs {:?}", stringify!($n), x.$n, y.$n);
                    }
                };
            }
            f!(block_size);
            f!(ref_id);
            f!(pos);
            f!(l_read_name);
            f!(mapq);
            f!(bin);
            f!(n_cigar_op);
            f!(flag);
            f!(l_seq);
            f!(next_ref_id);
            f!(next_pos);
            f!(tlen);
            f!(read_name);
            if x.cigar != y.cigar {
                return "cigar".into();
            }
            if x.seq != y.seq {
                return "seq".into();
            }
            if x.qual != y.qual {
                return "qual".into();
            }
            let cg = |r: &RawRec| r.aux.iter().filter(|(t, _)| t == b"CG").count();
            if cg(&x) != cg(&y) {
                return format!("aux-CG-count: {} vs {}", cg(&x), cg(&y));
            }
            "aux".into()
        }
        (Err(e), _) | (_, Err(e)) => format!("layout: {e}"),
    }
}

/// Checks one lazy record against one destination header. `want` is the model of the record,
/// `n_dst` the destination's dictionary size. Returns how many entry points accepted it.
pub fn check_one(lazy: &bam::Record, want: &GRec, dst: &sam::Header, n_dst: usize) -> Result<usize, Fail> {
    check_one_with(lazy, want, dst, n_dst, false)
}

/// `aux_as_map`: compare the aux fields as a tag -> value map (resolving `CG` may reorder fields).
pub fn check_one_with(lazy: &bam::Record, want: &GRec, dst: &sam::Header, n_dst: usize, aux_as_map: bool) -> Result<usize, Fail> {
    let sort = |mut g: GRec| {
        if aux_as_map {
            g.aux.sort_by(|a, b| a.0.cmp(&b.0));
        }
        g
    };
    let outs: Vec<(Entry, io::Result<Vec<u8>>)> =
        [Entry::WriteRecord, Entry::WriteAlignmentLazy, Entry::WriteAlignmentBuf].into_iter().map(|e| (e, write_one(e, dst, lazy))).collect();
    // (1) every accepted output is a well-formed record that decodes to the record that was read
    let fits = want.rid.is_none_or(|r| r < n_dst) && want.mrid.is_none_or(|r| r < n_dst);
    for (e, o) in &outs {
        match o {
            Ok(bytes) => {
                let raw = raw_of(bytes).map_err(|m| Fail { what: format!("entry={}", e.name()), field: "layout".into(), expected: "one length-prefixed record".into(), observed: m })?;
                let (d, _) = raw.decode().map_err(|m| Fail { what: format!("entry={}", e.name()), field: "record".into(), expected: "decodable by SAMv1 §4.2".into(), observed: m })?;
                if let Some((f, a, b)) = diff(&sort(norm_bam(want)), &sort(d)) {
                    return Err(Fail { what: format!("entry={} symptom=output-differs-from-record", e.name()), field: f, expected: a, observed: b });
                }
            }
            Err(err) => {
                if fits {
                    return Err(Fail {
                        what: format!("entry={} symptom=valid-record-rejected", e.name()),
                        field: "record".into(),
                        expected: "Ok (the record and its reference ids are valid for the destination header)".into(),
                        observed: format!("Err({err})"),
                    });
                }
            }
        }
    }
    // (2) the three entry points agree
    let (e0, o0) = &outs[1]; // write_alignment_record(lazy) is the reference of the comparison
    for (e, o) in [&outs[0], &outs[2]] {
        let pair = format!("pair={}~{}", e.name(), e0.name());
        match (o, o0) {
            (Ok(a), Ok(b)) => {
                if a != b {
                    let d = raw_diff(a, b);
                    let field = d.split(':').next().unwrap_or("?").to_string();
                    return Err(Fail { what: format!("{pair} symptom=bytes-differ"), field, expected: format!("identical record bytes ({} bytes)", b.len()), observed: d });
                }
            }
            (Err(_), Err(_)) => {}
            (a, b) => {
                let s = |x: &io::Result<Vec<u8>>| match x {
                    Ok(v) => format!("Ok({} bytes)", v.len()),
                    Err(e) => format!("Err({e})"),
                };
                return Err(Fail {
                    what: format!("{pair} symptom=ok-err-differs"),
                    field: if fits { "record".into() } else { "ref-id-beyond-destination-header".into() },
                    expected: format!("{}: {}", e0.name(), s(b)),
                    observed: format!("{}: {}", e.name(), s(a)),
                });
            }
        }
    }
    Ok(outs.iter().filter(|(_, o)| o.is_ok()).count())
}

fn encode_aux(tag: &[u8; 2], v: &crate::model::GVal) -> Vec<u8> {
    use crate::model::GVal::*;
    let mut o = tag.to_vec();
    match v {
        A(c) => o.extend([b'A', *c]),
        I8(n) => o.extend([b'c', *n as u8]),
        U8(n) => o.extend([b'C', *n]),
        I16(n) => {
            o.push(b's');
            o.extend(n.to_le_bytes())
        }
        U16(n) => {
            o.push(b'S');
            o.extend(n.to_le_bytes())
        }
        I32(n) => {
            o.push(b'i');
            o.extend(n.to_le_bytes())
        }
        U32(n) => {
            o.push(b'I');
            o.extend(n.to_le_bytes())
        }
        Z(s) => {
            o.push(b'Z');
            o.extend(s);
            o.push(0)
        }
        BU16(a) => {
            o.extend([b'B', b'S']);
            o.extend((a.len() as u32).to_le_bytes());
            for x in a {
                o.extend(x.to_le_bytes());
            }
        }
        BU32(a) => {
            o.extend([b'B', b'I']);
            o.extend((a.len() as u32).to_le_bytes());
            for x in a {
                o.extend(x.to_le_bytes());
            }
        }
        other => panic!("encode_aux: {} not needed by the harness", other.type_code()),
    }
    o
}

/// A raw BAM stream (header `header`) holding hand-built variants of one 65536-op record that differ in
/// where `CG` sits among the aux fields. Returns the bytes and (label, model) per record.
pub fn aux_order_file(header: &sam::Header) -> Result<(Vec<u8>, Vec<(&'static str, GRec)>), String> {
    use crate::model::GVal;
    let long = source_records(true).into_iter().find(|(l, _)| *l == "65536-ops").ok_or("no long record")?.1;
    let base = GRec { aux: vec![], ..long };
    let own = source_file(header, std::slice::from_ref(&base), Source::Own)?;
    let head_len = source_file(header, &[], Source::Own)?.len();
    let body = &own[head_len + 4..];
    let raw = rawbam::parse_record(body)?;
    let aux_off = 32 + raw.l_read_name as usize + 4 * raw.n_cigar_op as usize + (raw.l_seq as usize).div_ceil(2) + raw.l_seq as usize;
    let (prefix, cg) = body.split_at(aux_off);
    if cg.get(..4) != Some(b"CGBI") {
        return Err("the noodles-written long record does not end in CG:B,I".into());
    }
    let nh = (*b"NH", GVal::U8(1));
    let rg = (*b"RG", GVal::Z(b"rg0".to_vec()));
    let xs = (*b"XS", GVal::I32(-5));
    let xb = (*b"XB", GVal::BU16(vec![1, 2, 65535]));
    let variants: Vec<(&'static str, Vec<Option<&([u8; 2], GVal)>>)> = vec![
        ("65536-ops,aux=CG,NH,RG,XS", vec![None, Some(&nh), Some(&rg), Some(&xs)]),
        ("65536-ops,aux=NH,CG,RG,XS", vec![Some(&nh), None, Some(&rg), Some(&xs)]),
        ("65536-ops,aux=NH,RG,XS,CG", vec![Some(&nh), Some(&rg), Some(&xs), None]),
        ("65536-ops,aux=NH,XB:B:S,CG,RG", vec![Some(&nh), Some(&xb), None, Some(&rg)]),
    ];
    let mut bytes = own[..head_len].to_vec();
    let mut models = Vec::new();
    for (label, order) in variants {
        let mut rec = prefix.to_vec();
        let mut aux = Vec::new();
        for f in order {
            match f {
                None => rec.extend_from_slice(cg),
                Some((t, v)) => {
                    rec.extend(encode_aux(t, v));
                    aux.push((*t, v.clone()));
                }
            }
        }
        bytes.extend((rec.len() as u32).to_le_bytes());
        bytes.extend(rec);
        models.push((label, GRec { aux, ..base.clone() }));
    }
    Ok((bytes, models))
}
