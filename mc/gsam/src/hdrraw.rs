//! The raw-header adapters: `sam::io::Reader::header_reader()` and
//! `bam::io::Reader::header_reader().raw_sam_header_reader()`, driven through their `io::Read` side
//! (every destination size), the std conveniences built on it, and their `BufRead` side (partial
//! consumes). The bytes delivered must be exactly the header text that is in the file, and afterwards
//! the reader must be positioned on the first record.

use std::io::{self, BufRead, Read};

use noodles_bam as bam;
use noodles_sam::{self as sam, alignment::RecordBuf};
use vmc::env::{ChunkBufRead, ReadMode};

use crate::{
    conv::{build_record, view_buf},
    io::{Container, write_bam, write_sam},
    model::{GHeader, GLine, GRec, diff, esc_full},
    reuse,
    spec::{norm_bam, norm_sam},
};

/// How the adapter is driven.
#[derive(Clone, Debug, PartialEq)]
pub enum Mode {
    /// `read` into a destination of exactly this many bytes, until `Ok(0)`
    Read(usize),
    ReadToEnd,
    ReadToString,
    IoCopy,
    /// `read_until(b'\n')` until it returns 0 (what `lines()` / `read_line` do)
    ReadUntil,
    /// `fill_buf` + `consume(k)`: k = whole window
    BufAll,
    /// k = 1
    BufOne,
    /// k = half the window (at least 1)
    BufHalf,
    /// k = window − 1 (at least 1)
    BufAllButOne,
    /// k cycles 1, 2, 3, 7
    BufCycle,
    /// alternately `read` into this many bytes and `fill_buf` + `consume(1)`
    Mixed(usize),
}

impl Mode {
    /// Class-level name for fingerprints (`longest` = longest header line incl. newline).
    pub fn class(&self, longest: usize) -> String {
        match self {
            Mode::Read(n) if *n < longest => "read(dst<longest-line)".into(),
            Mode::Read(_) => "read(dst>=longest-line)".into(),
            Mode::Mixed(_) => "read+fill_buf-mixed".into(),
            Mode::ReadToEnd => "read_to_end".into(),
            Mode::ReadToString => "read_to_string".into(),
            Mode::IoCopy => "io::copy".into(),
            Mode::ReadUntil => "read_until".into(),
            Mode::BufAll => "fill_buf/consume(all)".into(),
            _ => "fill_buf/consume(partial)".into(),
        }
    }
}

/// All modes for a header whose longest line (with newline) has `longest` bytes.
pub fn modes(longest: usize) -> Vec<Mode> {
    let mut v = vec![
        Mode::ReadToEnd,
        Mode::ReadToString,
        Mode::IoCopy,
        Mode::ReadUntil,
        Mode::BufAll,
        Mode::BufOne,
        Mode::BufHalf,
        Mode::BufAllButOne,
        Mode::BufCycle,
        Mode::Mixed(1),
        Mode::Mixed(5),
        Mode::Mixed(33),
    ];
    // dense around every small size and around the longest line; sparse beyond
    let dense = longest.clamp(34, 160) + 2;
    for n in 1..=dense {
        v.push(Mode::Read(n));
    }
    for n in [longest.saturating_sub(1), longest, longest + 1, 4096, 8191, 8192, 8193] {
        if n > dense && !v.contains(&Mode::Read(n)) {
            v.push(Mode::Read(n));
        }
    }
    v
}

/// The byte source under the SAM reader: the whole slice as one window, or small irregular windows
/// (so that a `fill_buf` window ends in the middle of a line).
#[derive(Clone, Debug, PartialEq)]
pub enum Under {
    Slice,
    Windows(Vec<usize>),
}

pub fn unders() -> Vec<Under> {
    vec![Under::Slice, Under::Windows(vec![5, 1, 13, 2, 64]), Under::Windows(vec![1]), Under::Windows(vec![40, 3])]
}

fn drive<R: Read + BufRead>(r: &mut R, mode: &Mode, cap: usize) -> io::Result<Vec<u8>> {
    let mut out = Vec::new();
    let mut steps = 0usize;
    let mut tick = || {
        steps += 1;
        if steps > cap { Err(io::Error::other("adapter does not reach end of header")) } else { Ok(()) }
    };
    let buf_loop = |r: &mut R, out: &mut Vec<u8>, tick: &mut dyn FnMut() -> io::Result<()>, k_of: &mut dyn FnMut(usize) -> usize| -> io::Result<()> {
        loop {
            tick()?;
            let w = r.fill_buf()?;
            if w.is_empty() {
                return Ok(());
            }
            let k = k_of(w.len()).clamp(1, w.len());
            out.extend_from_slice(&w[..k]);
            r.consume(k);
        }
    };
    match mode {
        Mode::Read(n) => {
            let mut dst = vec![0u8; *n];
            loop {
                tick()?;
                match r.read(&mut dst) {
                    Ok(0) => break,
                    Ok(k) => out.extend_from_slice(&dst[..k]),
                    Err(e) if e.kind() == io::ErrorKind::Interrupted => {}
                    Err(e) => return Err(e),
                }
            }
        }
        Mode::ReadToEnd => {
            r.read_to_end(&mut out)?;
        }
        Mode::ReadToString => {
            let mut s = String::new();
            r.read_to_string(&mut s)?;
            out = s.into_bytes();
        }
        Mode::IoCopy => {
            io::copy(r, &mut out)?;
        }
        Mode::ReadUntil => loop {
            tick()?;
            if r.read_until(b'\n', &mut out)? == 0 {
                break;
            }
        },
        Mode::BufAll => buf_loop(r, &mut out, &mut tick, &mut |n| n)?,
        Mode::BufOne => buf_loop(r, &mut out, &mut tick, &mut |_| 1)?,
        Mode::BufHalf => buf_loop(r, &mut out, &mut tick, &mut |n| n / 2)?,
        Mode::BufAllButOne => buf_loop(r, &mut out, &mut tick, &mut |n| n - 1)?,
        Mode::BufCycle => {
            let mut i = 0;
            buf_loop(r, &mut out, &mut tick, &mut |_| {
                i += 1;
                [1usize, 2, 3, 7][i % 4]
            })?
        }
        Mode::Mixed(n) => {
            let mut dst = vec![0u8; *n];
            loop {
                tick()?;
                let k = r.read(&mut dst)?;
                if k == 0 {
                    break;
                }
                out.extend_from_slice(&dst[..k]);
                let w = r.fill_buf()?;
                if w.is_empty() {
                    break;
                }
                out.push(w[0]);
                r.consume(1);
            }
        }
    }
    Ok(out)
}

/// Header documents with long lines (all valid; three references so that the reuse records fit).
pub fn header_docs() -> Vec<(&'static str, GHeader)> {
    let sq = |extra: &[(&str, &str)]| {
        let mut l0 = vec![("SN", "sq0"), ("LN", "2147483647")];
        l0.extend_from_slice(extra);
        vec![
            GLine::map("SQ", &l0),
            GLine::map("SQ", &[("SN", "sq1"), ("LN", "8")]),
            GLine::map("SQ", &[("SN", "chrM_1:x"), ("LN", "16571")]),
        ]
    };
    let mut long = vec![GLine::map("HD", &[("VN", "1.6"), ("SO", "coordinate")])];
    long.extend(sq(&[
        ("M5", "d41d8cd98f00b204e9800998ecf8427e"),
        ("UR", "file:///a/rather/long/path/to/the/reference/genome/GRCh38_full_analysis_set_plus_decoy_hla.fa"),
        ("AS", "GRCh38"),
        ("SP", "Homo sapiens"),
    ]));
    long.push(GLine::map("RG", &[("ID", "rg0"), ("SM", "sample 1"), ("DS", "a description with spaces: colons, and an @ sign in the middle of it")]));
    long.push(GLine::map(
        "PG",
        &[("ID", "pg0"), ("PN", "aligner"), ("CL", "aligner mem -t 16 -R '@RG\\tID:rg0\\tSM:sample 1' ref.fa reads_1.fq.gz reads_2.fq.gz"), ("VN", "0.7.17-r1188")],
    ));
    long.push(GLine::Co(b"a long comment\twith tabs\tand @ signs @ here and there, well beyond any 32-byte probe buffer".to_vec()));
    long.push(GLine::Co(b"short".to_vec()));

    let mut ats = vec![GLine::map("HD", &[("VN", "1.6")])];
    ats.extend(sq(&[]));
    ats.push(GLine::Co(vec![b'@'; 70]));
    ats.push(GLine::Co(b"x@x@x@x@x@x@x@x@x@x@x@x@x@x@x@x@x@x@x@x@x@x@x@x@x@x@".to_vec()));

    let mut big = vec![GLine::map("HD", &[("VN", "1.6")])];
    big.extend(sq(&[]));
    // a line longer than std's 8 KiB BufReader window (the BAM adapter reads through one)
    big.push(GLine::Co((0..9000).map(|i| b"0123456789abcdefghijklmnopqrstuvwxyz"[i % 36]).collect()));
    big.push(GLine::Co(b"after the big one".to_vec()));

    vec![("long-lines", GHeader { lines: long }), ("short-lines", crate::io::std_gheader(3)), ("at-signs", GHeader { lines: ats }), ("line>8KiB", GHeader { lines: big })]
}

#[derive(Debug)]
pub struct Fail {
    pub what: &'static str,
    pub expected: String,
    pub observed: String,
}

fn show(b: &[u8]) -> String {
    if b.len() <= 160 {
        format!("{} bytes \"{}\"", b.len(), esc_full(b))
    } else {
        format!("{} bytes \"{}…{}\"", b.len(), esc_full(&b[..60]), esc_full(&b[b.len() - 60..]))
    }
}

fn first_diff(a: &[u8], b: &[u8]) -> usize {
    a.iter().zip(b).position(|(x, y)| x != y).unwrap_or(a.len().min(b.len()))
}

fn cmp_text(want: &[u8], got: &[u8]) -> Result<(), Fail> {
    if want == got {
        return Ok(());
    }
    let what = if got.len() < want.len() && want.starts_with(got) {
        "header-truncated"
    } else if got.len() > want.len() && got.starts_with(want) && got[want.len()..].iter().all(|&b| b == 0) {
        "nul-padding-delivered-as-header-text"
    } else if got.len() > want.len() && got.starts_with(want) {
        "bytes-beyond-header"
    } else {
        "header-bytes-differ"
    };
    Err(Fail { what, expected: show(want), observed: format!("{} (first difference at byte {})", show(got), first_diff(want, got)) })
}

fn cmp_records(want: &[GRec], got: &[GRec]) -> Result<(), Fail> {
    if want.len() != got.len() {
        return Err(Fail { what: "records-after-header", expected: format!("{} records", want.len()), observed: format!("{} records", got.len()) });
    }
    for (w, g) in want.iter().zip(got) {
        if let Some((f, a, b)) = diff(w, g) {
            return Err(Fail { what: "records-after-header", expected: format!("{f}: {a}"), observed: b });
        }
    }
    Ok(())
}

/// The records that follow the header in the test files.
pub fn trailing_records(n: usize) -> Vec<GRec> {
    let set = reuse::record_set();
    set.into_iter().filter(|(l, _)| *l == "full" || *l == "empty").map(|(_, r)| r).take(n).collect()
}

/// SAM: `header_text` (+ `recs`) read through `header_reader()` driven by `mode`.
pub fn check_sam(doc: &GHeader, no_final_newline: bool, recs: &[GRec], under: &Under, mode: &Mode) -> Result<usize, Fail> {
    let mut text = doc.to_text();
    let header = crate::conv::parse_header_text(&text).map_err(|e| Fail { what: "harness", expected: "valid header".into(), observed: e.to_string() })?;
    let mut file = text.clone();
    if no_final_newline {
        debug_assert!(recs.is_empty());
        text.pop();
        file.pop();
    } else {
        let bufs: Vec<RecordBuf> = recs.iter().map(build_record).collect();
        let dynr: Vec<&dyn sam::alignment::Record> = bufs.iter().map(|r| r as &dyn sam::alignment::Record).collect();
        let all = write_sam(&header, &dynr).map_err(|e| Fail { what: "harness", expected: "records written".into(), observed: e.err.to_string() })?;
        // the record section as noodles writes it (its own header rendering is not used)
        let own_header = write_sam(&header, &[]).map_err(|e| Fail { what: "harness", expected: "header written".into(), observed: e.err.to_string() })?;
        file.extend_from_slice(&all[own_header.len()..]);
    }
    let cap = file.len() * 2 + 1000;
    let want_recs: Vec<GRec> = recs.iter().map(norm_sam).collect();
    fn go<R: BufRead>(mut reader: sam::io::Reader<R>, mode: &Mode, cap: usize, text: &[u8], want_recs: &[GRec]) -> Result<(), Fail> {
        let got = {
            let mut hr = reader.header_reader();
            drive(&mut hr, mode, cap).map_err(|e| Fail { what: "error", expected: "Ok".into(), observed: e.to_string() })?
        };
        cmp_text(text, &got)?;
        let h = crate::conv::parse_header_text(&got).map_err(|e| Fail { what: "delivered-text-unparseable", expected: "Ok".into(), observed: e.to_string() })?;
        let mut recs = Vec::new();
        let mut rec = RecordBuf::default();
        loop {
            match reader.read_record_buf(&h, &mut rec) {
                Ok(0) => break,
                Ok(_) => recs.push(norm_sam(&view_buf(&rec))),
                Err(e) => return Err(Fail { what: "records-after-header", expected: format!("{} records", want_recs.len()), observed: format!("Err({e})") }),
            }
            if recs.len() > 64 {
                break;
            }
        }
        cmp_records(want_recs, &recs)
    }
    match under {
        Under::Slice => go(sam::io::Reader::new(&file[..]), mode, cap, &text, &want_recs)?,
        Under::Windows(p) => {
            let src = ChunkBufRead::new(std::sync::Arc::new(file.clone()), ReadMode::Pattern(p.clone()), None);
            go(sam::io::Reader::new(src), mode, cap, &text, &want_recs)?
        }
    }
    Ok(text.len())
}

/// How the header text is laid out inside the BAM file.
#[derive(Clone, Copy, Debug, PartialEq)]
pub enum BamText {
    /// as noodles' writer lays it out
    Plain,
    /// followed by this many NUL bytes, counted in `l_text` (SAMv1 §4.2: "including any NUL padding")
    NulPadded(usize),
    /// the last line has no trailing newline
    NoFinalNewline,
    /// both
    NoFinalNewlineNulPadded(usize),
}

/// BAM: a stream whose header section is built here byte by byte (magic, l_text, text, padding,
/// references) followed by the record section noodles' writer produces.
pub fn check_bam(doc: &GHeader, layout: BamText, recs: &[GRec], container: Container, mode: &Mode) -> Result<usize, Fail> {
    let harness = |e: String| Fail { what: "harness", expected: "Ok".into(), observed: e };
    let mut text = doc.to_text();
    let header = crate::conv::parse_header_text(&text).map_err(|e| harness(e.to_string()))?;
    let pad = match layout {
        BamText::Plain => 0,
        BamText::NulPadded(n) => n,
        BamText::NoFinalNewline => {
            text.pop();
            0
        }
        BamText::NoFinalNewlineNulPadded(n) => {
            text.pop();
            n
        }
    };
    let mut stream = b"BAM\x01".to_vec();
    stream.extend_from_slice(&((text.len() + pad) as u32).to_le_bytes());
    stream.extend_from_slice(&text);
    stream.extend(std::iter::repeat_n(0u8, pad));
    let refs = doc.refs();
    stream.extend_from_slice(&(refs.len() as u32).to_le_bytes());
    for (n, l) in &refs {
        stream.extend_from_slice(&((n.len() + 1) as u32).to_le_bytes());
        stream.extend_from_slice(n);
        stream.push(0);
        stream.extend_from_slice(&(*l as u32).to_le_bytes());
    }
    {
        let bufs: Vec<RecordBuf> = recs.iter().map(build_record).collect();
        let dynr: Vec<&dyn sam::alignment::Record> = bufs.iter().map(|r| r as &dyn sam::alignment::Record).collect();
        let own = write_bam(&header, &dynr, Container::Raw).map_err(|e| harness(e.err.to_string()))?;
        let own_header = write_bam(&header, &[], Container::Raw).map_err(|e| harness(e.err.to_string()))?;
        stream.extend_from_slice(&own[own_header.len()..]);
    }
    let cap = stream.len() * 2 + 1000;
    let file = match container {
        Container::Raw => stream,
        Container::Bgzf => {
            use std::io::Write;
            let mut w = noodles_bgzf::io::Writer::new(Vec::new());
            w.write_all(&stream).map_err(|e| harness(e.to_string()))?;
            w.finish().map_err(|e| harness(e.to_string()))?
        }
    };
    let want_recs: Vec<GRec> = recs.iter().map(norm_bam).collect();
    fn go<R: Read>(mut reader: bam::io::Reader<R>, mode: &Mode, cap: usize, text: &[u8], refs: &[(Vec<u8>, u64)], want_recs: &[GRec]) -> Result<(), Fail> {
        let err = |e: io::Error| Fail { what: "error", expected: "Ok".into(), observed: e.to_string() };
        let (got, got_refs) = {
            let mut hr = reader.header_reader();
            hr.read_magic_number().map_err(err)?;
            let got = {
                let mut raw = hr.raw_sam_header_reader().map_err(err)?;
                let got = drive(&mut raw, mode, cap).map_err(err)?;
                raw.discard_to_end().map_err(err)?;
                got
            };
            let r = hr.read_reference_sequences().map_err(|e| Fail {
                what: "position-after-header-text",
                expected: "reference list readable after discard_to_end".into(),
                observed: e.to_string(),
            })?;
            (got, r)
        };
        cmp_text(text, &got)?;
        let gr: Vec<(Vec<u8>, u64)> = got_refs.iter().map(|(n, m)| (n.to_vec(), usize::from(m.length()) as u64)).collect();
        if gr != refs {
            return Err(Fail { what: "position-after-header-text", expected: format!("{refs:?}"), observed: format!("{gr:?}") });
        }
        let mut h = crate::conv::parse_header_text(&got).map_err(|e| Fail { what: "delivered-text-unparseable", expected: "Ok".into(), observed: e.to_string() })?;
        if h.reference_sequences().is_empty() {
            *h.reference_sequences_mut() = got_refs;
        }
        let mut recs = Vec::new();
        let mut rec = RecordBuf::default();
        loop {
            match reader.read_record_buf(&h, &mut rec) {
                Ok(0) => break,
                Ok(_) => recs.push(view_buf(&rec)),
                Err(e) => return Err(Fail { what: "records-after-header", expected: format!("{} records", want_recs.len()), observed: format!("Err({e})") }),
            }
            if recs.len() > 64 {
                break;
            }
        }
        cmp_records(want_recs, &recs)
    }
    match container {
        Container::Raw => go(bam::io::Reader::from(&file[..]), mode, cap, &text, &refs, &want_recs)?,
        Container::Bgzf => go(bam::io::Reader::new(&file[..]), mode, cap, &text, &refs, &want_recs)?,
    }
    Ok(text.len())
}
