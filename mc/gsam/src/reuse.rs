//! Reading multi-record files through every reader entry point — fresh buffers, one reused buffer
//! (clean or pre-dirtied), the `record_bufs()` / `records()` iterators, reused lazy records and the
//! lazy → `RecordBuf` conversion into a reused destination — where consecutive records differ in
//! which optional fields are present. Every record must equal *its own* expectation: nothing of the
//! previous record (or of the buffer's earlier content) may survive.

use std::io;

use noodles_bam as bam;
use noodles_sam::{self as sam, alignment::RecordBuf};

use crate::{
    conv::{build_record, view_buf, view_lazy},
    io::{Container, write_bam, write_sam},
    model::{GRec, GVal, diff},
    spec::{norm_bam, norm_sam},
};

#[derive(Clone, Copy, Debug, PartialEq)]
pub enum Fmt {
    Sam,
    Bam(Container),
}

/// A record with every optional field present (valid in SAM and BAM with ≥ 3 references).
pub fn full() -> GRec {
    GRec {
        name: Some(b"full-record/1".to_vec()),
        flags: 0x63,
        rid: Some(2),
        pos: Some(1000),
        mapq: 40,
        cigar: vec![(4, 2), (0, 3), (1, 1), (0, 2)],
        mrid: Some(0),
        mpos: Some(2000),
        tlen: -7,
        seq: b"ACGTNACG".to_vec(),
        qual: vec![10, 20, 30, 40, 50, 60, 70, 93],
        aux: vec![
            (*b"XA", GVal::I32(-70000)),
            (*b"XB", GVal::Z(b"a fairly long string value".to_vec())),
            (*b"XC", GVal::BU16(vec![1, 2, 3, 4, 65535])),
        ],
    }
}

/// The content a reused buffer holds before the first read in the "dirty" variants: every field set,
/// everything longer than in any record of the set.
pub fn dirty() -> GRec {
    GRec {
        name: Some(b"dirty-buffer-content-that-must-not-survive".to_vec()),
        flags: 0xfff,
        rid: Some(1),
        pos: Some(123_456),
        mapq: 7,
        cigar: vec![(5, 1), (4, 3), (0, 10), (2, 2), (0, 10), (1, 4), (0, 13), (4, 2)],
        mrid: Some(2),
        mpos: Some(654_321),
        tlen: 999,
        seq: b"TTTTTTTTTTGGGGGGGGGGCCCCCCCCCCAAAAAAAAAATT".to_vec(),
        qual: vec![33; 42],
        aux: vec![
            (*b"XA", GVal::Z(b"dirty".to_vec())),
            (*b"XB", GVal::BI32(vec![7; 12])),
            (*b"XC", GVal::F(0x4048_f5c3)),
            (*b"XD", GVal::H(b"DEADBEEF".to_vec())),
            (*b"ZZ", GVal::A(b'd')),
        ],
    }
}

/// The record set: everything present / everything missing / each single optional field missing /
/// each single tag missing / everything shorter / everything longer.
pub fn record_set() -> Vec<(&'static str, GRec)> {
    let f = full();
    let mut v: Vec<(&'static str, GRec)> = vec![("full", f.clone()), ("empty", GRec::unmapped())];
    let mut add = |label: &'static str, edit: &dyn Fn(&mut GRec)| {
        let mut r = f.clone();
        edit(&mut r);
        v.push((label, r));
    };
    add("no-name", &|r| r.name = None);
    add("no-rid", &|r| r.rid = None);
    add("no-pos", &|r| r.pos = None);
    add("no-mapq", &|r| r.mapq = 255);
    add("no-cigar", &|r| r.cigar.clear());
    add("no-mrid", &|r| r.mrid = None);
    add("no-mpos", &|r| r.mpos = None);
    add("no-tlen", &|r| r.tlen = 0);
    add("no-flags", &|r| r.flags = 0);
    add("no-seq", &|r| {
        r.seq.clear();
        r.qual.clear();
    });
    add("no-qual", &|r| r.qual.clear());
    add("no-aux", &|r| r.aux.clear());
    add("no-first-tag", &|r| {
        r.aux.remove(0);
    });
    add("no-middle-tag", &|r| {
        r.aux.remove(1);
    });
    add("no-last-tag", &|r| {
        r.aux.remove(2);
    });
    add("shorter", &|r| {
        r.name = Some(b"s".to_vec());
        r.cigar = vec![(0, 2)];
        r.seq = b"GT".to_vec();
        r.qual = vec![1, 2];
        r.aux = vec![(*b"XA", GVal::U8(1)), (*b"XB", GVal::Z(b"s".to_vec())), (*b"XC", GVal::BU16(vec![9]))];
    });
    add("longer", &|r| {
        r.name = Some(b"a-longer-record-name/with:more;bytes".to_vec());
        r.cigar = vec![(5, 2), (4, 1), (0, 4), (2, 3), (0, 4), (3, 100), (0, 3), (4, 1)];
        r.seq = b"ACGTACGTACGTA".to_vec();
        r.qual = (0..13).map(|i| i * 7).collect();
        r.aux.push((*b"XD", GVal::BF(vec![0x3f80_0000, 0x4000_0000, 0x4040_0000])));
        r.aux[1].1 = GVal::Z(b"an even longer string value than the one in the full record".to_vec());
        r.aux[2].1 = GVal::BU16((0..40).collect());
    });
    add("only-aux-types-change", &|r| {
        r.aux = vec![(*b"XA", GVal::Z(b"now a string".to_vec())), (*b"XB", GVal::I32(-70000)), (*b"XC", GVal::H(b"00FF".to_vec()))];
    });
    v
}

/// A failed expectation: which reader entry point, which record, which field.
#[derive(Debug)]
pub struct Mismatch {
    pub reader: &'static str,
    pub index: usize,
    pub field: String,
    pub expected: String,
    pub observed: String,
}

fn cmp(reader: &'static str, want: &[GRec], got: &[GRec], norm: fn(&GRec) -> GRec) -> Result<(), Mismatch> {
    if want.len() != got.len() {
        return Err(Mismatch {
            reader,
            index: want.len().min(got.len()),
            field: "record-count".into(),
            expected: want.len().to_string(),
            observed: got.len().to_string(),
        });
    }
    for (i, (w, g)) in want.iter().zip(got).enumerate() {
        if let Some((f, a, b)) = diff(w, &norm(g)) {
            return Err(Mismatch { reader, index: i, field: f, expected: a, observed: b });
        }
    }
    Ok(())
}

fn ioerr(reader: &'static str, index: usize, e: impl std::fmt::Display) -> Mismatch {
    Mismatch { reader, index, field: "error".into(), expected: "Ok".into(), observed: format!("Err({e})") }
}

const MAX: usize = 64;

macro_rules! readers {
    ($name:ident, $reader_ty:ty, $lazy_ty:ty, $open:expr) => {
        /// Reads `bytes` through every entry point and compares each record with `want`.
        fn $name(bytes: &[u8], want: &[GRec], norm: fn(&GRec) -> GRec) -> Result<(), Mismatch> {
            let open = $open;
            // eager, a fresh RecordBuf per record
            {
                let mut r: $reader_ty = open(bytes);
                let h = r.read_header().map_err(|e| ioerr("fresh", 0, e))?;
                let mut got = Vec::new();
                loop {
                    let mut rec = RecordBuf::default();
                    match r.read_record_buf(&h, &mut rec) {
                        Ok(0) => break,
                        Ok(_) => got.push(view_buf(&rec)),
                        Err(e) => return Err(ioerr("fresh", got.len(), e)),
                    }
                    if got.len() > MAX {
                        return Err(ioerr("fresh", got.len(), "no EOF"));
                    }
                }
                cmp("fresh", want, &got, norm)?;
            }
            // eager, one RecordBuf reused — starting clean and starting with unrelated content
            for (label, init) in [("reused", RecordBuf::default()), ("reused-dirty", build_record(&dirty()))] {
                let mut r: $reader_ty = open(bytes);
                let h = r.read_header().map_err(|e| ioerr(label, 0, e))?;
                let mut rec = init;
                let mut got = Vec::new();
                loop {
                    match r.read_record_buf(&h, &mut rec) {
                        Ok(0) => break,
                        Ok(_) => got.push(view_buf(&rec)),
                        Err(e) => return Err(ioerr(label, got.len(), e)),
                    }
                    if got.len() > MAX {
                        return Err(ioerr(label, got.len(), "no EOF"));
                    }
                }
                cmp(label, want, &got, norm)?;
            }
            // the record_bufs() iterator
            {
                let mut r: $reader_ty = open(bytes);
                let h = r.read_header().map_err(|e| ioerr("record_bufs()", 0, e))?;
                let mut got = Vec::new();
                for x in r.record_bufs(&h).take(MAX) {
                    match x {
                        Ok(rec) => got.push(view_buf(&rec)),
                        Err(e) => return Err(ioerr("record_bufs()", got.len(), e)),
                    }
                }
                cmp("record_bufs()", want, &got, norm)?;
            }
            // lazy: one record reused; a fresh one per read; the records() iterator; and the conversion of
            // each lazy record into one reused (pre-dirtied) RecordBuf
            {
                let mut r: $reader_ty = open(bytes);
                let h = r.read_header().map_err(|e| ioerr("lazy-reused", 0, e))?;
                let mut rec = <$lazy_ty>::default();
                let mut dst = build_record(&dirty());
                let mut got = Vec::new();
                let mut conv = Vec::new();
                loop {
                    match r.read_record(&mut rec) {
                        Ok(0) => break,
                        Ok(_) => {
                            got.push(view_lazy(&rec, &h).map_err(|(f, m)| ioerr("lazy-reused", got.len(), format!("{f}: {m}")))?);
                            dst.try_clone_from_alignment_record(&h, &rec).map_err(|e| ioerr("lazy-to-reused-buf", conv.len(), e))?;
                            conv.push(view_buf(&dst));
                        }
                        Err(e) => return Err(ioerr("lazy-reused", got.len(), e)),
                    }
                    if got.len() > MAX {
                        return Err(ioerr("lazy-reused", got.len(), "no EOF"));
                    }
                }
                cmp("lazy-reused", want, &got, norm)?;
                cmp("lazy-to-reused-buf", want, &conv, norm)?;
            }
            {
                let mut r: $reader_ty = open(bytes);
                let h = r.read_header().map_err(|e| ioerr("lazy-fresh", 0, e))?;
                let mut got = Vec::new();
                loop {
                    let mut rec = <$lazy_ty>::default();
                    match r.read_record(&mut rec) {
                        Ok(0) => break,
                        Ok(_) => got.push(view_lazy(&rec, &h).map_err(|(f, m)| ioerr("lazy-fresh", got.len(), format!("{f}: {m}")))?),
                        Err(e) => return Err(ioerr("lazy-fresh", got.len(), e)),
                    }
                    if got.len() > MAX {
                        return Err(ioerr("lazy-fresh", got.len(), "no EOF"));
                    }
                }
                cmp("lazy-fresh", want, &got, norm)?;
            }
            {
                let mut r: $reader_ty = open(bytes);
                let h = r.read_header().map_err(|e| ioerr("records()", 0, e))?;
                let mut got = Vec::new();
                for x in r.records().take(MAX) {
                    match x {
                        Ok(rec) => got.push(view_lazy(&rec, &h).map_err(|(f, m)| ioerr("records()", got.len(), format!("{f}: {m}")))?),
                        Err(e) => return Err(ioerr("records()", got.len(), e)),
                    }
                }
                cmp("records()", want, &got, norm)?;
            }
            Ok(())
        }
    };
}

readers!(read_all_sam, sam::io::Reader<&[u8]>, sam::Record, |b| sam::io::Reader::new(b));
readers!(read_all_bam_raw, bam::io::Reader<&[u8]>, bam::Record, |b| bam::io::Reader::from(b));
readers!(
    read_all_bam_bgzf,
    bam::io::Reader<noodles_bgzf::io::Reader<&[u8]>>,
    bam::Record,
    |b| bam::io::Reader::new(b)
);

/// Reads an already written file through every entry point; `want` are the model records.
pub fn read_everywhere(fmt: Fmt, bytes: &[u8], want: &[GRec]) -> Result<(), Mismatch> {
    match fmt {
        Fmt::Sam => {
            let w: Vec<GRec> = want.iter().map(norm_sam).collect();
            read_all_sam(bytes, &w, norm_sam)
        }
        Fmt::Bam(c) => {
            let w: Vec<GRec> = want.iter().map(norm_bam).collect();
            let id: fn(&GRec) -> GRec = |g| g.clone();
            match c {
                Container::Raw => read_all_bam_raw(bytes, &w, id),
                Container::Bgzf => read_all_bam_bgzf(bytes, &w, id),
            }
        }
    }
}

/// Writes `seq` as one file of the format and reads it through every entry point.
pub fn check_sequence(fmt: Fmt, header: &sam::Header, seq: &[&GRec]) -> Result<usize, Mismatch> {
    let bufs: Vec<RecordBuf> = seq.iter().map(|g| build_record(g)).collect();
    let recs: Vec<&dyn sam::alignment::Record> = bufs.iter().map(|r| r as &dyn sam::alignment::Record).collect();
    let bytes = match fmt {
        Fmt::Sam => write_sam(header, &recs),
        Fmt::Bam(c) => write_bam(header, &recs, c),
    }
    .map_err(|e| Mismatch {
        reader: "write",
        index: e.record.unwrap_or(0),
        field: "error".into(),
        expected: "Ok (every record of the set is valid)".into(),
        observed: format!("{}: {}", e.step, e.err),
    })?;
    let want: Vec<GRec> = seq.iter().map(|g| (*g).clone()).collect();
    read_everywhere(fmt, &bytes, &want)?;
    Ok(bytes.len())
}

/// A reused-buffer read of any file (used by the grammar harnesses on their own files): one
/// pre-dirtied `RecordBuf` for all records. Returns the views.
pub fn read_reused_dirty(fmt: Fmt, bytes: &[u8]) -> io::Result<Vec<GRec>> {
    fn go<F>(mut next: F) -> io::Result<Vec<GRec>>
    where
        F: FnMut(&mut RecordBuf) -> io::Result<usize>,
    {
        let mut rec = build_record(&dirty());
        let mut out = Vec::new();
        while next(&mut rec)? != 0 {
            out.push(view_buf(&rec));
            if out.len() > MAX {
                return Err(io::Error::other("reader does not reach EOF"));
            }
        }
        Ok(out)
    }
    match fmt {
        Fmt::Sam => {
            let mut r = sam::io::Reader::new(bytes);
            let h = r.read_header()?;
            go(|rec| r.read_record_buf(&h, rec))
        }
        Fmt::Bam(Container::Raw) => {
            let mut r = bam::io::Reader::from(bytes);
            let h = r.read_header()?;
            go(|rec| r.read_record_buf(&h, rec))
        }
        Fmt::Bam(Container::Bgzf) => {
            let mut r = bam::io::Reader::new(bytes);
            let h = r.read_header()?;
            go(|rec| r.read_record_buf(&h, rec))
        }
    }
}
