//! Operation sequences on ONE writer instance: accepted and rejected `write_alignment_record` calls
//! interleaved. Every write the expectation model says must be rejected returns `Err`, and the
//! finished file contains exactly the accepted records, in order, each equal to its expectation —
//! a rejected write leaves nothing behind (neither in the sink nor in the writer's scratch state).

use std::io::{self, Write};

use noodles_bam as bam;
use noodles_bgzf as bgzf;
use noodles_sam::{self as sam, alignment::io::Write as _};

use crate::{
    conv::build_record,
    r#gen::name_of_len,
    io::Container,
    model::{GRec, GVal, diff},
    rawbam,
    reuse::{self, Fmt, Mismatch},
    samtext,
    spec::{Expect, expect_bam, expect_sam, norm_bam, norm_sam},
};

/// The operation alphabet: a few accepted records of the reuse set and one record per rejection
/// reason the expectation models know (each derived from the everything-present record, so that as
/// much as possible is encoded before the offending field is reached).
pub fn op_set() -> Vec<(&'static str, GRec)> {
    let f = reuse::full();
    let set = reuse::record_set();
    let pickr = |l: &str| set.iter().find(|(x, _)| *x == l).map(|(_, r)| r.clone()).expect("record of the reuse set");
    let mut v: Vec<(&'static str, GRec)> =
        vec![("ok-full", f.clone()), ("ok-empty", pickr("empty")), ("ok-shorter", pickr("shorter")), ("ok-longer", pickr("longer"))];
    let mut add = |label: &'static str, edit: &dyn Fn(&mut GRec)| {
        let mut r = f.clone();
        edit(&mut r);
        v.push((label, r));
    };
    add("name-255-bytes", &|r| r.name = Some(name_of_len(255)));
    add("name-with-at", &|r| r.name = Some(b"a@b".to_vec()));
    add("name-empty", &|r| r.name = Some(vec![]));
    add("name-with-space", &|r| r.name = Some(b"a b".to_vec()));
    add("rid-out-of-range", &|r| r.rid = Some(3));
    add("mrid-out-of-range", &|r| r.mrid = Some(3));
    add("pos-2^31", &|r| r.pos = Some(1 << 31));
    add("pos-2^31+1", &|r| r.pos = Some((1 << 31) + 1));
    add("mpos-2^31+1", &|r| r.mpos = Some((1 << 31) + 1));
    add("op-length-2^28", &|r| {
        r.cigar = vec![(0, 2), (3, 1 << 28), (0, 6)];
    });
    add("qual-94", &|r| *r.qual.last_mut().unwrap() = 94);
    add("qual-255", &|r| r.qual = vec![255; 8]);
    add("qual-longer-than-seq", &|r| r.qual.push(1));
    add("qual-shorter-than-seq", &|r| {
        r.qual.pop();
    });
    add("qual-without-seq", &|r| r.seq.clear());
    add("seq-shorter-than-cigar", &|r| {
        r.seq.truncate(5);
        r.qual.truncate(5);
    });
    add("seq-char-outside-sam", &|r| r.seq[7] = b'!');
    add("aux-H-odd-length", &|r| r.aux.push((*b"XE", GVal::H(b"1AE".to_vec()))));
    add("aux-H-lower-case", &|r| r.aux.push((*b"XE", GVal::H(b"1ae3".to_vec()))));
    add("aux-Z-with-tab", &|r| r.aux.push((*b"XE", GVal::Z(b"a\tb".to_vec()))));
    add("aux-A-space", &|r| r.aux.push((*b"XE", GVal::A(b' '))));
    add("aux-tag-invalid", &|r| r.aux.push((*b"1A", GVal::U8(1))));
    add("aux-f-inf", &|r| r.aux.push((*b"XE", GVal::f(f32::INFINITY))));
    add("aux-Bf-inf", &|r| r.aux.push((*b"XE", GVal::bf(&[1.0, f32::NEG_INFINITY]))));
    add("tlen-min", &|r| r.tlen = i32::MIN);
    v
}

enum AnyWriter {
    Sam(sam::io::Writer<Vec<u8>>),
    BamRaw(bam::io::Writer<Vec<u8>>),
    BamBgzf(bam::io::Writer<bgzf::io::Writer<Vec<u8>>>),
}

impl AnyWriter {
    fn open(fmt: Fmt) -> Self {
        match fmt {
            Fmt::Sam => AnyWriter::Sam(sam::io::Writer::new(Vec::new())),
            Fmt::Bam(Container::Raw) => AnyWriter::BamRaw(bam::io::Writer::from(Vec::new())),
            Fmt::Bam(Container::Bgzf) => AnyWriter::BamBgzf(bam::io::Writer::new(Vec::new())),
        }
    }
    fn header(&mut self, h: &sam::Header) -> io::Result<()> {
        match self {
            AnyWriter::Sam(w) => w.write_header(h),
            AnyWriter::BamRaw(w) => w.write_header(h),
            AnyWriter::BamBgzf(w) => w.write_header(h),
        }
    }
    fn record(&mut self, h: &sam::Header, r: &dyn sam::alignment::Record) -> io::Result<()> {
        match self {
            AnyWriter::Sam(w) => w.write_alignment_record(h, r),
            AnyWriter::BamRaw(w) => w.write_alignment_record(h, r),
            AnyWriter::BamBgzf(w) => w.write_alignment_record(h, r),
        }
    }
    fn finish(self, h: &sam::Header) -> io::Result<Vec<u8>> {
        match self {
            AnyWriter::Sam(mut w) => {
                sam::alignment::io::Write::finish(&mut w, h)?;
                let mut v = w.into_inner();
                v.flush()?;
                Ok(v)
            }
            AnyWriter::BamRaw(mut w) => {
                sam::alignment::io::Write::finish(&mut w, h)?;
                Ok(w.into_inner())
            }
            AnyWriter::BamBgzf(mut w) => {
                w.try_finish()?;
                Ok(w.into_inner().into_inner())
            }
        }
    }
}

/// What happened in one sequence (for observations).
#[derive(Debug, Default, Hash)]
pub struct Outcome {
    pub accepted: Vec<bool>,
    pub file_len: usize,
}

/// A failed expectation of a writer sequence. `after_reject` names the rejection reason of the most
/// recent rejected write (if any) — the class-level context of the failure.
#[derive(Debug)]
pub struct SeqFailure {
    pub what: String,
    pub field: String,
    pub after_reject: &'static str,
    pub expected: String,
    pub observed: String,
}

pub fn check_ops(fmt: Fmt, header: &sam::Header, n_ref: usize, seq: &[&GRec]) -> Result<Outcome, SeqFailure> {
    let fail = |what: &str, field: &str, after: &'static str, e: String, o: String| SeqFailure {
        what: what.into(),
        field: field.into(),
        after_reject: after,
        expected: e,
        observed: o,
    };
    let mut w = AnyWriter::open(fmt);
    w.header(header).map_err(|e| fail("header", "error", "none", "Ok".into(), e.to_string()))?;
    let mut out = Outcome::default();
    let mut want: Vec<GRec> = Vec::new();
    let mut last_reject: &'static str = "none";
    for (i, g) in seq.iter().enumerate() {
        let exp = match fmt {
            Fmt::Sam => expect_sam(g, n_ref),
            Fmt::Bam(_) => expect_bam(g, n_ref),
        };
        let rec = build_record(g);
        match w.record(header, &rec) {
            Ok(()) => {
                if let Expect::Reject(why) = exp {
                    return Err(fail("write", why, last_reject, format!("Err ({why})"), format!("op {i}: Ok")));
                }
                out.accepted.push(true);
                want.push(match fmt {
                    Fmt::Sam => norm_sam(g),
                    Fmt::Bam(_) => norm_bam(g),
                });
            }
            Err(e) => {
                if exp == Expect::Accept {
                    return Err(fail(
                        "write",
                        "valid-record-rejected",
                        last_reject,
                        format!("op {i}: Ok (valid record)"),
                        format!("Err({e})"),
                    ));
                }
                out.accepted.push(false);
                last_reject = exp.why();
            }
        }
    }
    // the reason named in a failure: the last rejection that happened before the end of the sequence
    let after = {
        let mut a = "none";
        for (g, ok) in seq.iter().zip(&out.accepted) {
            if !ok {
                a = match fmt {
                    Fmt::Sam => expect_sam(g, n_ref).why(),
                    Fmt::Bam(_) => expect_bam(g, n_ref).why(),
                };
            }
        }
        a
    };
    let bytes = w.finish(header).map_err(|e| fail("finish", "error", after, "Ok".into(), e.to_string()))?;
    out.file_len = bytes.len();

    // (1) independent reading of the file: exactly the accepted records, in order
    match fmt {
        Fmt::Bam(c) => {
            let payload = crate::io::bam_payload(&bytes, c).map_err(|e| fail("file", "bgzf", after, "well-formed BGZF".into(), e))?;
            let (_, raws) = rawbam::parse_stream(&payload)
                .map_err(|e| fail("file", "layout", after, "magic, header, references, length-prefixed records".into(), e))?;
            if raws.len() != want.len() {
                return Err(fail("file", "record-count", after, want.len().to_string(), raws.len().to_string()));
            }
            for (i, (r, m)) in raws.iter().zip(&want).enumerate() {
                let (d, _) = r.decode().map_err(|e| fail("file", "record", after, format!("record {i} decodable"), e))?;
                if let Some((f, a, b)) = diff(m, &d) {
                    return Err(fail("file", &f, after, format!("record {i}: {a}"), b));
                }
            }
        }
        Fmt::Sam => {
            // Classification only (the verdict below comes from the independent parser): does the text consist of
            // the accepted records' lines, in order, with newline-free residue in front of some of them / at the end?
            // That is the signature of a rejected write whose already written columns stayed in the output.
            if let Some(residue) = sam_partial_line_residue(&bytes, header, seq, &out.accepted) {
                return Err(fail(
                    "file",
                    "rejected-write-left-partial-line",
                    "any",
                    "the accepted records' lines only".into(),
                    format!("residue of a rejected write in the output: \"{}\"", crate::model::esc_full(&residue)),
                ));
            }
            let (_, lines) =
                samtext::split_file(&bytes).map_err(|e| fail("file", "layout", after, "header lines then alignment lines".into(), e))?;
            if lines.len() != want.len() {
                return Err(fail("file", "record-count", after, format!("{} alignment lines", want.len()), lines.len().to_string()));
            }
            let names: Vec<Vec<u8>> = crate::io::std_gheader(n_ref).refs().into_iter().map(|x| x.0).collect();
            for (i, (l, m)) in lines.iter().zip(&want).enumerate() {
                let d = samtext::parse_record_line(l, &names).map_err(|e| fail("file", "record", after, format!("line {i} is a SAM record"), e))?;
                if let Some((f, a, b)) = diff(m, &d) {
                    return Err(fail("file", &f, after, format!("record {i}: {a}"), b));
                }
            }
        }
    }
    // (2) every noodles reader entry point gives the same records back
    let models: Vec<GRec> = seq.iter().zip(&out.accepted).filter(|(_, ok)| **ok).map(|(g, _)| (*g).clone()).collect();
    reuse::read_everywhere(fmt, &bytes, &models).map_err(|m: Mismatch| {
        fail(&format!("read-{}", m.reader), &m.field, after, format!("record {}: {}", m.index, m.expected), m.observed)
    })?;
    Ok(out)
}

/// If `bytes` = header text + the accepted records' own lines in order, interleaved with newline-free
/// residue that appears only where a rejected write happened, returns the first non-empty residue.
fn sam_partial_line_residue(bytes: &[u8], header: &sam::Header, seq: &[&GRec], accepted: &[bool]) -> Option<Vec<u8>> {
    let alone = |recs: &[&dyn sam::alignment::Record]| crate::io::write_sam(header, recs).ok();
    let head = alone(&[])?;
    let body = bytes.strip_prefix(&head[..])?;
    let mut pos = 0usize;
    let mut first: Option<Vec<u8>> = None;
    let mut rejected_since = false;
    for (g, ok) in seq.iter().zip(accepted) {
        if !ok {
            rejected_since = true;
            continue;
        }
        let rec = build_record(g);
        let text = alone(&[&rec])?;
        let line = text.strip_prefix(&head[..])?;
        let rest = &body[pos..];
        let off = rest.windows(line.len()).position(|w| w == line)?;
        let residue = &rest[..off];
        if residue.contains(&b'\n') || (!residue.is_empty() && !rejected_since) {
            return None;
        }
        if !residue.is_empty() && first.is_none() {
            first = Some(residue.to_vec());
        }
        pos += off + line.len();
        rejected_since = false;
    }
    let tail = &body[pos..];
    if tail.contains(&b'\n') || (!tail.is_empty() && !rejected_since) {
        return None;
    }
    if !tail.is_empty() && first.is_none() {
        first = Some(tail.to_vec());
    }
    first
}
