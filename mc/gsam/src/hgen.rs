//! Header grammar (DESIGN.md §4 C06 **A**): any mix of `@HD/@SQ/@RG/@PG/@CO` lines, standard and
//! user tags, 0..3 references, in several line orders; plus the spec-level validity model.

use vmc::Chooser;

use crate::{
    model::{GHeader, GLine},
    spec::Expect,
};

fn fields(s: &str) -> Vec<([u8; 2], Vec<u8>)> {
    // "SN:sq0|LN:8" — '|' separates fields so that values may contain spaces and colons
    s.split('|')
        .filter(|x| !x.is_empty())
        .map(|f| {
            let b = f.as_bytes();
            ([b[0], b[1]], b[3..].to_vec())
        })
        .collect()
}

fn map(kind: &[u8; 2], s: &str) -> GLine {
    GLine::Map { kind: *kind, fields: fields(s) }
}

pub fn hd_alphabet() -> Vec<Option<GLine>> {
    vec![
        Some(map(b"HD", "VN:1.6")),
        None,
        Some(map(b"HD", "VN:1.6|SO:coordinate")),
        Some(map(b"HD", "VN:1.5|SO:queryname|GO:query")),
        Some(map(b"HD", "VN:1.6|SO:unsorted|SS:unsorted:natural|xy:user value: 1")),
        Some(map(b"HD", "VN:1.0")),
        Some(map(b"HD", "SO:coordinate|VN:1.6")),
        Some(map(b"HD", "VN:1.6|GO:none|SO:unknown")),
        // invalid
        Some(map(b"HD", "SO:coordinate")),
        Some(map(b"HD", "VN:1.6|SO:unsorted|SO:coordinate")),
        Some(map(b"HD", "VN:1.5|SO:unsorted|SO:coordinate")),
        Some(map(b"HD", "VN:1.6|1x:bad tag")),
    ]
}

pub fn sq_alphabet(i: usize) -> Vec<GLine> {
    let n = format!("sq{i}");
    vec![
        map(b"SQ", &format!("SN:{n}|LN:{}", 8 + i)),
        map(b"SQ", &format!("SN:{n}|LN:1")),
        map(b"SQ", &format!("SN:{n}|LN:2147483647")),
        map(
            b"SQ",
            &format!(
                "SN:{n}|LN:8|AH:*|AN:alt{i},alt{i}b|AS:GRCh38|DS:desc with spaces: and colons|M5:d41d8cd98f00b204e9800998ecf8427e|SP:Homo sapiens|TP:circular|UR:file:///x y.fa"
            ),
        ),
        map(b"SQ", &format!("SN:{n}|LN:8|zz:user|Zq:1")),
        map(b"SQ", &format!("LN:8|SN:{n}")),
        map(b"SQ", &format!("UR:u|SN:{n}|M5:9e107d9d372bb6826bd81d3542a419d6|LN:8|AS:a")),
        map(b"SQ", &format!("SN:chr{i}_x:1-2.a;c+d~!#$%&^|LN:8")),
        // invalid
        map(b"SQ", "SN:*|LN:8"),
        map(b"SQ", &format!("SN:a,b{i}|LN:8")),
        map(b"SQ", &format!("SN:={n}|LN:8")),
        map(b"SQ", &format!("SN:{n}|LN:0")),
        map(b"SQ", &format!("SN:{n}|LN:2147483648")),
        map(b"SQ", &format!("SN:{n}|LN:x")),
        map(b"SQ", &format!("SN:{n}")),
        map(b"SQ", "SN:sq0|LN:8"),
        map(b"SQ", &format!("SN:{n}|LN:8|AS:a|AS:b")),
    ]
}

pub fn rg_alphabet(i: usize) -> Vec<GLine> {
    vec![
        map(b"RG", &format!("ID:rg{i}")),
        map(
            b"RG",
            &format!(
                "ID:rg{i}|BC:ACGT-TTGA|CN:centre|DS:d e|DT:2020-01-01T00:00:00Z|FO:*|KS:ACGT|LB:lib 1|PG:pg0|PI:300|PL:ILLUMINA|PM:model x|PU:unit.1|SM:sample"
            ),
        ),
        map(b"RG", &format!("ID:rg{i}|SM:s|ab:user:tag|PL:unknown-platform")),
        map(b"RG", &format!("SM:s|ID:rg {i}:x")),
        // invalid
        map(b"RG", "ID:rg0"),
        map(b"RG", "SM:s"),
    ]
}

pub fn pg_alphabet(i: usize) -> Vec<GLine> {
    let prev = if i > 0 { format!("|PP:pg{}", i - 1) } else { String::new() };
    vec![
        map(b"PG", &format!("ID:pg{i}")),
        map(b"PG", &format!("ID:pg{i}|PN:prog|CL:cmd -x 'q' \"r\" a:b|DS:d|VN:1.0-r2{prev}")),
        map(b"PG", &format!("ID:pg{i}{prev}")),
        map(b"PG", &format!("ID:pg{i}|ab:user")),
        map(b"PG", &format!("PN:p|ID:pg{i}.x y")),
        map(b"PG", &format!("ID:pg{i}|PP:nowhere")),
        // invalid
        map(b"PG", "ID:pg0"),
        map(b"PG", "PN:p"),
    ]
}

pub fn co_alphabet(i: usize) -> Vec<GLine> {
    vec![
        GLine::Co(format!("comment {i}").into_bytes()),
        GLine::Co(vec![]),
        GLine::Co(b"with\ttab\tand:colon".to_vec()),
        GLine::Co(b"@CO\tnested".to_vec()),
        GLine::Co("caf\u{e9} \u{2713}".as_bytes().to_vec()),
        GLine::Co(b" leading and trailing ".to_vec()),
        GLine::Co(b"@SQ\tSN:fake\tLN:1".to_vec()),
    ]
}

#[derive(Clone, Copy, Debug, PartialEq)]
pub enum Order {
    /// HD, SQ…, RG…, PG…, CO…
    Canonical,
    /// HD, CO…, PG…, RG…, SQ…
    Reversed,
    /// HD, then one line of each kind in turn
    Interleaved,
    /// HD last (invalid: `@HD` must be the first line)
    HdLast,
}

#[derive(Clone, Debug)]
pub struct HeaderShape {
    pub n_sq: Vec<usize>,
    pub n_rg: Vec<usize>,
    pub n_pg: Vec<usize>,
    pub n_co: Vec<usize>,
}

impl HeaderShape {
    pub fn quick() -> Self {
        HeaderShape { n_sq: vec![1, 0, 3], n_rg: vec![0, 2], n_pg: vec![0, 2], n_co: vec![0, 2] }
    }
    pub fn thorough() -> Self {
        HeaderShape { n_sq: vec![1, 0, 2, 3], n_rg: vec![0, 1, 2], n_pg: vec![0, 1, 3], n_co: vec![0, 1, 2] }
    }
}

/// Draws one header text model: counts are free choices, every line is a deviation choice.
pub fn gen_header(ch: &Chooser, shape: &HeaderShape) -> GHeader {
    const SQ: [&str; 3] = ["sq0", "sq1", "sq2"];
    const RG: [&str; 3] = ["rg0", "rg1", "rg2"];
    const PG: [&str; 3] = ["pg0", "pg1", "pg2"];
    const CO: [&str; 3] = ["co0", "co1", "co2"];
    let n_sq = *ch.pick_free("n_sq", &shape.n_sq);
    let n_rg = *ch.pick_free("n_rg", &shape.n_rg);
    let n_pg = *ch.pick_free("n_pg", &shape.n_pg);
    let n_co = *ch.pick_free("n_co", &shape.n_co);
    let hd = ch.pick("hd", &hd_alphabet()).clone();
    let sq: Vec<GLine> = (0..n_sq).map(|i| ch.pick(SQ[i], &sq_alphabet(i)).clone()).collect();
    let rg: Vec<GLine> = (0..n_rg).map(|i| ch.pick(RG[i], &rg_alphabet(i)).clone()).collect();
    let pg: Vec<GLine> = (0..n_pg).map(|i| ch.pick(PG[i], &pg_alphabet(i)).clone()).collect();
    let co: Vec<GLine> = (0..n_co).map(|i| ch.pick(CO[i], &co_alphabet(i)).clone()).collect();
    let order = *ch.pick("order", &[Order::Canonical, Order::Reversed, Order::Interleaved, Order::HdLast]);
    let mut lines = Vec::new();
    let hd_first = order != Order::HdLast;
    if hd_first {
        lines.extend(hd.clone());
    }
    match order {
        Order::Canonical | Order::HdLast => {
            lines.extend(sq);
            lines.extend(rg);
            lines.extend(pg);
            lines.extend(co);
        }
        Order::Reversed => {
            lines.extend(co);
            lines.extend(pg);
            lines.extend(rg);
            lines.extend(sq);
        }
        Order::Interleaved => {
            let mut its = [sq.into_iter(), rg.into_iter(), pg.into_iter(), co.into_iter()];
            loop {
                let mut any = false;
                for it in its.iter_mut() {
                    if let Some(l) = it.next() {
                        lines.push(l);
                        any = true;
                    }
                }
                if !any {
                    break;
                }
            }
        }
    }
    if !hd_first {
        lines.extend(hd);
    }
    GHeader { lines }
}

fn tag_ok(t: &[u8; 2]) -> bool {
    t[0].is_ascii_alphabetic() && t[1].is_ascii_alphanumeric()
}

fn rname_ok(n: &[u8]) -> bool {
    // [:rname:∧*=][:rname:]*  with [:rname:] = [0-9A-Za-z!#$%&+./:;?@^_|~-]
    let ok = |b: u8| b.is_ascii_graphic() && !b"\\,\"`'()[]{}<>".contains(&b);
    !n.is_empty() && n[0] != b'*' && n[0] != b'=' && n.iter().all(|&b| ok(b))
}

/// SAMv1 §1.3 validity of a header text model. `Accept` = valid (parser and writers must take it
/// and preserve it); `Either(why)` = invalid (rejection by parser or writer is fine; if everything
/// accepts it the round trip must still be self-consistent).
pub fn expect_header(h: &GHeader) -> Expect {
    let mut sn = Vec::new();
    let mut rg = Vec::new();
    let mut pg = Vec::new();
    for (i, l) in h.lines.iter().enumerate() {
        let GLine::Map { kind, fields } = l else { continue };
        if kind == b"HD" && i != 0 {
            return Expect::Either("HD-not-first");
        }
        for (j, (t, v)) in fields.iter().enumerate() {
            if !tag_ok(t) {
                return Expect::Either("tag-invalid");
            }
            if v.is_empty() || v.iter().any(|b| !(b' '..=b'~').contains(b)) {
                return Expect::Either("value-invalid");
            }
            if fields[..j].iter().any(|(x, _)| x == t) {
                return Expect::Either("duplicate-tag");
            }
        }
        match kind {
            b"HD" => {
                let Some(vn) = l.get(b"VN") else { return Expect::Either("HD-without-VN") };
                let s = String::from_utf8_lossy(vn);
                let ok = s.split_once('.').is_some_and(|(a, b)| {
                    !a.is_empty() && !b.is_empty() && a.bytes().all(|c| c.is_ascii_digit()) && b.bytes().all(|c| c.is_ascii_digit())
                });
                if !ok {
                    return Expect::Either("VN-invalid");
                }
            }
            b"SQ" => {
                let Some(n) = l.get(b"SN") else { return Expect::Either("SQ-without-SN") };
                if !rname_ok(n) {
                    return Expect::Either("SN-invalid");
                }
                if sn.contains(&n) {
                    return Expect::Either("SN-duplicate");
                }
                sn.push(n);
                let Some(ln) = l.get(b"LN") else { return Expect::Either("SQ-without-LN") };
                match std::str::from_utf8(ln).ok().and_then(|s| s.parse::<u64>().ok()) {
                    Some(x) if (1..=(1u64 << 31) - 1).contains(&x) => {}
                    _ => return Expect::Either("LN-out-of-range"),
                }
            }
            b"RG" => {
                let Some(id) = l.get(b"ID") else { return Expect::Either("RG-without-ID") };
                if rg.contains(&id) {
                    return Expect::Either("RG-ID-duplicate");
                }
                rg.push(id);
            }
            b"PG" => {
                let Some(id) = l.get(b"ID") else { return Expect::Either("PG-without-ID") };
                if pg.contains(&id) {
                    return Expect::Either("PG-ID-duplicate");
                }
                pg.push(id);
                if let Some(pp) = l.get(b"PP") {
                    let known = h.lines.iter().any(|x| x.kind() == *b"PG" && x.get(b"ID") == Some(pp));
                    if !known {
                        return Expect::Either("PP-dangling");
                    }
                }
            }
            _ => return Expect::Either("unknown-kind"),
        }
    }
    Expect::Accept
}
