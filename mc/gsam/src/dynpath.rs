//! The format-agnostic trait-object route: records travel as `Box<dyn Record>` (what
//! `alignment::io::Read::alignment_records()` and `noodles_util`'s alignment reader yield), are looked at
//! through every accessor of the `alignment::Record` trait — on the `Box<dyn Record>` itself (its own
//! forwarding impl), on `&dyn Record`, on `noodles_util::alignment::Record` (an enum with hand-written
//! forwarders) and inside `RecordBuf::try_from_alignment_record` — and are handed to
//! `alignment::io::Write::write_alignment_record` of every writer. Everything must agree with the
//! model value of the record.

use std::io;

use noodles_bam as bam;
use noodles_sam::{
    self as sam,
    alignment::{
        Record, RecordBuf,
        io::{Read as _, Write as _},
    },
};
use noodles_util::alignment as ua;

use crate::{
    conv::{view_buf, view_lazy},
    io::{Container, read_bam_eager, read_sam_eager},
    model::{GRec, diff},
    reuse::{Fmt, Mismatch},
    spec::norm_both,
};

const MAX: usize = 64;

/// Calls every accessor through a *generic* `R: Record`, so that with `R = Box<dyn Record>` the
/// `impl Record for Box<dyn Record>` forwarders are what runs (a `&*boxed` would bypass them).
fn view_generic<R: Record>(r: &R, h: &sam::Header) -> Result<GRec, (String, String)> {
    view_lazy(as_dyn(r), h)
}

/// `&R` → `&dyn Record` by unsizing `R` itself (never by dereferencing a `Box`).
fn as_dyn<R: Record>(r: &R) -> &dyn Record {
    r
}

fn ioerr(path: &'static str, index: usize, e: impl std::fmt::Display) -> Mismatch {
    Mismatch { reader: path, index, field: "error".into(), expected: "Ok".into(), observed: format!("Err({e})") }
}

fn cmp_one(path: &'static str, i: usize, want: &GRec, got: &GRec) -> Result<(), Mismatch> {
    // SAM text does not carry integer widths and BAM folds bases: compare modulo both
    match diff(&norm_both(want), &norm_both(got)) {
        None => Ok(()),
        Some((f, a, b)) => Err(Mismatch { reader: path, index: i, field: f, expected: a, observed: b }),
    }
}

fn cmp_all(path: &'static str, want: &[GRec], got: &[GRec]) -> Result<(), Mismatch> {
    if want.len() != got.len() {
        return Err(Mismatch {
            reader: path,
            index: want.len().min(got.len()),
            field: "record-count".into(),
            expected: want.len().to_string(),
            observed: got.len().to_string(),
        });
    }
    for (i, (w, g)) in want.iter().zip(got).enumerate() {
        cmp_one(path, i, w, g)?;
    }
    Ok(())
}

fn boxed_records(fmt: Fmt, bytes: &[u8]) -> io::Result<(sam::Header, Vec<Box<dyn Record>>)> {
    fn take<'a>(it: Box<dyn Iterator<Item = io::Result<Box<dyn Record>>> + 'a>) -> io::Result<Vec<Box<dyn Record>>> {
        let mut out = Vec::new();
        for x in it.take(MAX + 1) {
            out.push(x?);
        }
        if out.len() > MAX {
            return Err(io::Error::other("alignment_records() does not end"));
        }
        Ok(out)
    }
    match fmt {
        Fmt::Sam => {
            let mut r = sam::io::Reader::new(bytes);
            let h = r.read_alignment_header()?;
            let v = take(r.alignment_records(&h))?;
            Ok((h, v))
        }
        Fmt::Bam(Container::Raw) => {
            let mut r = bam::io::Reader::from(bytes);
            let h = r.read_alignment_header()?;
            let v = take(r.alignment_records(&h))?;
            Ok((h, v))
        }
        Fmt::Bam(Container::Bgzf) => {
            let mut r = bam::io::Reader::new(bytes);
            let h = r.read_alignment_header()?;
            let v = take(r.alignment_records(&h))?;
            Ok((h, v))
        }
    }
}

/// Writes `recs` with `write_alignment_record(&dyn Record)` where the trait object is made from the
/// `Box<dyn Record>` itself, then reads the result back with the concrete eager reader.
fn write_boxed(dst: Fmt, h: &sam::Header, recs: &[Box<dyn Record>]) -> io::Result<Vec<GRec>> {
    match dst {
        Fmt::Sam => {
            let mut w = sam::io::Writer::new(Vec::new());
            w.write_alignment_header(h)?;
            for r in recs {
                w.write_alignment_record(h, as_dyn::<Box<dyn Record>>(r))?;
            }
            sam::alignment::io::Write::finish(&mut w, h)?;
            let (_, v) = read_sam_eager(&w.into_inner())?;
            Ok(v.iter().map(view_buf).collect())
        }
        Fmt::Bam(_) => {
            let mut w = bam::io::Writer::from(Vec::new());
            w.write_alignment_header(h)?;
            for r in recs {
                w.write_alignment_record(h, as_dyn::<Box<dyn Record>>(r))?;
            }
            sam::alignment::io::Write::finish(&mut w, h)?;
            let (_, v) = read_bam_eager(&w.into_inner(), Container::Raw)?;
            Ok(v.iter().map(view_buf).collect())
        }
    }
}

/// `noodles_util::alignment` reader → (`records()` as `Box<dyn Record>` | `read_record` into the enum
/// `Record`) → `noodles_util::alignment` writer of `dst`; returns (views seen on the way, decoded result).
fn util_pipe(src: Fmt, bytes: &[u8], dst: Fmt, enum_api: bool) -> io::Result<(Vec<Result<GRec, (String, String)>>, Vec<GRec>)> {
    let (sf, scm) = match src {
        Fmt::Sam => (ua::io::Format::Sam, None),
        Fmt::Bam(Container::Bgzf) => (ua::io::Format::Bam, Some(ua::io::CompressionMethod::Bgzf)),
        Fmt::Bam(Container::Raw) => (ua::io::Format::Bam, None),
    };
    let mut r = ua::io::reader::Builder::default().set_format(sf).set_compression_method(scm).build_from_reader(bytes)?;
    let h = r.read_header()?;
    let sink = vmc::env::FaultSink::plain();
    let (df, dcm) = match dst {
        Fmt::Sam => (ua::io::Format::Sam, None),
        Fmt::Bam(_) => (ua::io::Format::Bam, Some(ua::io::CompressionMethod::Bgzf)),
    };
    let mut seen = Vec::new();
    {
        let mut w = ua::io::writer::Builder::default().set_format(df).set_compression_method(dcm).build_from_writer(sink.clone())?;
        w.write_header(&h)?;
        let mut n = 0;
        if enum_api {
            let mut rec = ua::Record::default();
            while r.read_record(&h, &mut rec)? != 0 {
                seen.push(view_generic(&rec, &h));
                w.write_record(&h, &rec)?;
                n += 1;
                if n > MAX {
                    return Err(io::Error::other("read_record does not reach EOF"));
                }
            }
        } else {
            for x in r.records(&h) {
                let rec: Box<dyn Record> = x?;
                seen.push(view_generic(&rec, &h));
                w.write_record(&h, &rec)?;
                n += 1;
                if n > MAX {
                    return Err(io::Error::other("records() does not end"));
                }
            }
        }
        w.finish(&h)?;
    }
    let out = sink.bytes();
    let got = match dst {
        Fmt::Sam => read_sam_eager(&out)?.1,
        Fmt::Bam(_) => read_bam_eager(&out, Container::Bgzf)?.1,
    };
    Ok((seen, got.iter().map(view_buf).collect()))
}

/// Sends the file `bytes` (format `src`, holding `want`) through every trait-object path.
/// `with_util` adds the `noodles_util` reader/writer pipes.
pub fn check_dyn_paths(src: Fmt, bytes: &[u8], want: &[GRec], with_util: bool) -> Result<(), Mismatch> {
    let (h, boxed) = boxed_records(src, bytes).map_err(|e| ioerr("alignment_records()", 0, e))?;
    if boxed.len() != want.len() {
        return Err(Mismatch {
            reader: "alignment_records()",
            index: boxed.len().min(want.len()),
            field: "record-count".into(),
            expected: want.len().to_string(),
            observed: boxed.len().to_string(),
        });
    }
    for (i, (b, w)) in boxed.iter().zip(want).enumerate() {
        // the Box<dyn Record> forwarders
        let g = view_generic::<Box<dyn Record>>(b, &h).map_err(|(f, m)| ioerr("Box<dyn Record>", i, format!("{f}: {m}")))?;
        cmp_one("Box<dyn Record>", i, w, &g)?;
        // the trait object behind it
        let g = view_lazy(&**b, &h).map_err(|(f, m)| ioerr("&dyn Record", i, format!("{f}: {m}")))?;
        cmp_one("&dyn Record", i, w, &g)?;
        // derived accessors through the Box
        let end = Record::alignment_end(b).transpose().map_err(|e| ioerr("Box<dyn Record>", i, e))?;
        if end.map(|p| usize::from(p) as u64) != w.end() {
            return Err(Mismatch {
                reader: "Box<dyn Record>",
                index: i,
                field: "alignment_end".into(),
                expected: format!("{:?}", w.end()),
                observed: format!("{end:?}"),
            });
        }
        // generic conversion instantiated with R = Box<dyn Record>
        let c = RecordBuf::try_from_alignment_record(&h, b).map_err(|e| ioerr("try_from_alignment_record(Box<dyn Record>)", i, e))?;
        cmp_one("try_from_alignment_record(Box<dyn Record>)", i, w, &view_buf(&c))?;
    }
    // Box<dyn Record> into each writer
    let got = write_boxed(Fmt::Sam, &h, &boxed).map_err(|e| ioerr("Box<dyn Record>->sam-writer", 0, e))?;
    cmp_all("Box<dyn Record>->sam-writer", want, &got)?;
    let got = write_boxed(Fmt::Bam(Container::Raw), &h, &boxed).map_err(|e| ioerr("Box<dyn Record>->bam-writer", 0, e))?;
    cmp_all("Box<dyn Record>->bam-writer", want, &got)?;
    if with_util {
        for (dst, enum_api, path, seen_path) in [
            (Fmt::Sam, false, "util records()->util sam-writer", "util records() Box<dyn Record>"),
            (Fmt::Bam(Container::Bgzf), false, "util records()->util bam-writer", "util records() Box<dyn Record>"),
            (Fmt::Sam, true, "util read_record(enum)->util sam-writer", "util enum Record"),
            (Fmt::Bam(Container::Bgzf), true, "util read_record(enum)->util bam-writer", "util enum Record"),
        ] {
            let (seen, got) = util_pipe(src, bytes, dst, enum_api).map_err(|e| ioerr(path, 0, e))?;
            if seen.len() != want.len() {
                return Err(Mismatch {
                    reader: seen_path,
                    index: seen.len().min(want.len()),
                    field: "record-count".into(),
                    expected: want.len().to_string(),
                    observed: seen.len().to_string(),
                });
            }
            for (i, (s, w)) in seen.into_iter().zip(want).enumerate() {
                let g = s.map_err(|(f, m)| ioerr(seen_path, i, format!("{f}: {m}")))?;
                cmp_one(seen_path, i, w, &g)?;
            }
            cmp_all(path, want, &got)?;
        }
    }
    Ok(())
}
