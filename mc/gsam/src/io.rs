//! Thin drivers around the noodles readers and writers under test.

use std::io;

use noodles_bam as bam;
use noodles_sam::{self as sam, alignment::RecordBuf, alignment::io::Write as _};

use crate::model::{GHeader, GLine};

#[derive(Clone, Copy, Debug, PartialEq)]
pub enum Container {
    /// `bam::io::Writer::from(sink)`: the BAM stream without the BGZF layer.
    Raw,
    /// `bam::io::Writer::new(sink)`: BGZF-compressed, finished with `try_finish`.
    Bgzf,
}

/// The header used by the record harnesses: `n_ref` references (0, 1 or 3), plus one line of every
/// other kind.
pub fn std_gheader(n_ref: usize) -> GHeader {
    let mut lines = vec![GLine::map("HD", &[("VN", "1.6"), ("SO", "unsorted")])];
    let refs = [("sq0", "2147483647"), ("sq1", "8"), ("chrM_1:x", "16571")];
    for (n, l) in refs.iter().take(n_ref) {
        lines.push(GLine::map("SQ", &[("SN", n), ("LN", l)]));
    }
    lines.push(GLine::map("RG", &[("ID", "rg0"), ("SM", "s 1")]));
    lines.push(GLine::map("PG", &[("ID", "pg0"), ("PN", "vmc")]));
    lines.push(GLine::Co(b"record harness".to_vec()));
    GHeader { lines }
}

pub fn std_header(n_ref: usize) -> sam::Header {
    crate::conv::parse_header_text(&std_gheader(n_ref).to_text()).expect("standard header parses")
}

/// Error of a multi-step write: which step (`header`, `record <i>`, `finish`) and the error.
#[derive(Debug)]
pub struct WriteErr {
    pub step: String,
    pub record: Option<usize>,
    pub err: io::Error,
}

pub fn write_bam(
    header: &sam::Header,
    recs: &[&dyn sam::alignment::Record],
    container: Container,
) -> Result<Vec<u8>, WriteErr> {
    fn go<W: io::Write>(
        w: &mut bam::io::Writer<W>,
        header: &sam::Header,
        recs: &[&dyn sam::alignment::Record],
    ) -> Result<(), WriteErr> {
        w.write_header(header).map_err(|err| WriteErr { step: "header".into(), record: None, err })?;
        for (i, r) in recs.iter().enumerate() {
            w.write_alignment_record(header, *r)
                .map_err(|err| WriteErr { step: format!("record {i}"), record: Some(i), err })?;
        }
        Ok(())
    }
    match container {
        Container::Raw => {
            let mut w = bam::io::Writer::from(Vec::new());
            go(&mut w, header, recs)?;
            Ok(w.into_inner())
        }
        Container::Bgzf => {
            let mut w = bam::io::Writer::new(Vec::new());
            go(&mut w, header, recs)?;
            w.try_finish().map_err(|err| WriteErr { step: "finish".into(), record: None, err })?;
            Ok(w.into_inner().into_inner())
        }
    }
}

/// The uncompressed BAM stream, obtained without noodles (independent BGZF walker).
pub fn bam_payload(bytes: &[u8], container: Container) -> Result<Vec<u8>, String> {
    match container {
        Container::Raw => Ok(bytes.to_vec()),
        Container::Bgzf => {
            let members = vmc::oracle::bgzf::walk(bytes)?;
            let mut out = Vec::new();
            for m in members {
                out.extend_from_slice(&m.data);
            }
            Ok(out)
        }
    }
}

const MAX_RECORDS: usize = 64;

pub fn read_bam_eager(bytes: &[u8], container: Container) -> io::Result<(sam::Header, Vec<RecordBuf>)> {
    fn go<R: io::Read>(mut r: bam::io::Reader<R>) -> io::Result<(sam::Header, Vec<RecordBuf>)> {
        let h = r.read_header()?;
        let mut out = Vec::new();
        loop {
            let mut rec = RecordBuf::default();
            if r.read_record_buf(&h, &mut rec)? == 0 {
                break;
            }
            out.push(rec);
            if out.len() > MAX_RECORDS {
                return Err(io::Error::other("reader does not reach EOF"));
            }
        }
        Ok((h, out))
    }
    match container {
        Container::Raw => go(bam::io::Reader::from(bytes)),
        Container::Bgzf => go(bam::io::Reader::new(bytes)),
    }
}

pub fn read_bam_lazy(bytes: &[u8], container: Container) -> io::Result<(sam::Header, Vec<bam::Record>)> {
    fn go<R: io::Read>(mut r: bam::io::Reader<R>) -> io::Result<(sam::Header, Vec<bam::Record>)> {
        let h = r.read_header()?;
        let mut out = Vec::new();
        loop {
            let mut rec = bam::Record::default();
            if r.read_record(&mut rec)? == 0 {
                break;
            }
            out.push(rec);
            if out.len() > MAX_RECORDS {
                return Err(io::Error::other("reader does not reach EOF"));
            }
        }
        Ok((h, out))
    }
    match container {
        Container::Raw => go(bam::io::Reader::from(bytes)),
        Container::Bgzf => go(bam::io::Reader::new(bytes)),
    }
}

pub fn write_sam(header: &sam::Header, recs: &[&dyn sam::alignment::Record]) -> Result<Vec<u8>, WriteErr> {
    let mut w = sam::io::Writer::new(Vec::new());
    w.write_header(header).map_err(|err| WriteErr { step: "header".into(), record: None, err })?;
    for (i, r) in recs.iter().enumerate() {
        w.write_alignment_record(header, *r)
            .map_err(|err| WriteErr { step: format!("record {i}"), record: Some(i), err })?;
    }
    Ok(w.into_inner())
}

pub fn read_sam_eager(bytes: &[u8]) -> io::Result<(sam::Header, Vec<RecordBuf>)> {
    let mut r = sam::io::Reader::new(bytes);
    let h = r.read_header()?;
    let mut out = Vec::new();
    loop {
        let mut rec = RecordBuf::default();
        if r.read_record_buf(&h, &mut rec)? == 0 {
            break;
        }
        out.push(rec);
        if out.len() > MAX_RECORDS {
            return Err(io::Error::other("reader does not reach EOF"));
        }
    }
    Ok((h, out))
}

pub fn read_sam_lazy(bytes: &[u8]) -> io::Result<(sam::Header, Vec<sam::Record>)> {
    let mut r = sam::io::Reader::new(bytes);
    let h = r.read_header()?;
    let mut out = Vec::new();
    loop {
        let mut rec = sam::Record::default();
        if r.read_record(&mut rec)? == 0 {
            break;
        }
        out.push(rec);
        if out.len() > MAX_RECORDS {
            return Err(io::Error::other("reader does not reach EOF"));
        }
    }
    Ok((h, out))
}
