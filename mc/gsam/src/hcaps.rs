//! Counts at and above every internal cap of the SAM/BAM header path. The only cap in the sync sam/bam
//! readers and writers is the pre-allocation bound of the BAM reference list (`1 << 16`), plus the
//! 8 KiB window of the `BufReader` inside the BAM raw-header adapter; the documents here put `n_ref`,
//! the number of `@RG`/`@PG`/`@CO` lines and the header text length (`l_text`) at cap−1, cap, cap+1
//! and well above, and send them SAM ↔ BAM in both directions — also as a BAM whose text carries no
//! `@SQ` lines (binary-only dictionary, as other tools write it).

use noodles_sam::{self as sam, alignment::RecordBuf};

use crate::{
    conv::{build_record, parse_header_text, view_buf, view_header},
    io::{Container, read_bam_eager, read_sam_eager, write_bam, write_sam},
    model::{GHeader, GLine, GRec, GVal, diff, diff_header},
    rawbam, samtext,
    spec::{norm_bam, norm_both, norm_sam},
};

#[derive(Clone, Debug)]
pub struct Doc {
    pub label: String,
    pub header: GHeader,
    /// also run the binary-only-dictionary variant
    pub binary_only: bool,
}

fn sq(i: usize) -> GLine {
    GLine::map("SQ", &[("SN", &format!("c{i}")), ("LN", &format!("{}", 1000 + i))])
}

fn with_refs(n: usize) -> Doc {
    let mut lines = vec![GLine::map("HD", &[("VN", "1.6"), ("SO", "unsorted")])];
    lines.extend((0..n).map(sq));
    lines.push(GLine::map("RG", &[("ID", "rg0"), ("SM", "s")]));
    lines.push(GLine::Co(format!("{n} references").into_bytes()));
    Doc { label: format!("n_ref={n}"), header: GHeader { lines }, binary_only: true }
}

fn with_lines(kind: &str, n: usize) -> Doc {
    let mut lines = vec![GLine::map("HD", &[("VN", "1.6")])];
    lines.extend((0..3).map(sq));
    for i in 0..n {
        lines.push(match kind {
            "RG" => GLine::map("RG", &[("ID", &format!("rg{i}")), ("SM", "s")]),
            "PG" => GLine::map("PG", &[("ID", &format!("pg{i}")), ("PN", "p")]),
            _ => GLine::Co(format!("comment {i}").into_bytes()),
        });
    }
    Doc { label: format!("n_{kind}={n}"), header: GHeader { lines }, binary_only: false }
}

/// A header whose SAM text is exactly `len` bytes (a padded comment).
fn with_text_len(len: usize) -> Doc {
    let mut lines = vec![GLine::map("HD", &[("VN", "1.6")])];
    lines.extend((0..3).map(sq));
    let base = GHeader { lines: lines.clone() }.to_text().len();
    let pad = len - base - b"@CO\t\n".len();
    lines.push(GLine::Co((0..pad).map(|i| b"abcdefghijklmnopqrstuvwxyz"[i % 26]).collect()));
    let d = Doc { label: format!("l_text={len}"), header: GHeader { lines }, binary_only: true };
    debug_assert_eq!(d.header.to_text().len(), len);
    d
}

pub fn docs(thorough: bool) -> Vec<Doc> {
    let mut v = vec![
        with_refs(65535),
        with_refs(65536),
        with_refs(65537),
        with_refs(70000),
        with_lines("RG", 65537),
        with_text_len(8191),
        with_text_len(8192),
        with_text_len(8193),
        with_text_len(65535),
        with_text_len(65536),
        with_text_len(65537),
    ];
    if thorough {
        v.extend([
            with_refs(131_073),
            with_refs(200_000),
            with_lines("RG", 65535),
            with_lines("RG", 65536),
            with_lines("PG", 65535),
            with_lines("PG", 65536),
            with_lines("PG", 65537),
            with_lines("CO", 65535),
            with_lines("CO", 65536),
            with_lines("CO", 65537),
            with_lines("CO", 200_000),
            with_text_len((1 << 20) - 1),
            with_text_len(1 << 20),
            with_text_len((1 << 24) + 1),
        ]);
    }
    v
}

/// Two records that pin the dictionary down from the record side: one on the first reference, one on
/// the last with its mate on the middle one.
pub fn records_for(n_ref: usize) -> Vec<GRec> {
    let mut a = crate::reuse::full();
    a.rid = Some(0);
    a.mrid = Some(0);
    let mut b = crate::reuse::full();
    b.name = Some(b"on-last-reference".to_vec());
    b.rid = Some(n_ref - 1);
    b.mrid = Some(n_ref / 2);
    b.aux = vec![(*b"XN", GVal::U32(n_ref as u32))];
    vec![a, b]
}

#[derive(Debug)]
pub struct Fail {
    pub stage: &'static str,
    pub what: String,
    pub expected: String,
    pub observed: String,
}

fn fail(stage: &'static str, what: impl Into<String>, e: impl Into<String>, o: impl Into<String>) -> Fail {
    Fail { stage, what: what.into(), expected: e.into(), observed: o.into() }
}

fn dynr(v: &[RecordBuf]) -> Vec<&dyn sam::alignment::Record> {
    v.iter().map(|r| r as &dyn sam::alignment::Record).collect()
}

fn cmp_h(stage: &'static str, a: &GHeader, b: &GHeader) -> Result<(), Fail> {
    match diff_header(a, b) {
        None => Ok(()),
        Some((w, x, y)) => {
            let w = if a.refs().len() != b.refs().len() { format!("reference-count({w})") } else { w };
            Err(fail(stage, format!("header-{w}"), format!("{} references; {x}", a.refs().len()), format!("{} references; {y}", b.refs().len())))
        }
    }
}

fn cmp_r(stage: &'static str, want: &[GRec], got: &[RecordBuf], norm: fn(&GRec) -> GRec) -> Result<(), Fail> {
    if want.len() != got.len() {
        return Err(fail(stage, "record-count", want.len().to_string(), got.len().to_string()));
    }
    for (w, g) in want.iter().zip(got) {
        if let Some((f, a, b)) = diff(&norm(w), &norm(&view_buf(g))) {
            return Err(fail(stage, format!("record-{f}"), a, b));
        }
    }
    Ok(())
}

/// The whole SAM ↔ BAM programme for one document. Returns (SAM bytes, BAM bytes) lengths.
pub fn check_doc(doc: &Doc, container: Container) -> Result<(usize, usize), Fail> {
    let m = &doc.header;
    let canon = m.canonical();
    let refs = m.refs();
    let recs = records_for(refs.len());
    let bufs: Vec<RecordBuf> = recs.iter().map(build_record).collect();
    let io = |stage: &'static str, what: &str| {
        let what = what.to_string();
        move |e: std::io::Error| fail(stage, what.clone(), "Ok", format!("Err({e})"))
    };
    let we = |stage: &'static str, what: &str| {
        let what = what.to_string();
        move |e: crate::io::WriteErr| fail(stage, what.clone(), "Ok", format!("{}: Err({})", e.step, e.err))
    };

    // text -> value
    let h = parse_header_text(&m.to_text()).map_err(io("parse", "valid-header-rejected"))?;
    let vh = view_header(&h);
    cmp_h("parse", &canon, &vh)?;

    // SAM
    let s = write_sam(&h, &dynr(&bufs)).map_err(we("sam-write", "valid-document-rejected"))?;
    {
        let (lines, rl) = samtext::split_file(&s).map_err(|e| fail("sam-text", "not-sam-text", "SAM", e))?;
        cmp_h("sam-text", &vh, &lines.canonical())?;
        if rl.len() != recs.len() {
            return Err(fail("sam-text", "record-count", recs.len().to_string(), rl.len().to_string()));
        }
        let names: Vec<Vec<u8>> = refs.iter().map(|x| x.0.clone()).collect();
        for (l, w) in rl.iter().zip(&recs) {
            let p = samtext::parse_record_line(l, &names).map_err(|e| fail("sam-text", "record-line", "a SAM record", e))?;
            if let Some((f, a, b)) = diff(&norm_sam(w), &p) {
                return Err(fail("sam-text", format!("record-{f}"), a, b));
            }
        }
    }
    let (hs, rs) = read_sam_eager(&s).map_err(io("sam-read", "own-output-unreadable"))?;
    cmp_h("sam-read", &vh, &view_header(&hs))?;
    cmp_r("sam-read", &recs, &rs, norm_sam)?;
    let s2 = write_sam(&hs, &dynr(&rs)).map_err(we("fixed-point", "second-write-error"))?;
    if s2 != s {
        return Err(fail("fixed-point", "second-write-differs", format!("{} bytes", s.len()), format!("{} bytes", s2.len())));
    }

    // BAM
    let b = write_bam(&h, &dynr(&bufs), container).map_err(we("bam-write", "valid-document-rejected"))?;
    let payload = crate::io::bam_payload(&b, container).map_err(|e| fail("bam-raw", "bgzf", "BGZF", e))?;
    let (rh, raws) = rawbam::parse_stream(&payload).map_err(|e| fail("bam-raw", "stream-malformed", "BAM", e))?;
    {
        let want: Vec<(Vec<u8>, i32)> = refs.iter().map(|(n, l)| (n.clone(), *l as i32)).collect();
        if rh.refs.len() != want.len() {
            return Err(fail("bam-raw", "n_ref", want.len().to_string(), rh.refs.len().to_string()));
        }
        if rh.refs != want {
            return Err(fail("bam-raw", "binary-dictionary-differs", "the @SQ lines", "different names/lengths"));
        }
        let (lines, _) = samtext::split_file(&rh.text).map_err(|e| fail("bam-raw", "text-not-sam", "header text", e))?;
        cmp_h("bam-raw", &vh, &lines.canonical())?;
        if raws.len() != recs.len() {
            return Err(fail("bam-raw", "record-count", recs.len().to_string(), raws.len().to_string()));
        }
        for (r, w) in raws.iter().zip(&recs) {
            let (d, _) = r.decode().map_err(|e| fail("bam-raw", "record", "decodable", e))?;
            if let Some((f, a, b)) = diff(&norm_bam(w), &d) {
                return Err(fail("bam-raw", format!("record-{f}"), a, b));
            }
        }
    }
    let (hb, rb) = read_bam_eager(&b, container).map_err(io("bam-read", "own-output-unreadable"))?;
    cmp_h("sam-vs-bam", &view_header(&hs), &view_header(&hb))?;
    cmp_r("sam-vs-bam", &recs, &rb, norm_both)?;

    // SAM -> BAM -> SAM and BAM -> SAM -> BAM
    {
        let b2 = write_bam(&hs, &dynr(&rs), container).map_err(we("pipe-sam-bam-sam", "sam-to-bam"))?;
        let (h2, r2) = read_bam_eager(&b2, container).map_err(io("pipe-sam-bam-sam", "bam-read"))?;
        let s3 = write_sam(&h2, &dynr(&r2)).map_err(we("pipe-sam-bam-sam", "bam-to-sam"))?;
        let (h3, r3) = read_sam_eager(&s3).map_err(io("pipe-sam-bam-sam", "sam-read"))?;
        cmp_h("pipe-sam-bam-sam", &vh, &view_header(&h3))?;
        cmp_r("pipe-sam-bam-sam", &recs, &r3, norm_both)?;
    }
    {
        let s4 = write_sam(&hb, &dynr(&rb)).map_err(we("pipe-bam-sam-bam", "bam-to-sam"))?;
        let (h4, r4) = read_sam_eager(&s4).map_err(io("pipe-bam-sam-bam", "sam-read"))?;
        let b5 = write_bam(&h4, &dynr(&r4), container).map_err(we("pipe-bam-sam-bam", "sam-to-bam"))?;
        let (h5, r5) = read_bam_eager(&b5, container).map_err(io("pipe-bam-sam-bam", "bam-read"))?;
        cmp_h("pipe-bam-sam-bam", &vh, &view_header(&h5))?;
        cmp_r("pipe-bam-sam-bam", &recs, &r5, norm_both)?;
    }

    // binary-only dictionary: the header text carries no @SQ line, the reference list is only binary
    if doc.binary_only {
        let text: Vec<u8> = GHeader { lines: canon.lines.iter().filter(|l| l.kind() != *b"SQ").cloned().collect() }.to_text();
        let mut stream = b"BAM\x01".to_vec();
        stream.extend_from_slice(&(text.len() as u32).to_le_bytes());
        stream.extend_from_slice(&text);
        stream.extend_from_slice(&(refs.len() as u32).to_le_bytes());
        for (n, l) in &refs {
            stream.extend_from_slice(&((n.len() + 1) as u32).to_le_bytes());
            stream.extend_from_slice(n);
            stream.push(0);
            stream.extend_from_slice(&(*l as u32).to_le_bytes());
        }
        // the record section as noodles wrote it
        let rec_off = {
            let own_header = write_bam(&h, &[], Container::Raw).map_err(we("binary-only", "harness"))?;
            own_header.len()
        };
        stream.extend_from_slice(&payload[rec_off..]);
        let (hx, rx) = read_bam_eager(&stream, Container::Raw).map_err(io("binary-only", "foreign-bam-unreadable"))?;
        // expected value: the same header, its @SQ lines reduced to SN and LN
        let want = GHeader {
            lines: canon
                .lines
                .iter()
                .map(|l| match l {
                    GLine::Map { kind, fields } if kind == b"SQ" => GLine::Map { kind: *kind, fields: fields.iter().filter(|(t, _)| t == b"SN" || t == b"LN").cloned().collect() },
                    x => x.clone(),
                })
                .collect(),
        };
        cmp_h("binary-only", &want, &view_header(&hx))?;
        cmp_r("binary-only", &recs, &rx, norm_bam)?;
        // and on to SAM and back to BAM
        let sx = write_sam(&hx, &dynr(&rx)).map_err(we("binary-only", "bam-to-sam"))?;
        let (hy, ry) = read_sam_eager(&sx).map_err(io("binary-only", "sam-read"))?;
        cmp_h("binary-only-to-sam", &want, &view_header(&hy))?;
        cmp_r("binary-only-to-sam", &recs, &ry, norm_both)?;
        let bx = write_bam(&hy, &dynr(&ry), container).map_err(we("binary-only", "sam-to-bam"))?;
        let (hz, rz) = read_bam_eager(&bx, container).map_err(io("binary-only", "bam-read"))?;
        cmp_h("binary-only-to-sam-to-bam", &want, &view_header(&hz))?;
        cmp_r("binary-only-to-sam-to-bam", &recs, &rz, norm_both)?;
    }
    Ok((s.len(), b.len()))
}
