//! E2: breadth-first search over operation histories with a canonical key built from public
//! observations only, and the abstraction self-check of DESIGN §2.3: a history that arrives at an
//! already-seen key is not trusted to be equivalent — all its one-operation continuations are still
//! executed and their observation tuples compared with those of the key's representative.

use std::{
    collections::{BTreeMap, HashMap},
    sync::{
        Arc, Mutex,
        atomic::{AtomicUsize, Ordering},
    },
    time::Instant,
};

use vmc::{Custom, json};

use crate::{
    e1::{self, Acc},
    files::TFile,
    sim::{self, Fail, Key, Kind, Obs, Op, Sim},
};

#[derive(Clone, Debug, PartialEq, Eq)]
enum Cont {
    Ok(Op, u64, Key),
    Viol(Op, String),
}

struct St {
    hist: Vec<Op>,
    conts: Option<Vec<Cont>>,
}

#[derive(Default)]
struct Tot {
    acc: Acc,
    states: u64,
    transitions: u64,
    merged: u64,
    revalidated: u64,
    reval_execs: u64,
    rep_expansions: u64,
    differ_by_violation: u64,
    configs: u64,
    fixpoints: u64,
    max_new_depth: usize,
    max_states_one_config: u64,
    sample: Option<String>,
}

/// Replays `hist` on fresh readers and applies every enabled operation once.
fn continuations(
    f: &TFile,
    kind: Kind,
    variant: usize,
    hist: &[Op],
    scratch: &mut [u8],
) -> Result<Vec<(Op, Result<Obs, Fail>)>, String> {
    let replay = |scratch: &mut [u8]| -> Result<Sim, String> {
        let mut sim = Sim::new(f, kind, variant);
        for op in hist {
            sim.step(*op, scratch)
                .map_err(|e| format!("validated history {hist:?} failed on replay: {}", e.fp))?;
        }
        Ok(sim)
    };
    let avail = replay(scratch)?.avail;
    let mut ops = Vec::new();
    sim::enabled_ops(f, kind, variant, avail, &mut ops);
    let mut out = Vec::with_capacity(ops.len());
    for op in ops {
        let mut sim = replay(scratch)?;
        out.push((op, sim.step(op, scratch)));
    }
    Ok(out)
}

fn to_conts(cs: &[(Op, Result<Obs, Fail>)]) -> Vec<Cont> {
    cs.iter()
        .map(|(op, r)| match r {
            Ok(o) => Cont::Ok(*op, o.res, o.key),
            Err(e) => Cont::Viol(*op, e.fp.clone()),
        })
        .collect()
}

fn search(f: &TFile, kind: Kind, variant: usize, max_depth: usize, t: &mut Tot) -> Result<(), String> {
    let mut scratch = vec![0u8; sim::scratch_len(f)];
    t.configs += 1;
    let sim0 = Sim::new(f, kind, variant);
    if let Err(fail) = sim0.check_initial() {
        t.acc.record(f, kind, variant, &[], fail);
        return Ok(());
    }
    let mut seen: HashMap<Key, usize> = HashMap::new();
    let mut sts: Vec<St> = vec![St {
        hist: Vec::new(),
        conts: None,
    }];
    seen.insert(sim0.key(), 0);
    drop(sim0);
    let mut frontier = vec![0usize];
    let mut merged: Vec<(Vec<Op>, usize)> = Vec::new();
    let mut fixpoint = false;
    for d in 0..max_depth {
        let mut next = Vec::new();
        for &sid in &frontier {
            let hist = sts[sid].hist.clone();
            let cs = continuations(f, kind, variant, &hist, &mut scratch)?;
            for (op, r) in &cs {
                t.transitions += 1;
                let mut h2 = hist.clone();
                h2.push(*op);
                match r {
                    Err(fail) => t.acc.record(f, kind, variant, &h2, fail.clone()),
                    Ok(o) => match seen.get(&o.key) {
                        Some(&to) => merged.push((h2, to)),
                        None => {
                            let id = sts.len();
                            seen.insert(o.key, id);
                            sts.push(St { hist: h2, conts: None });
                            next.push(id);
                            t.max_new_depth = t.max_new_depth.max(d + 1);
                        }
                    },
                }
            }
            sts[sid].conts = Some(to_conts(&cs));
        }
        if next.is_empty() {
            fixpoint = true;
            break;
        }
        frontier = next;
    }
    if fixpoint {
        t.fixpoints += 1;
    }
    t.states += sts.len() as u64;
    t.max_states_one_config = t.max_states_one_config.max(sts.len() as u64);
    t.merged += merged.len() as u64;

    // abstraction self-check
    for (h, to) in &merged {
        if sts[*to].conts.is_none() {
            // representative lies on the depth bound: expand it for observation only
            let hist = sts[*to].hist.clone();
            let cs = continuations(f, kind, variant, &hist, &mut scratch)?;
            t.rep_expansions += 1;
            t.reval_execs += cs.len() as u64;
            sts[*to].conts = Some(to_conts(&cs));
        }
        let cs = continuations(f, kind, variant, h, &mut scratch)?;
        t.reval_execs += cs.len() as u64;
        t.revalidated += 1;
        let mine = to_conts(&cs);
        // every continuation is a real execution checked against the model: keep what it found
        for (op, r) in &cs {
            if let Err(fail) = r {
                let mut h2 = h.clone();
                h2.push(*op);
                t.acc.record(f, kind, variant, &h2, fail.clone());
            }
        }
        let theirs = sts[*to].conts.as_ref().unwrap();
        // A difference in which one side is a violation is reported as that violation (the hidden state
        // that distinguishes the two histories is only observable through the defect); a difference
        // between two passing observations means the key is too coarse: machinery error.
        let benign = |a: &Cont, b: &Cont| a == b || matches!(a, Cont::Viol(..)) || matches!(b, Cont::Viol(..));
        if mine.len() == theirs.len() && mine != *theirs && mine.iter().zip(theirs.iter()).all(|(a, b)| benign(a, b)) {
            t.differ_by_violation += 1;
        } else if &mine != theirs {
            let i = mine.iter().zip(theirs.iter()).position(|(a, b)| a != b);
            return Err(format!(
                "key too coarse on {} {}: histories {:?} and {:?} reach the same key but continuation {:?} differs: {:?} vs {:?}",
                f.name(),
                kind.name(),
                h,
                sts[*to].hist,
                i,
                i.map(|i| &mine[i]),
                i.map(|i| &theirs[i]),
            ));
        }
    }
    if t.sample.is_none() && sts.len() > 20 {
        let deepest = sts.iter().max_by_key(|s| s.hist.len()).unwrap();
        t.sample = Some(format!(
            "{} states; deepest representative: {}",
            sts.len(),
            sim::describe(f, kind, variant, &deepest.hist)
        ));
    }
    Ok(())
}

pub fn run(name: &str, files: &[Arc<TFile>], max_depth: usize, rule: &str) -> Custom {
    let t0 = Instant::now();
    let mut items: Vec<(usize, Kind, usize)> = Vec::new();
    for (fi, f) in files.iter().enumerate() {
        for (kind, variant) in sim::configs(f) {
            items.push((fi, kind, variant));
        }
    }
    // biggest first for load balance
    items.sort_by_key(|&(fi, kind, _)| {
        let f = &files[fi];
        std::cmp::Reverse((f.total + 1) * (f.targets.len() * (kind == Kind::Plain) as usize + f.uoffs.len() + 16))
    });
    let next = AtomicUsize::new(0);
    let total: Mutex<Tot> = Mutex::new(Tot::default());
    let errors: Mutex<Vec<String>> = Mutex::new(Vec::new());
    std::thread::scope(|s| {
        for _ in 0..vmc::explore::default_threads() {
            s.spawn(|| {
                let mut local = Tot::default();
                loop {
                    let i = next.fetch_add(1, Ordering::Relaxed);
                    if i >= items.len() {
                        break;
                    }
                    let (fi, kind, variant) = items[i];
                    if let Err(e) = search(&files[fi], kind, variant, max_depth, &mut local) {
                        errors.lock().unwrap().push(e);
                    }
                }
                let mut g = total.lock().unwrap();
                g.acc.merge(std::mem::take(&mut local.acc));
                g.states += local.states;
                g.transitions += local.transitions;
                g.merged += local.merged;
                g.revalidated += local.revalidated;
                g.reval_execs += local.reval_execs;
                g.rep_expansions += local.rep_expansions;
                g.differ_by_violation += local.differ_by_violation;
                g.configs += local.configs;
                g.fixpoints += local.fixpoints;
                g.max_new_depth = g.max_new_depth.max(local.max_new_depth);
                g.max_states_one_config = g.max_states_one_config.max(local.max_states_one_config);
                if g.sample.is_none() {
                    g.sample = local.sample.take();
                }
            });
        }
    });
    if let Some(e) = errors.into_inner().unwrap().into_iter().next() {
        vmc::machinery(format!("{name}: {e}"));
    }
    let t = total.into_inner().unwrap();
    let n_cfg = t.configs;
    let mut c = e1::finish(
        name,
        files,
        t.acc,
        n_cfg,
        rule,
        t0,
        "E2 history BFS, key = (position(), virtual_position(), inner cursor, model p, model avail), self-checked",
    );
    c.evaluations = t.transitions + t.reval_execs;
    c.distinct = t.states;
    c.states = t.states;
    c.transitions = t.transitions;
    let mut extra: BTreeMap<String, vmc::serde_json::Value> = BTreeMap::new();
    for k in ["engine", "rule", "files", "layouts", "configurations(file x reader kind x gzi)"] {
        if let Some(v) = c.extra.get(k) {
            extra.insert(k.to_string(), v.clone());
        }
    }
    extra.insert("depth_bound".into(), json!(max_depth));
    extra.insert("configurations_at_fixpoint(no new state at the last level)".into(), json!(t.fixpoints));
    extra.insert("max_depth_with_a_new_state".into(), json!(t.max_new_depth));
    extra.insert("max_states_in_one_configuration".into(), json!(t.max_states_one_config));
    extra.insert("merged_arrivals".into(), json!(t.merged));
    extra.insert("merged_arrivals_revalidated".into(), json!(t.revalidated));
    extra.insert("continuations_executed_for_revalidation".into(), json!(t.reval_execs));
    extra.insert("representatives_on_the_bound_expanded_for_revalidation".into(), json!(t.rep_expansions));
    extra.insert("merged_arrivals_differing_from_their_representative_only_by_a_violation".into(), json!(t.differ_by_violation));
    c.extra = extra;
    c.exhaustive = true;
    c.samples = t.sample.into_iter().collect();
    c
}
