//! C02 — BGZF virtual positions name bytes: tell / seek / gzi are mutually consistent.
//!
//! Subject: `bgzf::io::Reader<Cursor<_>>`, `bgzf::io::IndexedReader`, `bgzf::io::Writer::virtual_position`,
//! `gzi::Index::query`, `gzi::io::{Writer, Reader}`.
//! Oracle: flat-array model `(data, p)`; a reported virtual position is accepted iff it *resolves*
//! (member start -> skip empty members -> offset) to the model cursor.
//! Engines: E1 un-deduplicated history enumeration (bespoke, parallel), E2 history BFS with a
//! self-checked canonical key, E1 (vmc explorer) for the writer side, E3 sweep for gzi offsets.

mod e1;
mod e2;
mod files;
mod sim;
mod writer;

use std::sync::Arc;

use vmc::{Config, Violation, oracle::bgzf::Payload};

use crate::{
    files::TFile,
    sim::{Kind, Op, Sim},
};

const CUSTOM: [&str; 6] = ["reader_hist_small", "reader_hist_small_d4", "reader_hist_64k", "reader_search", "reader_search_64k", "gzi_io"];

fn replay_custom(p: &vmc::serde_json::Value) -> vmc::Outcome {
    let sizes: Vec<usize> = p["sizes"]
        .as_array()
        .map(|a| a.iter().map(|x| x.as_u64().unwrap_or(0) as usize).collect())
        .unwrap_or_default();
    let eof = p["eof"].as_bool().unwrap_or(false);
    let f = files::build_one(&sizes, eof);
    if p["gzi_io"].as_bool() == Some(true) {
        return match &f.gzi_io_error {
            Some(e) => Err(Violation::new("stage=gzi-io check=roundtrip", f.describe(), "entries as given", e.clone())),
            None => Ok(()),
        };
    }
    let kind = if p["kind"].as_str() == Some("IndexedReader") { Kind::Indexed } else { Kind::Plain };
    let variant = p["gzi"].as_u64().unwrap_or(0) as usize;
    let ops: Vec<Op> = p["ops"]
        .as_array()
        .map(|a| a.iter().map(|j| Op::from_json(j, &f).unwrap_or_else(|| vmc::machinery("bad op in replay file"))).collect())
        .unwrap_or_default();
    println!("replayed history: {}", sim::describe(&f, kind, variant, &ops));
    let mut scratch = vec![0u8; sim::scratch_len(&f)];
    match sim::run_history(&f, kind, variant, &ops, &mut scratch) {
        Ok(_) => Ok(()),
        Err((_, e)) => Err(Violation::new(e.fp, sim::describe(&f, kind, variant, &ops), e.expected, e.observed)),
    }
}

/// gzi sweep body: every enumerated offset of one file, both gzi variants, both reader kinds, index
/// taken directly and after gzi::io (the two combinations the history harnesses do not use).
fn gzi_case(f: &TFile) -> vmc::Outcome {
    let mut scratch = vec![0u8; sim::scratch_len(f)];
    for swap in [true, false] {
        for (kind, variant) in [(Kind::Plain, 0), (Kind::Plain, 1), (Kind::Indexed, 0), (Kind::Indexed, 1)] {
            if variant >= f.gzi.len() {
                continue;
            }
            for &off in &f.uoffs {
                let rem = f.total - off;
                let mut hist = vec![Op::SeekU(variant as u8, off as u32), Op::FillBuf];
                if rem > 0 {
                    hist.push(Op::ReadExact(rem.min(4) as u32));
                }
                let mut sim = Sim::with_index_source(f, kind, variant, swap);
                for (i, op) in hist.iter().enumerate() {
                    if let Err(e) = sim.step(*op, &mut scratch) {
                        return Err(Violation::new(
                            format!("{} index={}", e.fp, if swap == (kind == Kind::Plain) { "via-gzi-io" } else { "direct" }),
                            sim::describe(f, kind, variant, &hist[..=i]),
                            e.expected,
                            e.observed,
                        ));
                    }
                }
            }
        }
    }
    Ok(())
}

fn main() {
    vmc::run("C02", "model_checking", |ctx| {
        use writer::WOp::*;
        ctx.rule(
            "files: every sequence of <= B blocks over the payload-size alphabet, with and without EOF marker, built by the harness's block maker and de-duplicated by content; \
             histories: every sequence of enabled reader operations (read x6 sizes, read_exact x5, fill_buf, consume x3 bounded by the last fill_buf, seek to every reportable form of every byte boundary, seek by uncompressed offset through both gzi variants) up to the depth, per file x reader kind; \
             distinct = distinct observation logs (E1) / distinct canonical keys (E2); writer: every sequence of write/flush/try_finish/get_ref letters (try_finish at any position: the writer stays in use, giving EOF markers in mid-stream) x payload class x level, with every sampled position resolved against the walker's member table and sought in a fresh reader, a shared reader and, by uncompressed offset, through both gzi variants in Reader and IndexedReader",
        );
        ctx.assume("miniz_oxide deflate/inflate and crc32fast (block maker and walker) are correct; they are independent of zlib-rs used by noodles");
        ctx.assume("std::io::Cursor behaves as specified");

        let quick = ctx.quick();
        let (max_blocks, sizes): (usize, Vec<usize>) = if quick { (3, vec![0, 1, 3, 65536]) } else { (4, vec![0, 1, 3, 65536, 2, 65535]) };

        if ctx.is_replay() {
            for name in CUSTOM {
                if let Some(p) = ctx.custom_replay(name) {
                    let o = replay_custom(&p);
                    ctx.set_replay_outcome(o);
                    return;
                }
            }
        }

        let (all, n_layouts) = files::build_all(max_blocks, &sizes);
        let small: Vec<Arc<TFile>> = all.iter().filter(|f| f.small).cloned().collect();
        let big: Vec<Arc<TFile>> = all.iter().filter(|f| !f.small).cloned().collect();
        if !ctx.is_replay() {
            eprintln!(
                "[C02] {} layouts -> {} distinct files ({} small-block, {} with 64 KiB blocks)",
                n_layouts,
                all.len(),
                small.len(),
                big.len()
            );
            ctx.extra(
                "files",
                vmc::json!({"layouts": n_layouts, "distinct_files": all.len(), "small_block_files": small.len(), "files_with_64KiB_blocks": big.len(),
                            "max_blocks": max_blocks, "payload_sizes": sizes}),
            );

            // gzi::io::Writer -> Reader reproduces the entries and the defined byte layout
            let mut c = vmc::Custom {
                name: "gzi_io".into(),
                evaluations: all.iter().map(|f| f.gzi.len() as u64).sum(),
                distinct: all.iter().map(|f| f.gzi.len() as u64).sum(),
                exhaustive: true,
                ..Default::default()
            };
            for f in &all {
                if let Some(e) = &f.gzi_io_error {
                    c.found.push((
                        Violation::new("stage=gzi-io check=roundtrip", f.describe(), "entries and bytes as defined", e.clone()),
                        vmc::json!({"sizes": f.sizes, "eof": f.eof, "gzi_io": true}),
                        1,
                    ));
                    break;
                }
            }
            ctx.custom(c);

            // E1: all histories to depth 3 over the small-block files
            ctx.custom(e1::run(
                "reader_hist_small",
                &small,
                &|_| 3,
                "all histories of length <= 3 over all small-block files x {Reader, IndexedReader x gzi variant}",
            ));
            // E1 over the files with 64 KiB blocks (alphabet restricted to +-2 of block edges)
            let deep = if quick { 2 } else { 3 };
            ctx.custom(e1::run(
                "reader_hist_64k",
                &big,
                &|f: &TFile| if f.sizes.len() <= deep { 3 } else { 2 },
                &format!("all histories of length <= 3 for files of <= {deep} blocks, <= 2 otherwise, over all files with a 65535/65536-byte block; seek targets and offsets within 2 of a block edge"),
            ));
            if !quick {
                // next bound: length 4 over the quick tier's small-block files
                let q: Vec<Arc<TFile>> = small
                    .iter()
                    .filter(|f| f.sizes.len() <= 3 && f.sizes.iter().all(|s| [0, 1, 3].contains(s)))
                    .cloned()
                    .collect();
                ctx.custom(e1::run(
                    "reader_hist_small_d4",
                    &q,
                    &|_| 4,
                    "all histories of length <= 4 over the small-block files of <= 3 blocks with sizes {0,1,3}",
                ));
            }
            // E2 on the small-block files
            let bound = if quick { 5 } else { 8 };
            ctx.custom(e2::run(
                "reader_search",
                &small,
                bound,
                &format!("BFS over histories to fixpoint or depth {bound}; every merged arrival re-validated by executing all its one-op continuations"),
            ));
            // E2 on the shortest files with 64 KiB blocks as well
            let nb = if quick { 1 } else { 2 };
            let b: Vec<Arc<TFile>> = big.iter().filter(|f| f.sizes.len() <= nb).cloned().collect();
            ctx.custom(e2::run(
                "reader_search_64k",
                &b,
                bound,
                &format!("as reader_search, over the files of <= {nb} blocks that contain a 65535/65536-byte block"),
            ));
        }

        // E3: gzi offsets x index source x reader kind
        let n = all.len() as u64;
        ctx.sweep(
            "gzi_offsets",
            n,
            |i| all[i as usize].describe(),
            |i| gzi_case(&all[i as usize]),
        );
        ctx.add_distinct(all.iter().map(|f| f.uoffs.len() as u64 * f.gzi.len() as u64).sum(), 0);

        // writer side
        // writer side: write / flush / try_finish / get_ref at any position of the history
        let alpha = [W(1), F, T, W(65495), W(65496), W(0), W(255), W(130991), G];
        // longer histories over the letters that decide the member structure
        let core = [W(1), F, T, W(65496), G];
        if quick {
            ctx.harness(Config::new("writer_tell_d3", 0), |ch| {
                writer::body(ch, &alpha, 3, &[Payload::Text, Payload::Random], &[6, 0])
            });
            ctx.harness(Config::new("writer_members_d5", 0), |ch| {
                writer::body(ch, &core, 5, &[Payload::Text], &[6])
            });
        } else {
            ctx.harness(Config::new("writer_tell_d4", 0), |ch| {
                writer::body(ch, &alpha, 4, &[Payload::Text, Payload::Random, Payload::Zeros], &[6, 0, 1, 9])
            });
            ctx.harness(Config::new("writer_members_d6", 0), |ch| {
                writer::body(ch, &core, 6, &[Payload::Text, Payload::Random], &[6, 0])
            });
        }
    });
}
