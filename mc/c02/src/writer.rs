//! Writer side: a virtual position sampled from `bgzf::io::Writer` between calls names the byte that is
//! written next — seeking a fresh reader there over the finished file reads the bytes written from
//! that point on.

use std::io::{BufRead, Cursor, Read, Write};

use noodles_bgzf as bgzf;
use vmc::{
    Chooser, Outcome, Violation,
    oracle::bgzf::{self as ob, Payload},
};

use crate::files::{Blk, resolve_in, vp};

#[derive(Clone, Copy, Debug, PartialEq)]
pub enum WOp {
    W(usize),
    F,
}

fn fp(stage: &str, check: &str) -> String {
    format!("side=writer stage={stage} check={check}")
}

pub fn body(ch: &Chooser, alphabet: &[WOp], depth: usize, classes: &[Payload], levels: &[u8]) -> Outcome {
    let class = *ch.pick_free("class", classes);
    let level = *ch.pick_free("level", levels);
    let mut ops = Vec::new();
    for _ in 0..depth {
        let k = ch.free("op", alphabet.len() + 1);
        if k == 0 {
            break;
        }
        ops.push(alphabet[k - 1]);
    }
    let describe = || {
        format!(
            "payload={class:?} level={level} writer ops={ops:?} (W(n) = raw write() calls until n bytes are accepted, F = flush), virtual_position() sampled before every call and before finish()"
        )
    };
    ch.desc(describe);
    let err = |stage: &str, e: std::io::Error| Violation::new(fp(stage, "error"), describe(), "Ok", format!("{e}"));

    let lvl = bgzf::io::writer::CompressionLevel::new(level).expect("level");
    let mut w = bgzf::io::writer::Builder::default()
        .set_compression_level(lvl)
        .build_from_writer(Vec::new());
    let mut model: Vec<u8> = Vec::new();
    // (virtual position, uncompressed offset it was sampled at, what follows)
    let mut samples: Vec<(u64, usize, &'static str)> = Vec::new();
    for op in &ops {
        match *op {
            WOp::F => {
                samples.push((u64::from(w.virtual_position()), model.len(), "flush"));
                w.flush().map_err(|e| err("flush", e))?;
            }
            WOp::W(n) => {
                let data = ob::payload(class, model.len() as u64, n);
                let mut off = 0;
                let mut calls = 0;
                loop {
                    samples.push((u64::from(w.virtual_position()), model.len(), "write"));
                    let k = w.write(&data[off..]).map_err(|e| err("write", e))?;
                    if k > data.len() - off || (k == 0 && off < data.len()) {
                        return Err(Violation::new(fp("write", "count"), describe(), format!("1..={}", data.len() - off), format!("{k}")));
                    }
                    model.extend_from_slice(&data[off..off + k]);
                    off += k;
                    calls += 1;
                    if off == data.len() || calls > 100 {
                        break;
                    }
                }
            }
        }
    }
    samples.push((u64::from(w.virtual_position()), model.len(), "finish"));
    let bytes = w.finish().map_err(|e| err("finish", e))?;
    samples.dedup_by_key(|s| (s.0, s.1));

    // the file's geometry by the independent walker
    let members = ob::walk(&bytes).map_err(|e| Violation::new(fp("walk", "malformed"), describe(), "well-formed BGZF", e))?;
    let mut blocks = Vec::new();
    let mut u = 0usize;
    for m in &members {
        blocks.push(Blk {
            cstart: m.offset as u64,
            csize: m.size as u64,
            ustart: u,
            len: m.data.len(),
        });
        u += m.data.len();
    }
    let flen = bytes.len() as u64;
    let total = model.len();
    if u != total {
        return Err(Violation::new(fp("walk", "length"), describe(), format!("{total} bytes"), format!("{u} bytes")));
    }
    let resolve = |v: u64| resolve_in(&blocks, flen, total, v);

    let mut prev = 0u64;
    for &(v, off, before) in &samples {
        let d = || format!("{}; sample {} taken at uncompressed offset {off} before {before}", describe(), vp(v));
        if v < prev {
            return Err(Violation::new(fp("tell", "vpos-decreased"), d(), format!(">= {}", vp(prev)), vp(v)));
        }
        prev = v;
        // (1) structurally: the position names that boundary of the finished file
        if resolve(v) != Some(off) {
            return Err(Violation::new(
                fp("tell", "vpos-resolves-elsewhere"),
                d(),
                format!("a position resolving to byte {off}"),
                format!("{} resolves to {:?}", vp(v), resolve(v)),
            ));
        }
        // (2) a fresh reader sought there reads the bytes written from that point on
        let mut r = bgzf::io::Reader::new(Cursor::new(&bytes[..]));
        r.seek(bgzf::VirtualPosition::from(v))
            .map_err(|e| Violation::new(fp("seek", "error"), d(), "Ok", format!("{e}")))?;
        let rv = u64::from(r.virtual_position());
        if resolve(rv) != Some(off) {
            return Err(Violation::new(
                fp("seek", "reader-vpos-resolves-elsewhere"),
                d(),
                format!("a position resolving to byte {off}"),
                format!("{} resolves to {:?}", vp(rv), resolve(rv)),
            ));
        }
        let mut back = Vec::new();
        r.read_to_end(&mut back)
            .map_err(|e| Violation::new(fp("read_to_end", "error"), d(), "Ok", format!("{e}")))?;
        if back != model[off..] {
            return Err(Violation::new(
                fp("read_to_end", "bytes"),
                d(),
                format!("the {} bytes written from offset {off} on", total - off),
                vmc::diff_bytes(&model[off..], &back),
            ));
        }
        ch.state((v, off));
        if v & 0xffff == 0 && off > 0 {
            ch.tag("sample at a block start after data");
        }
        if v & 0xffff != 0 {
            ch.tag("sample inside the staging buffer");
        }
        if off == total {
            ch.tag("sample at the end of the data");
        }
        if blocks.iter().any(|b| b.cstart == v >> 16 && b.len == (v & 0xffff) as usize && b.len > 0) {
            ch.tag("sample in block-end form (block flushed right after)");
        }
        if blocks.iter().any(|b| b.cstart == v >> 16 && b.len == 65495) {
            ch.tag("sample in a block cut by a full staging buffer");
        }
    }

    // (3) one reader used for all samples, backwards then forwards (seeks from arbitrary prior states)
    let mut r = bgzf::io::Reader::new(Cursor::new(&bytes[..]));
    let order: Vec<_> = samples.iter().rev().chain(samples.iter()).collect();
    for &&(v, off, _) in &order {
        let d = || format!("{}; one reader seeking all samples backwards then forwards, at sample {} (offset {off})", describe(), vp(v));
        r.seek(bgzf::VirtualPosition::from(v))
            .map_err(|e| Violation::new(fp("reseek", "error"), d(), "Ok", format!("{e}")))?;
        let n = (total - off).min(5);
        let mut buf = [0u8; 5];
        r.read_exact(&mut buf[..n])
            .map_err(|e| Violation::new(fp("reseek", "read_exact-error"), d(), "Ok", format!("{e}")))?;
        if buf[..n] != model[off..off + n] {
            return Err(Violation::new(
                fp("reseek", "bytes"),
                d(),
                format!("{:?}", &model[off..off + n]),
                format!("{:?}", &buf[..n]),
            ));
        }
        let rest = r
            .fill_buf()
            .map_err(|e| Violation::new(fp("reseek", "fill_buf-error"), d(), "Ok", format!("{e}")))?;
        if rest.is_empty() != (off + n == total) {
            return Err(Violation::new(
                fp("reseek", "fill_buf-emptiness"),
                d(),
                format!("empty = {}", off + n == total),
                format!("{} bytes", rest.len()),
            ));
        }
    }

    ch.obs_hash(&samples.iter().map(|s| (s.0, s.1)).collect::<Vec<_>>());
    Ok(())
}
