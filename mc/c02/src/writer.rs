//! Writer side: a virtual position sampled from `bgzf::io::Writer` between calls names the byte that is
//! written next — seeking any reader there over the finished file reads the bytes written from that
//! point on.
//!
//! The history alphabet is write / flush / `try_finish` / `get_ref` at ANY position: a writer that keeps
//! being used after `try_finish()` produces a legal stream with an EOF marker (an empty member) in the
//! middle, as when a second BGZF stream is appended. (`bgzf::io::Writer` has no `get_mut()`.)

use std::io::{BufRead, Cursor, Read, Seek, SeekFrom, Write};

use noodles_bgzf as bgzf;
use vmc::{
    Chooser, Outcome, Violation,
    oracle::bgzf::{self as ob, Payload},
};

use crate::files::{Blk, resolve_in, vp};

#[derive(Clone, Copy, Debug, PartialEq)]
pub enum WOp {
    /// raw `write()` calls until n bytes are accepted
    W(usize),
    /// `flush()`
    F,
    /// `try_finish()` — the writer stays usable afterwards
    T,
    /// `get_ref()`: the sink so far must consist of whole members holding the flushed prefix of the data,
    /// and the position reported now must point at the sink's end (where the next member will start)
    G,
}

fn table(members: &[ob::Member]) -> (Vec<Blk>, usize) {
    let mut blocks = Vec::new();
    let mut u = 0usize;
    for m in members {
        blocks.push(Blk {
            cstart: m.offset as u64,
            csize: m.size as u64,
            ustart: u,
            len: m.data.len(),
        });
        u += m.data.len();
    }
    (blocks, u)
}

pub fn body(ch: &Chooser, alphabet: &[WOp], depth: usize, classes: &[Payload], levels: &[u8]) -> Outcome {
    let class = *ch.pick_free("class", classes);
    let level = *ch.pick_free("level", levels);
    let mut ops = Vec::new();
    for _ in 0..depth {
        let k = ch.free("op", alphabet.len() + 1);
        if k == 0 {
            break;
        }
        ops.push(alphabet[k - 1]);
    }
    let describe = || {
        format!(
            "payload={class:?} level={level} writer ops={ops:?} (W(n) = raw write() calls until n bytes are accepted, F = flush, T = try_finish, G = get_ref), virtual_position() sampled before every call and before finish()"
        )
    };
    ch.desc(describe);
    // class-level shape of the history for the fingerprint
    let shape = {
        let first_t = ops.iter().position(|o| *o == WOp::T);
        match first_t {
            Some(i) if ops[i + 1..].iter().any(|o| matches!(o, WOp::W(n) if *n > 0)) => "data-after-try_finish",
            Some(_) => "try_finish-without-later-data",
            None => "no-try_finish",
        }
    };
    let fp = |stage: &str, check: &str| format!("side=writer history={shape} stage={stage} check={check}");
    let err = |stage: &str, e: std::io::Error| Violation::new(fp(stage, "error"), describe(), "Ok", format!("{e}"));

    let lvl = bgzf::io::writer::CompressionLevel::new(level).expect("level");
    let mut w = bgzf::io::writer::Builder::default()
        .set_compression_level(lvl)
        .build_from_writer(Vec::new());
    let mut model: Vec<u8> = Vec::new();
    // (virtual position, uncompressed offset it was sampled at, what follows)
    let mut samples: Vec<(u64, usize, &'static str)> = Vec::new();
    for op in &ops {
        match *op {
            WOp::F => {
                samples.push((u64::from(w.virtual_position()), model.len(), "flush"));
                w.flush().map_err(|e| err("flush", e))?;
            }
            WOp::T => {
                samples.push((u64::from(w.virtual_position()), model.len(), "try_finish"));
                w.try_finish().map_err(|e| err("try_finish", e))?;
                ch.tag("try_finish inside the history");
            }
            WOp::G => {
                let v = u64::from(w.virtual_position());
                samples.push((v, model.len(), "get_ref"));
                let sink: Vec<u8> = w.get_ref().clone();
                let members = ob::walk(&sink)
                    .map_err(|e| Violation::new(fp("get_ref", "sink-malformed"), describe(), "whole well-formed members", e))?;
                let (blocks, flushed) = table(&members);
                let cat: Vec<u8> = members.iter().flat_map(|m| m.data.iter().copied()).collect();
                if flushed > model.len() || cat[..] != model[..flushed] {
                    return Err(Violation::new(
                        fp("get_ref", "sink-content"),
                        describe(),
                        "a prefix of the bytes written",
                        vmc::diff_bytes(&model[..flushed.min(model.len())], &cat),
                    ));
                }
                // the position names byte `u` of the member that will start at the sink's end; any
                // equivalent encoding (start of a trailing run of empty members) is accepted
                let (c, u) = (v >> 16, (v & 0xffff) as usize);
                let at_end = c == sink.len() as u64
                    || blocks
                        .iter()
                        .position(|b| b.cstart == c)
                        .is_some_and(|i| blocks[i..].iter().all(|b| b.len == 0));
                if !at_end || u != model.len() - flushed {
                    return Err(Violation::new(
                        fp("get_ref", "vpos-not-at-sink-end"),
                        describe(),
                        format!(
                            "({}, {}): the sink holds {} bytes in {} members, {} bytes are staged",
                            sink.len(),
                            model.len() - flushed,
                            sink.len(),
                            members.len(),
                            model.len() - flushed
                        ),
                        vp(v),
                    ));
                }
                ch.tag("get_ref inside the history");
            }
            WOp::W(n) => {
                let data = ob::payload(class, model.len() as u64, n);
                let mut off = 0;
                let mut calls = 0;
                loop {
                    samples.push((u64::from(w.virtual_position()), model.len(), "write"));
                    let k = w.write(&data[off..]).map_err(|e| err("write", e))?;
                    if k > data.len() - off || (k == 0 && off < data.len()) {
                        return Err(Violation::new(fp("write", "count"), describe(), format!("1..={}", data.len() - off), format!("{k}")));
                    }
                    model.extend_from_slice(&data[off..off + k]);
                    off += k;
                    calls += 1;
                    if off == data.len() || calls > 100 {
                        break;
                    }
                }
            }
        }
    }
    samples.push((u64::from(w.virtual_position()), model.len(), "finish"));
    let bytes = w.finish().map_err(|e| err("finish", e))?;
    samples.dedup_by_key(|s| (s.0, s.1));

    // the file's geometry by the independent walker (mid-stream empty members are ordinary members)
    let members = ob::walk(&bytes).map_err(|e| Violation::new(fp("walk", "malformed"), describe(), "well-formed BGZF", e))?;
    let (blocks, u) = table(&members);
    let flen = bytes.len() as u64;
    let total = model.len();
    if u != total {
        return Err(Violation::new(fp("walk", "length"), describe(), format!("{total} bytes"), format!("{u} bytes")));
    }
    let mid_empty = blocks.iter().enumerate().any(|(i, b)| b.len == 0 && blocks[i + 1..].iter().any(|c| c.len > 0));
    if mid_empty {
        ch.tag("file with an empty member (EOF marker) before later data");
    }
    if blocks.windows(2).any(|w| w[0].len == 0 && w[1].len == 0) {
        ch.tag("file with adjacent empty members");
    }
    let resolve = |v: u64| resolve_in(&blocks, flen, total, v);

    // gzi per the htslib definition from the walker's table: one entry per member after the first,
    // without [0] / with [1] the terminating entry for the final EOF marker
    let all: Vec<(u64, u64)> = blocks.iter().skip(1).map(|b| (b.cstart, b.ustart as u64)).collect();
    let mut gzis = vec![all.clone()];
    if let Some(last) = blocks.last() {
        if last.len == 0 && blocks.len() > 1 {
            gzis.insert(0, all[..all.len() - 1].to_vec());
        }
    }

    let mut prev = 0u64;
    for &(v, off, before) in &samples {
        let d = || format!("{}; sample {} taken at uncompressed offset {off} before {before}", describe(), vp(v));
        if v < prev {
            return Err(Violation::new(fp("tell", "vpos-decreased"), d(), format!(">= {}", vp(prev)), vp(v)));
        }
        prev = v;
        // (1) structurally: the position names that boundary of the finished file
        if resolve(v) != Some(off) {
            return Err(Violation::new(
                fp("tell", "vpos-resolves-elsewhere"),
                d(),
                format!("a position resolving to byte {off}"),
                format!("{} resolves to {:?}", vp(v), resolve(v)),
            ));
        }
        // (2) a fresh reader sought there reads the bytes written from that point on
        let mut r = bgzf::io::Reader::new(Cursor::new(&bytes[..]));
        r.seek(bgzf::VirtualPosition::from(v))
            .map_err(|e| Violation::new(fp("seek", "error"), d(), "Ok", format!("{e}")))?;
        let rv = u64::from(r.virtual_position());
        if resolve(rv) != Some(off) {
            return Err(Violation::new(
                fp("seek", "reader-vpos-resolves-elsewhere"),
                d(),
                format!("a position resolving to byte {off}"),
                format!("{} resolves to {:?}", vp(rv), resolve(rv)),
            ));
        }
        let mut back = Vec::new();
        r.read_to_end(&mut back)
            .map_err(|e| Violation::new(fp("read_to_end", "error"), d(), "Ok", format!("{e}")))?;
        if back != model[off..] {
            return Err(Violation::new(
                fp("read_to_end", "bytes"),
                d(),
                format!("the {} bytes written from offset {off} on", total - off),
                vmc::diff_bytes(&model[off..], &back),
            ));
        }
        // (2b) the same byte through a gzi over this file: plain reader and indexed reader
        for (gi, g) in gzis.iter().enumerate() {
            let gname = if gzis.len() == 2 && gi == 0 { "htslib-write" } else { "with-terminator" };
            let n = (total - off).min(9);
            let index = bgzf::gzi::Index::from(g.clone());
            let mut r = bgzf::io::Reader::new(Cursor::new(&bytes[..]));
            let mut buf = [0u8; 9];
            let res = r
                .seek_by_uncompressed_position(&index, off as u64)
                .and_then(|_| r.read_exact(&mut buf[..n]));
            let gv = u64::from(r.virtual_position());
            if res.is_err() || buf[..n] != model[off..off + n] || resolve(gv) != Some(off + n) {
                return Err(Violation::new(
                    fp("gzi-seek", &format!("reader=Reader gzi={gname}")),
                    format!("{}; gzi {:?}; seek_by_uncompressed_position({off}) then read_exact({n})", describe(), g),
                    format!("{:?}, position resolving to {}", &model[off..off + n], off + n),
                    format!("{res:?} {:?}, {} resolves to {:?}", &buf[..n], vp(gv), resolve(gv)),
                ));
            }
            let mut r = bgzf::io::IndexedReader::new(Cursor::new(&bytes[..]), index);
            let mut buf = [0u8; 9];
            let res = r.seek(SeekFrom::Start(off as u64)).and_then(|_| r.read_exact(&mut buf[..n]));
            let gv = u64::from(r.virtual_position());
            if res.is_err() || buf[..n] != model[off..off + n] || resolve(gv) != Some(off + n) {
                return Err(Violation::new(
                    fp("gzi-seek", &format!("reader=IndexedReader gzi={gname}")),
                    format!("{}; gzi {:?}; IndexedReader::seek(Start({off})) then read_exact({n})", describe(), g),
                    format!("{:?}, position resolving to {}", &model[off..off + n], off + n),
                    format!("{res:?} {:?}, {} resolves to {:?}", &buf[..n], vp(gv), resolve(gv)),
                ));
            }
        }
        ch.state((v, off));
        if v & 0xffff == 0 && off > 0 {
            ch.tag("sample at a block start after data");
        }
        if v & 0xffff != 0 {
            ch.tag("sample inside the staging buffer");
        }
        if off == total {
            ch.tag("sample at the end of the data");
        }
        if blocks.iter().any(|b| b.cstart == v >> 16 && b.len == (v & 0xffff) as usize && b.len > 0) {
            ch.tag("sample in block-end form (block flushed right after)");
        }
        if blocks.iter().any(|b| b.cstart == v >> 16 && b.len == 65495) {
            ch.tag("sample in a block cut by a full staging buffer");
        }
        if off < total && blocks.iter().any(|b| b.cstart == v >> 16 && b.len == 0) {
            ch.tag("sample pointing at a mid-stream EOF marker (resolves by skipping it)");
        }
        if blocks.iter().any(|b| b.len == 0 && b.cstart < v >> 16 && b.ustart < total) && off < total {
            ch.tag("sample behind a mid-stream EOF marker with data following");
        }
    }

    // (3) one reader used for all samples, backwards then forwards (seeks from arbitrary prior states)
    let mut r = bgzf::io::Reader::new(Cursor::new(&bytes[..]));
    let order: Vec<_> = samples.iter().rev().chain(samples.iter()).collect();
    for &&(v, off, _) in &order {
        let d = || format!("{}; one reader seeking all samples backwards then forwards, at sample {} (offset {off})", describe(), vp(v));
        r.seek(bgzf::VirtualPosition::from(v))
            .map_err(|e| Violation::new(fp("reseek", "error"), d(), "Ok", format!("{e}")))?;
        let n = (total - off).min(5);
        let mut buf = [0u8; 5];
        r.read_exact(&mut buf[..n])
            .map_err(|e| Violation::new(fp("reseek", "read_exact-error"), d(), "Ok", format!("{e}")))?;
        if buf[..n] != model[off..off + n] {
            return Err(Violation::new(
                fp("reseek", "bytes"),
                d(),
                format!("{:?}", &model[off..off + n]),
                format!("{:?}", &buf[..n]),
            ));
        }
        let rest = r
            .fill_buf()
            .map_err(|e| Violation::new(fp("reseek", "fill_buf-error"), d(), "Ok", format!("{e}")))?;
        if rest.is_empty() != (off + n == total) {
            return Err(Violation::new(
                fp("reseek", "fill_buf-emptiness"),
                d(),
                format!("empty = {}", off + n == total),
                format!("{} bytes", rest.len()),
            ));
        }
    }

    ch.obs_hash(&samples.iter().map(|s| (s.0, s.1)).collect::<Vec<_>>());
    ch.obs_hash(blocks.iter().map(|b| (b.cstart, b.len)).collect::<Vec<_>>());
    Ok(())
}
