//! One real reader next to the flat-array model `(data, p)`; `step` applies one operation to both and
//! compares every return value and the reported virtual position.

use std::{
    hash::{Hash, Hasher},
    io::{self, BufRead, Cursor, Read, Seek, SeekFrom},
    sync::Arc,
};

use noodles_bgzf as bgzf;

use crate::files::{Form, TFile, vp};

#[derive(Clone, Copy, Debug, PartialEq, Eq, Hash)]
pub enum Kind {
    /// `bgzf::io::Reader<Cursor<_>>`, gzi (built directly) passed to `seek_by_uncompressed_position`
    Plain,
    /// `bgzf::io::IndexedReader<Cursor<_>>` holding the gzi after `gzi::io::Writer` -> `Reader`
    Indexed,
}

impl Kind {
    pub fn name(self) -> &'static str {
        match self {
            Kind::Plain => "Reader",
            Kind::Indexed => "IndexedReader",
        }
    }
}

#[derive(Clone, Copy, Debug, PartialEq, Eq, Hash)]
pub enum Op {
    Read(u32),
    ReadExact(u32),
    FillBuf,
    /// 0 => consume(0), 1 => consume(1), 2 => consume(everything the last fill_buf still offers)
    Consume(u8),
    /// index into `TFile::targets`
    Seek(u16),
    /// (gzi variant, uncompressed offset)
    SeekU(u8, u32),
}

impl Op {
    pub fn class(self) -> &'static str {
        match self {
            Op::Read(_) => "read",
            Op::ReadExact(_) => "read_exact",
            Op::FillBuf => "fill_buf",
            Op::Consume(_) => "consume",
            Op::Seek(_) => "seek",
            Op::SeekU(..) => "seek_uncompressed",
        }
    }

    /// Rust-like rendering for the decoded counterexample.
    pub fn render(self, f: &TFile, kind: Kind, avail: usize) -> String {
        match self {
            Op::Read(n) => format!("r.read(&mut [0u8; {n}])"),
            Op::ReadExact(n) => format!("r.read_exact(&mut [0u8; {n}])"),
            Op::FillBuf => "r.fill_buf()".into(),
            Op::Consume(c) => format!("r.consume({})", consume_amount(c, avail)),
            Op::Seek(i) => {
                let t = &f.targets[i as usize];
                format!(
                    "r.seek(VirtualPosition::try_from({}).unwrap()) /* {}, byte boundary {} */",
                    vp(t.v),
                    t.form.name(),
                    t.p
                )
            }
            Op::SeekU(v, off) => match kind {
                Kind::Plain => format!(
                    "r.seek_by_uncompressed_position(&gzi::Index::from(vec!{:?}), {off})",
                    f.gzi[v as usize]
                ),
                Kind::Indexed => format!("r.seek(SeekFrom::Start({off}))"),
            },
        }
    }

    pub fn to_json(self, f: &TFile) -> vmc::serde_json::Value {
        use vmc::json;
        match self {
            Op::Read(n) => json!({"op": "read", "n": n}),
            Op::ReadExact(n) => json!({"op": "read_exact", "n": n}),
            Op::FillBuf => json!({"op": "fill_buf"}),
            Op::Consume(c) => json!({"op": "consume", "c": c}),
            Op::Seek(i) => json!({"op": "seek", "v": f.targets[i as usize].v}),
            Op::SeekU(v, off) => json!({"op": "seek_u", "gzi": v, "off": off}),
        }
    }

    pub fn from_json(j: &vmc::serde_json::Value, f: &TFile) -> Option<Op> {
        let n = |k: &str| j[k].as_u64();
        Some(match j["op"].as_str()? {
            "read" => Op::Read(n("n")? as u32),
            "read_exact" => Op::ReadExact(n("n")? as u32),
            "fill_buf" => Op::FillBuf,
            "consume" => Op::Consume(n("c")? as u8),
            "seek" => {
                let v = n("v")?;
                Op::Seek(f.targets.iter().position(|t| t.v == v)? as u16)
            }
            "seek_u" => Op::SeekU(n("gzi")? as u8, n("off")? as u32),
            _ => return None,
        })
    }
}

pub fn consume_amount(c: u8, avail: usize) -> usize {
    match c {
        0 => 0,
        1 => 1,
        _ => avail,
    }
}

pub const READ_SIZES: [u32; 6] = [0, 1, 2, 65535, 65536, 70000];

/// The operations enabled in a model state (`avail` = bytes the last `fill_buf` still offers; it is 0
/// after any other operation, so `consume` never exceeds what `fill_buf` returned).
pub fn enabled_ops(f: &TFile, kind: Kind, variant: usize, avail: usize, out: &mut Vec<Op>) {
    out.clear();
    for n in READ_SIZES {
        out.push(Op::Read(n));
    }
    let mut re = vec![1u32, 2, 4, 65536, f.total as u32 + 1];
    re.sort();
    re.dedup();
    for n in re {
        out.push(Op::ReadExact(n));
    }
    out.push(Op::FillBuf);
    out.push(Op::Consume(0));
    if avail >= 1 {
        out.push(Op::Consume(1));
    }
    if avail >= 2 {
        out.push(Op::Consume(2));
    }
    match kind {
        Kind::Plain => {
            for i in 0..f.targets.len() {
                out.push(Op::Seek(i as u16));
            }
            for &o in &f.uoffs {
                out.push(Op::SeekU(0, o as u32));
            }
            if f.gzi.len() > 1 {
                // the terminating entry only changes the answer for the end of the data
                out.push(Op::SeekU(1, f.total as u32));
            }
        }
        Kind::Indexed => {
            for &o in &f.uoffs {
                out.push(Op::SeekU(variant as u8, o as u32));
            }
        }
    }
}

/// The configurations of one file: (kind, gzi variant). The variant only matters for `Indexed`.
pub fn configs(f: &TFile) -> Vec<(Kind, usize)> {
    let mut v = vec![(Kind::Plain, 0)];
    for g in 0..f.gzi.len() {
        v.push((Kind::Indexed, g));
    }
    v
}

type Src = Cursor<Arc<[u8]>>;

enum Rd {
    Plain(bgzf::io::Reader<Src>),
    Indexed(bgzf::io::IndexedReader<Src>),
}

impl Rd {
    fn position(&self) -> u64 {
        match self {
            Rd::Plain(r) => r.position(),
            Rd::Indexed(r) => r.position(),
        }
    }
    fn vpos(&self) -> u64 {
        match self {
            Rd::Plain(r) => u64::from(r.virtual_position()),
            Rd::Indexed(r) => u64::from(r.virtual_position()),
        }
    }
    fn cursor(&self) -> u64 {
        match self {
            Rd::Plain(r) => r.get_ref().position(),
            Rd::Indexed(r) => r.get_ref().position(),
        }
    }
    fn read(&mut self, buf: &mut [u8]) -> io::Result<usize> {
        match self {
            Rd::Plain(r) => r.read(buf),
            Rd::Indexed(r) => r.read(buf),
        }
    }
    fn read_exact(&mut self, buf: &mut [u8]) -> io::Result<()> {
        match self {
            Rd::Plain(r) => r.read_exact(buf),
            Rd::Indexed(r) => r.read_exact(buf),
        }
    }
    fn fill_buf(&mut self) -> io::Result<&[u8]> {
        match self {
            Rd::Plain(r) => r.fill_buf(),
            Rd::Indexed(r) => r.fill_buf(),
        }
    }
    fn consume(&mut self, n: usize) {
        match self {
            Rd::Plain(r) => r.consume(n),
            Rd::Indexed(r) => r.consume(n),
        }
    }
}

/// What one step showed (everything public): result digest, positions, model state.
#[derive(Clone, Copy, Debug, PartialEq, Eq, Hash)]
pub struct Obs {
    pub res: u64,
    pub key: Key,
    /// bit set of paths exercised (vacuity accounting), see `tags`
    pub tags: u32,
}

/// Canonical key: `position()`, `virtual_position()`, inner cursor, model cursor, model `avail`.
#[derive(Clone, Copy, Debug, PartialEq, Eq, Hash, PartialOrd, Ord)]
pub struct Key {
    pub pos: u64,
    pub v: u64,
    pub cur: u64,
    pub p: u32,
    pub avail: u32,
}

pub mod tags {
    pub const NAMES: [&str; 20] = [
        "read: caller buffer >= 64 KiB with no block data left (direct-inflate path)",
        "read: short read (fewer bytes than requested and available)",
        "read: at end of data",
        "read_exact: Ok within one call",
        "read_exact: fails with UnexpectedEof (model re-synchronised)",
        "fill_buf: at end of data (empty)",
        "fill_buf: window ends before end of data (block edge)",
        "consume: everything offered",
        "seek: block+offset",
        "seek: block-end",
        "seek: start of an empty block",
        "seek: end-of-stream position",
        "seek_uncompressed: block edge",
        "seek_uncompressed: end of data",
        "seek_uncompressed: Err accepted (offset 65536 behind the last gzi entry)",
        "position reported in next-block form (offset 0 of the following member)",
        "position reported as end-of-stream (file length, 0)",
        "read/fill_buf: crosses an empty block",
        "read_exact: spans several blocks",
        "block of exactly 65536 bytes read",
    ];
    pub const DIRECT: u32 = 1 << 0;
    pub const SHORT: u32 = 1 << 1;
    pub const READ_END: u32 = 1 << 2;
    pub const RE_OK: u32 = 1 << 3;
    pub const RE_FAIL: u32 = 1 << 4;
    pub const FILL_END: u32 = 1 << 5;
    pub const FILL_EDGE: u32 = 1 << 6;
    pub const CONSUME_ALL: u32 = 1 << 7;
    pub const SEEK_BO: u32 = 1 << 8;
    pub const SEEK_BE: u32 = 1 << 9;
    pub const SEEK_EMPTY: u32 = 1 << 10;
    pub const SEEK_EOS: u32 = 1 << 11;
    pub const SU_EDGE: u32 = 1 << 12;
    pub const SU_END: u32 = 1 << 13;
    pub const SU_ERR_OK: u32 = 1 << 14;
    pub const V_NEXT: u32 = 1 << 15;
    pub const V_EOS: u32 = 1 << 16;
    pub const CROSS_EMPTY: u32 = 1 << 17;
    pub const RE_SPAN: u32 = 1 << 18;
    pub const FULL_BLOCK: u32 = 1 << 19;
}

#[derive(Clone, Debug)]
pub struct Fail {
    pub fp: String,
    pub expected: String,
    pub observed: String,
}

pub struct Sim<'a> {
    pub f: &'a TFile,
    pub kind: Kind,
    pub variant: usize,
    rd: Rd,
    pub p: usize,
    pub avail: usize,
    last_v: u64,
    swap: bool,
}

fn digest(a: u64, bytes: &[u8]) -> u64 {
    let mut h = std::collections::hash_map::DefaultHasher::new();
    a.hash(&mut h);
    bytes.hash(&mut h);
    h.finish()
}

fn show(b: &[u8]) -> String {
    let n = b.len().min(12);
    format!("{:?}{}", String::from_utf8_lossy(&b[..n]), if b.len() > n { "…" } else { "" })
}

impl<'a> Sim<'a> {
    pub fn new(f: &'a TFile, kind: Kind, variant: usize) -> Self {
        Self::with_index_source(f, kind, variant, false)
    }

    /// `swap`: the plain reader gets the index that went through gzi::io, the indexed reader the direct one.
    pub fn with_index_source(f: &'a TFile, kind: Kind, variant: usize, swap: bool) -> Self {
        let src = Cursor::new(f.bytes.clone());
        let rd = match kind {
            Kind::Plain => Rd::Plain(bgzf::io::Reader::new(src)),
            Kind::Indexed => Rd::Indexed(bgzf::io::IndexedReader::new(
                src,
                if swap { f.gzi_direct[variant].clone() } else { f.gzi_via_io[variant].clone() },
            )),
        };
        let last_v = rd.vpos();
        Sim {
            f,
            kind,
            variant,
            rd,
            p: 0,
            avail: 0,
            last_v,
            swap,
        }
    }

    pub fn key(&self) -> Key {
        Key {
            pos: self.rd.position(),
            v: self.rd.vpos(),
            cur: self.rd.cursor(),
            p: self.p as u32,
            avail: self.avail as u32,
        }
    }

    /// The position a fresh reader reports must already resolve to byte 0.
    pub fn check_initial(&self) -> Result<(), Fail> {
        let v = self.rd.vpos();
        match self.f.resolve(v) {
            Some(0) => Ok(()),
            other => Err(Fail {
                fp: format!("reader={} op=new check=vpos-resolves-elsewhere", self.kind.name()),
                expected: "a position resolving to byte 0".into(),
                observed: format!("virtual_position()={} resolves to {other:?}", vp(v)),
            }),
        }
    }

    pub fn step(&mut self, op: Op, scratch: &mut [u8]) -> Result<Obs, Fail> {
        let kind = self.kind;
        match vmc::catch(|| self.step_inner(op, scratch)) {
            Ok(r) => r,
            Err((msg, file)) => Err(Fail {
                fp: format!(
                    "reader={} op={} outcome=panic msg={} file={}",
                    kind.name(),
                    op.class(),
                    vmc::normalise_msg(&msg),
                    file
                ),
                expected: "no panic".into(),
                observed: format!("panic: {msg} in {file}"),
            }),
        }
    }

    fn step_inner(&mut self, op: Op, scratch: &mut [u8]) -> Result<Obs, Fail> {
        let f = self.f;
        let data = f.data();
        let total = f.total;
        let rk = self.kind.name();
        let b_pos = self.rd.position();
        let b_v = self.rd.vpos();
        let b_cur = self.rd.cursor();
        // all from public observations: nothing read yet / a block with data left is loaded / the
        // loaded block is used up (the reported position is the next member's start)
        let prior = if b_pos == 0 && b_cur == 0 && b_v == 0 {
            "fresh"
        } else if b_pos > (b_v >> 16) {
            "in-block"
        } else {
            "block-exhausted"
        };
        let at = if self.p == total { "end-of-data" } else { "mid" };
        let tail = if f.has_eof_marker { "eof-marker" } else { "no-eof-marker" };
        let p0 = self.p;
        let mut tg = 0u32;
        let mut is_seek = false;
        let fpb: String;
        let res: u64;

        match op {
            Op::Read(n) => {
                let n = n as usize;
                let bufc = if n >= 65536 { "ge64KiB" } else { "small" };
                fpb = format!("reader={rk} op=read buf={bufc} at={at} tail={tail}");
                let want_max = n.min(total - p0);
                if n >= 65536 && prior != "in-block" {
                    tg |= tags::DIRECT;
                }
                // poison what may legitimately be filled: a count without the bytes must not pass by
                // leftovers of an earlier history (0xa5 is not a payload byte)
                scratch[..want_max].fill(0xa5);
                match self.rd.read(&mut scratch[..n]) {
                    Err(e) => {
                        return Err(Fail {
                            fp: format!("{fpb} check=error kind={:?}", e.kind()),
                            expected: format!("Ok(k), {}<=k<={want_max}", (want_max > 0) as usize),
                            observed: format!("Err({e})"),
                        });
                    }
                    Ok(k) => {
                        if (want_max == 0 && k != 0) || (want_max > 0 && (k == 0 || k > want_max)) {
                            // diagnosis only: what do further identical calls return?
                            let mut more = Vec::new();
                            for _ in 0..3 {
                                more.push(self.rd.read(&mut scratch[..n]).map_err(|e| e.kind()));
                            }
                            return Err(Fail {
                                fp: format!("{fpb} check=count"),
                                expected: if want_max == 0 {
                                    format!("Ok(0): the model has {} bytes left (p={p0}, total={total})", total - p0)
                                } else {
                                    format!("Ok(k), 1<=k<={want_max} (p={p0}, total={total})")
                                },
                                observed: format!("Ok({k}); three more identical calls returned {more:?}"),
                            });
                        }
                        if scratch[..k] != data[p0..p0 + k] {
                            return Err(Fail {
                                fp: format!("{fpb} check=bytes"),
                                expected: format!("data[{p0}..{}] = {}", p0 + k, show(&data[p0..p0 + k])),
                                observed: format!("{} ({})", show(&scratch[..k]), vmc::diff_bytes(&data[p0..p0 + k], &scratch[..k])),
                            });
                        }
                        if want_max == 0 && n > 0 {
                            tg |= tags::READ_END;
                        }
                        if k < want_max {
                            tg |= tags::SHORT;
                        }
                        if k == 65536 {
                            tg |= tags::FULL_BLOCK;
                        }
                        self.p += k;
                        self.avail = 0;
                        res = digest(k as u64, &scratch[..k]);
                    }
                }
            }
            Op::ReadExact(n) => {
                let n = n as usize;
                let fits = p0 + n <= total;
                let bufc = if n >= 65536 { "ge64KiB" } else { "small" };
                fpb = format!(
                    "reader={rk} op=read_exact buf={bufc} fits={} tail={tail}",
                    if fits { "yes" } else { "no" }
                );
                if fits {
                    scratch[..n].fill(0xa5);
                }
                let r = self.rd.read_exact(&mut scratch[..n]);
                match (r, fits) {
                    (Ok(()), true) => {
                        if scratch[..n] != data[p0..p0 + n] {
                            return Err(Fail {
                                fp: format!("{fpb} check=bytes"),
                                expected: format!("data[{p0}..{}] = {}", p0 + n, show(&data[p0..p0 + n])),
                                observed: format!("{} ({})", show(&scratch[..n]), vmc::diff_bytes(&data[p0..p0 + n], &scratch[..n])),
                            });
                        }
                        tg |= tags::RE_OK;
                        if f.blocks.iter().filter(|b| b.len > 0 && b.ustart < p0 + n && b.ustart + b.len > p0).count() > 1 {
                            tg |= tags::RE_SPAN;
                        }
                        self.p += n;
                        self.avail = 0;
                        res = digest(1, &scratch[..n]);
                    }
                    (Ok(()), false) => {
                        return Err(Fail {
                            fp: format!("{fpb} check=ok-beyond-end"),
                            expected: format!("Err(UnexpectedEof): only {} bytes remain", total - p0),
                            observed: format!("Ok(()) for {n} bytes"),
                        });
                    }
                    (Err(e), true) => {
                        return Err(Fail {
                            fp: format!("{fpb} check=error kind={:?}", e.kind()),
                            expected: format!("Ok(()) with data[{p0}..{}]", p0 + n),
                            observed: format!("Err({e})"),
                        });
                    }
                    (Err(e), false) => {
                        if e.kind() != io::ErrorKind::UnexpectedEof {
                            return Err(Fail {
                                fp: format!("{fpb} check=error-kind kind={:?}", e.kind()),
                                expected: "Err(UnexpectedEof)".into(),
                                observed: format!("Err({e})"),
                            });
                        }
                        // std leaves the cursor unspecified: re-synchronise to what the reader reports
                        let v = self.rd.vpos();
                        match f.resolve(v) {
                            Some(q) if q >= p0 && q <= total => self.p = q,
                            other => {
                                return Err(Fail {
                                    fp: format!("{fpb} check=vpos-after-failure"),
                                    expected: format!("a position resolving into [{p0}, {total}]"),
                                    observed: format!("virtual_position()={} resolves to {other:?}", vp(v)),
                                });
                            }
                        }
                        tg |= tags::RE_FAIL;
                        self.avail = 0;
                        res = digest(2, &[]);
                    }
                }
            }
            Op::FillBuf => {
                fpb = format!("reader={rk} op=fill_buf at={at} tail={tail}");
                match self.rd.fill_buf() {
                    Err(e) => {
                        return Err(Fail {
                            fp: format!("{fpb} check=error kind={:?}", e.kind()),
                            expected: "Ok(window)".into(),
                            observed: format!("Err({e})"),
                        });
                    }
                    Ok(w) => {
                        let l = w.len();
                        if l > total - p0 {
                            return Err(Fail {
                                fp: format!("{fpb} check=window-too-long"),
                                expected: format!("at most {} bytes", total - p0),
                                observed: format!("{l} bytes"),
                            });
                        }
                        if l == 0 && p0 < total {
                            return Err(Fail {
                                fp: format!("{fpb} check=empty-before-end"),
                                expected: format!("a non-empty window, {} bytes remain", total - p0),
                                observed: "empty window (signals EOF)".into(),
                            });
                        }
                        if w != &data[p0..p0 + l] {
                            return Err(Fail {
                                fp: format!("{fpb} check=bytes"),
                                expected: format!("data[{p0}..{}] = {}", p0 + l, show(&data[p0..p0 + l])),
                                observed: format!("{} ({})", show(w), vmc::diff_bytes(&data[p0..p0 + l], w)),
                            });
                        }
                        res = digest(l as u64, w);
                        if l == 0 {
                            tg |= tags::FILL_END;
                        } else if p0 + l < total {
                            tg |= tags::FILL_EDGE;
                        }
                        if l == 65536 {
                            tg |= tags::FULL_BLOCK;
                        }
                        self.avail = l;
                    }
                }
            }
            Op::Consume(c) => {
                let k = consume_amount(c, self.avail);
                assert!(k <= self.avail, "harness bug: over-consume");
                fpb = format!("reader={rk} op=consume prior={prior}");
                self.rd.consume(k);
                if c == 2 {
                    tg |= tags::CONSUME_ALL;
                }
                self.p += k;
                self.avail -= k;
                res = digest(k as u64, &[]);
            }
            Op::Seek(i) => {
                let t = &f.targets[i as usize];
                is_seek = true;
                fpb = format!("reader={rk} op=seek target={} prior={prior}", t.form.name());
                let r = match &mut self.rd {
                    Rd::Plain(r) => r.seek(bgzf::VirtualPosition::from(t.v)),
                    Rd::Indexed(_) => unreachable!("harness bug: IndexedReader has no seek(VirtualPosition)"),
                };
                match r {
                    Err(e) => {
                        return Err(Fail {
                            fp: format!("{fpb} check=error kind={:?}", e.kind()),
                            expected: format!("Ok: {} denotes byte boundary {}", vp(t.v), t.p),
                            observed: format!("Err({e})"),
                        });
                    }
                    Ok(ret) => {
                        let ret = u64::from(ret);
                        if f.resolve(ret) != Some(t.p) {
                            return Err(Fail {
                                fp: format!("{fpb} check=returned-position"),
                                expected: format!("a position resolving to {}", t.p),
                                observed: format!("Ok({}) resolves to {:?}", vp(ret), f.resolve(ret)),
                            });
                        }
                        res = digest(3, &[]);
                    }
                }
                tg |= match t.form {
                    Form::BlockOffset => tags::SEEK_BO,
                    Form::BlockEnd => tags::SEEK_BE,
                    Form::EmptyBlock => tags::SEEK_EMPTY,
                    Form::EndOfStream => tags::SEEK_EOS,
                };
                self.p = t.p;
                self.avail = 0;
            }
            Op::SeekU(var, off) => {
                let (var, off) = (var as usize, off as usize);
                is_seek = true;
                let edge = f.blocks.iter().any(|b| b.ustart == off);
                let whr = if off == total {
                    "end"
                } else if edge {
                    "block-edge"
                } else {
                    "in-block"
                };
                fpb = format!("reader={rk} op=seek_uncompressed gzi={} at={whr} prior={prior}", TFile::gzi_name(var));
                let r = match &mut self.rd {
                    Rd::Plain(r) => {
                        let idx = if self.swap { &f.gzi_via_io[var] } else { &f.gzi_direct[var] };
                        r.seek_by_uncompressed_position(idx, off as u64)
                    }
                    Rd::Indexed(r) => {
                        assert_eq!(var, self.variant);
                        r.seek(SeekFrom::Start(off as u64))
                    }
                };
                match r {
                    Ok(ret) => {
                        if ret != off as u64 {
                            return Err(Fail {
                                fp: format!("{fpb} check=returned-position"),
                                expected: format!("Ok({off})"),
                                observed: format!("Ok({ret})"),
                            });
                        }
                        self.p = off;
                        self.avail = 0;
                        res = digest(4, &[]);
                    }
                    Err(e) => {
                        // The end of the data behind a full 64 KiB last block with no terminating gzi entry
                        // cannot be expressed as (entry, u16 offset); it names no byte, so a refusal is accepted
                        // provided the reader did not move.
                        if e.kind() == io::ErrorKind::InvalidData && off == total && f.gzi_unrepresentable(var, off) {
                            tg |= tags::SU_ERR_OK;
                            self.avail = 0;
                            res = digest(5, &[]);
                        } else {
                            return Err(Fail {
                                fp: format!("{fpb} check=error kind={:?}", e.kind()),
                                expected: format!("Ok({off})"),
                                observed: format!("Err({e})"),
                            });
                        }
                    }
                }
                if edge {
                    tg |= tags::SU_EDGE;
                }
                if off == total {
                    tg |= tags::SU_END;
                }
            }
        }

        // the reported position must name the model cursor, in any equivalent encoding
        let v = self.rd.vpos();
        match f.resolve(v) {
            Some(q) if q == self.p => {}
            other => {
                // diagnosis only; bounded and with a small buffer (read_to_end may never end, see D22)
                let mut rest = Vec::new();
                let mut chunk = [0u8; 4096];
                let mut probe = String::new();
                for _ in 0..200 {
                    match self.rd.read(&mut chunk) {
                        Ok(0) => break,
                        Ok(k) => rest.extend_from_slice(&chunk[..k]),
                        Err(e) => {
                            probe = format!(" then Err({e})");
                            break;
                        }
                    }
                    if rest.len() > total + 8 {
                        probe = " and more".into();
                        break;
                    }
                }
                let probe = format!("{} bytes {}{probe}", rest.len(), show(&rest));
                return Err(Fail {
                    fp: format!(
                        "{fpb} check={}",
                        if other.is_none() { "vpos-not-a-byte-boundary" } else { "vpos-resolves-elsewhere" }
                    ),
                    expected: format!(
                        "virtual_position() resolving to byte {} of {total}; reading on yields {} bytes {}",
                        self.p,
                        total - self.p,
                        show(&data[self.p..])
                    ),
                    observed: format!(
                        "virtual_position()={} resolves to {other:?}; reading on (4 KiB buffers) yields {probe}",
                        vp(v)
                    ),
                });
            }
        }
        if !is_seek && v < self.last_v {
            return Err(Fail {
                fp: format!("{fpb} check=vpos-decreased"),
                expected: format!("u64 >= {} {}", self.last_v, vp(self.last_v)),
                observed: format!("{v} {}", vp(v)),
            });
        }
        self.last_v = v;
        if v >> 16 == f.flen {
            tg |= tags::V_EOS;
        } else if v & 0xffff == 0 && self.p > 0 && self.rd.position() == v >> 16 {
            tg |= tags::V_NEXT;
        }
        if !is_seek && self.p > p0 && f.blocks.iter().any(|b| b.len == 0 && b.ustart >= p0 && b.ustart < self.p) {
            tg |= tags::CROSS_EMPTY;
        }
        Ok(Obs {
            res,
            key: self.key(),
            tags: tg,
        })
    }
}

pub fn describe(f: &TFile, kind: Kind, variant: usize, hist: &[Op]) -> String {
    let mut s = f.describe();
    s.push_str(&match kind {
        Kind::Plain => "; let mut r = bgzf::io::Reader::new(Cursor::new(file));".to_string(),
        Kind::Indexed => format!(
            "; let mut r = bgzf::io::IndexedReader::new(Cursor::new(file), gzi::Index::from(vec!{:?}) /* via gzi::io::Writer->Reader */);",
            f.gzi[variant]
        ),
    });
    // render consume amounts by following the model's avail
    let mut scratch = vec![0u8; scratch_len(f)];
    let mut sim = Sim::new(f, kind, variant);
    for op in hist {
        s.push(' ');
        s.push_str(&op.render(f, kind, sim.avail));
        s.push(';');
        if sim.step(*op, &mut scratch).is_err() {
            break;
        }
    }
    s
}

pub fn scratch_len(f: &TFile) -> usize {
    70000.max(f.total + 1)
}

pub fn payload(f: &TFile, kind: Kind, variant: usize, hist: &[Op]) -> vmc::serde_json::Value {
    vmc::json!({
        "sizes": f.sizes,
        "eof": f.eof,
        "kind": kind.name(),
        "gzi": variant,
        "ops": hist.iter().map(|o| o.to_json(f)).collect::<Vec<_>>(),
    })
}

/// Runs one history; `Ok` carries the observation log.
pub fn run_history(f: &TFile, kind: Kind, variant: usize, hist: &[Op], scratch: &mut [u8]) -> Result<Vec<Obs>, (usize, Fail)> {
    let mut sim = Sim::new(f, kind, variant);
    sim.check_initial().map_err(|e| (0, e))?;
    let mut out = Vec::with_capacity(hist.len());
    for (i, op) in hist.iter().enumerate() {
        out.push(sim.step(*op, scratch).map_err(|e| (i, e))?);
    }
    Ok(out)
}
