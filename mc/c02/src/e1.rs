//! E1 (bespoke): un-deduplicated enumeration of every operation history up to a depth, each history
//! executed on a fresh real reader (prefix replay), parallel over (file, reader kind, gzi, first op).

use std::{
    collections::{BTreeMap, HashSet},
    hash::{Hash, Hasher},
    sync::{
        Arc, Mutex,
        atomic::{AtomicUsize, Ordering},
    },
    time::Instant,
};

use vmc::{Custom, Violation, json};

use crate::{
    files::TFile,
    sim::{self, Fail, Kind, Op, Sim, tags},
};

/// A violation class with its smallest witness.
pub struct Class {
    pub count: u64,
    /// (history length, uncompressed size, blocks, file id, history) — smaller is simpler
    pub rank: (usize, usize, usize, usize),
    pub file: usize,
    pub kind: Kind,
    pub variant: usize,
    pub hist: Vec<Op>,
    pub fail: Fail,
}

#[derive(Default)]
pub struct Acc {
    pub histories: u64,
    pub cut: u64,
    pub ops_executed: u64,
    pub logs: u64,
    pub states: HashSet<u64>,
    pub tag_hits: [u64; 32],
    pub op_hits: BTreeMap<&'static str, u64>,
    pub max_len: usize,
    pub classes: BTreeMap<String, Class>,
    pub errors: Vec<String>,
}

impl Acc {
    pub fn record(&mut self, f: &TFile, kind: Kind, variant: usize, hist: &[Op], fail: Fail) {
        let rank = (hist.len(), f.total, f.blocks.len(), f.id);
        match self.classes.get_mut(&fail.fp) {
            Some(c) => {
                c.count += 1;
                if rank < c.rank {
                    c.rank = rank;
                    c.file = f.id;
                    c.kind = kind;
                    c.variant = variant;
                    c.hist = hist.to_vec();
                    c.fail = fail;
                }
            }
            None => {
                self.classes.insert(
                    fail.fp.clone(),
                    Class {
                        count: 1,
                        rank,
                        file: f.id,
                        kind,
                        variant,
                        hist: hist.to_vec(),
                        fail,
                    },
                );
            }
        }
    }

    pub fn merge(&mut self, o: Acc) {
        self.histories += o.histories;
        self.cut += o.cut;
        self.ops_executed += o.ops_executed;
        self.logs += o.logs;
        self.states.extend(o.states);
        for i in 0..32 {
            self.tag_hits[i] += o.tag_hits[i];
        }
        for (k, v) in o.op_hits {
            *self.op_hits.entry(k).or_insert(0) += v;
        }
        self.max_len = self.max_len.max(o.max_len);
        for (fp, c) in o.classes {
            match self.classes.get_mut(&fp) {
                Some(m) => {
                    m.count += c.count;
                    if c.rank < m.rank {
                        let n = m.count;
                        *m = c;
                        m.count = n;
                    }
                }
                None => {
                    self.classes.insert(fp, c);
                }
            }
        }
        self.errors.extend(o.errors);
    }
}

struct Walk<'a> {
    f: &'a TFile,
    kind: Kind,
    variant: usize,
    depth: usize,
    scratch: Vec<u8>,
    acc: Acc,
    logs: HashSet<u64>,
}

impl Walk<'_> {
    fn dfs(&mut self, hist: &mut Vec<Op>, recurse: bool) {
        let mut sim = Sim::new(self.f, self.kind, self.variant);
        let mut log = std::collections::hash_map::DefaultHasher::new();
        (self.f.id, self.kind, self.variant).hash(&mut log);
        if hist.is_empty() {
            if let Err(fail) = sim.check_initial() {
                self.acc.cut += 1;
                self.acc.record(self.f, self.kind, self.variant, hist, fail);
                return;
            }
        }
        let mut last_tags = 0u32;
        for (i, op) in hist.iter().enumerate() {
            match sim.step(*op, &mut self.scratch) {
                Ok(o) => {
                    o.hash(&mut log);
                    last_tags = o.tags;
                }
                Err(fail) => {
                    if i + 1 != hist.len() {
                        // the prefix passed when its own history was executed
                        self.acc.errors.push(format!(
                            "nondeterminism: prefix op {i} of {hist:?} failed on replay ({})",
                            fail.fp
                        ));
                        return;
                    }
                    self.acc.cut += 1;
                    self.acc.ops_executed += hist.len() as u64;
                    *self.acc.op_hits.entry(op.class()).or_insert(0) += 1;
                    self.acc.record(self.f, self.kind, self.variant, hist, fail);
                    return;
                }
            }
        }
        self.acc.histories += 1;
        self.acc.ops_executed += hist.len() as u64;
        self.acc.max_len = self.acc.max_len.max(hist.len());
        if let Some(op) = hist.last() {
            *self.acc.op_hits.entry(op.class()).or_insert(0) += 1;
        }
        for b in 0..32 {
            if last_tags & (1 << b) != 0 {
                self.acc.tag_hits[b] += 1;
            }
        }
        self.logs.insert(log.finish());
        let mut sh = std::collections::hash_map::DefaultHasher::new();
        (self.f.id, self.kind, self.variant, sim.key()).hash(&mut sh);
        self.acc.states.insert(sh.finish());
        if recurse && hist.len() < self.depth {
            let mut ops = Vec::new();
            sim::enabled_ops(self.f, self.kind, self.variant, sim.avail, &mut ops);
            drop(sim);
            for op in ops {
                hist.push(op);
                self.dfs(hist, true);
                hist.pop();
            }
        }
    }
}

/// Enumerates all histories of length <= depth_of(file) over the given files.
pub fn run(name: &str, files: &[Arc<TFile>], depth_of: &(dyn Fn(&TFile) -> usize + Sync), rule: &str) -> Custom {
    let t0 = Instant::now();
    // work items: (file, kind, variant, first op or None for the empty history)
    let mut items: Vec<(usize, Kind, usize, Option<Op>)> = Vec::new();
    let mut n_cfg = 0u64;
    for (fi, f) in files.iter().enumerate() {
        for (kind, variant) in sim::configs(f) {
            n_cfg += 1;
            items.push((fi, kind, variant, None));
            if depth_of(f) >= 1 {
                let mut ops = Vec::new();
                sim::enabled_ops(f, kind, variant, 0, &mut ops);
                for op in ops {
                    items.push((fi, kind, variant, Some(op)));
                }
            }
        }
    }
    let next = AtomicUsize::new(0);
    let total = Mutex::new(Acc::default());
    std::thread::scope(|s| {
        for _ in 0..vmc::explore::default_threads() {
            s.spawn(|| {
                let mut local = Acc::default();
                loop {
                    let i = next.fetch_add(1, Ordering::Relaxed);
                    if i >= items.len() {
                        break;
                    }
                    let (fi, kind, variant, first) = items[i];
                    let f = &*files[fi];
                    let mut w = Walk {
                        f,
                        kind,
                        variant,
                        depth: depth_of(f),
                        scratch: vec![0u8; sim::scratch_len(f)],
                        acc: std::mem::take(&mut local),
                        logs: HashSet::new(),
                    };
                    let mut hist = Vec::new();
                    match first {
                        None => w.dfs(&mut hist, false),
                        Some(op) => {
                            hist.push(op);
                            w.dfs(&mut hist, true);
                        }
                    }
                    w.acc.logs += w.logs.len() as u64;
                    local = w.acc;
                }
                total.lock().unwrap().merge(local);
            });
        }
    });
    let acc = total.into_inner().unwrap();
    finish(name, files, acc, n_cfg, rule, t0, "E1 bespoke: every history executed on a fresh reader, no de-duplication")
}

/// Turns an accumulator into the report record; re-runs every class witness twice (determinism guard).
pub fn finish(name: &str, files: &[Arc<TFile>], acc: Acc, n_cfg: u64, rule: &str, t0: Instant, engine: &str) -> Custom {
    if let Some(e) = acc.errors.first() {
        vmc::machinery(format!("{name}: {e} ({} errors)", acc.errors.len()));
    }
    let mut found = Vec::new();
    let by_id: std::collections::HashMap<usize, usize> = files.iter().enumerate().map(|(i, f)| (f.id, i)).collect();
    for (fp, c) in &acc.classes {
        let f = &*files[by_id[&c.file]];
        let mut scratch = vec![0u8; sim::scratch_len(f)];
        for _ in 0..2 {
            match sim::run_history(f, c.kind, c.variant, &c.hist, &mut scratch) {
                Err((_, e)) if &e.fp == fp => {}
                other => vmc::machinery(format!(
                    "{name}: failure {fp} did not reproduce on replay (got {:?})",
                    other.err().map(|e| e.1.fp)
                )),
            }
        }
        found.push((
            Violation::new(
                fp.clone(),
                sim::describe(f, c.kind, c.variant, &c.hist),
                c.fail.expected.clone(),
                c.fail.observed.clone(),
            ),
            sim::payload(f, c.kind, c.variant, &c.hist),
            c.count,
        ));
    }
    found.sort_by_key(|x| x.0.decoded.len());
    let mut extra = BTreeMap::new();
    extra.insert("engine".to_string(), json!(engine));
    extra.insert("rule".to_string(), json!(rule));
    extra.insert("files".to_string(), json!(files.len()));
    extra.insert("layouts".to_string(), json!(files.iter().map(|f| f.layouts).sum::<usize>()));
    extra.insert("configurations(file x reader kind x gzi)".to_string(), json!(n_cfg));
    extra.insert("histories_passing".to_string(), json!(acc.histories));
    extra.insert("histories_ending_in_a_violation(not extended)".to_string(), json!(acc.cut));
    extra.insert("ops_executed_including_replay".to_string(), json!(acc.ops_executed));
    extra.insert("max_history_length".to_string(), json!(acc.max_len));
    let paths: BTreeMap<String, u64> = tags::NAMES
        .iter()
        .enumerate()
        .map(|(i, n)| (n.to_string(), acc.tag_hits[i]))
        .collect();
    extra.insert("paths_exercised(last op of a history)".to_string(), json!(paths));
    extra.insert("last_op_hits".to_string(), json!(acc.op_hits));
    let samples = {
        let mut v = Vec::new();
        if let Some(f) = files.first() {
            v.push(format!("{} (empty history)", f.name()));
        }
        if let Some(f) = files.get(files.len() / 2) {
            let mut ops = Vec::new();
            sim::enabled_ops(f, Kind::Plain, 0, 0, &mut ops);
            let h: Vec<Op> = ops.iter().rev().take(2).cloned().collect();
            v.push(sim::describe(f, Kind::Plain, 0, &h));
        }
        if let Some(f) = files.last() {
            let h = [Op::FillBuf, Op::Consume(0), Op::Read(65536)];
            v.push(sim::describe(f, Kind::Indexed, 0, &h));
        }
        v
    };
    Custom {
        name: name.to_string(),
        evaluations: acc.histories + acc.cut,
        distinct: acc.logs,
        states: acc.states.len() as u64,
        transitions: (acc.histories + acc.cut).saturating_sub(n_cfg),
        exhaustive: true,
        capped: None,
        samples,
        extra,
        found,
        wall_s: t0.elapsed().as_secs_f64(),
        ..Default::default()
    }
}
