//! Test files (built with the harness's own block maker, never with noodles) and the position tables
//! the flat-array model needs: block table, seek targets in every reportable form, gzi variants.

use std::{
    collections::HashMap,
    sync::{Arc, Mutex, OnceLock, atomic::AtomicUsize, atomic::Ordering},
};

use noodles_bgzf as bgzf;
use vmc::oracle::bgzf as ob;

const ALPH: &[u8] = b"ACGTNacgtn \tqwertyuiopasdfghjklzxcvbnm0123456789@=+-*/_.,;:!?#$\n";

/// The uncompressed byte at absolute offset `i` (a function of `i` only; period 61*61, so that a
/// cursor that is off by one block or by one alphabet period still reads different bytes).
pub fn byte_at(i: usize) -> u8 {
    let l = ALPH.len();
    ALPH[(i % l + i / l) % l]
}

const MAX_TOTAL: usize = 4 * 65536 + 16;

/// The one flat array all files are prefixes of.
pub fn flat() -> &'static [u8] {
    static DATA: OnceLock<Vec<u8>> = OnceLock::new();
    DATA.get_or_init(|| (0..MAX_TOTAL).map(byte_at).collect())
}

#[derive(Clone, Debug)]
pub struct Blk {
    pub cstart: u64,
    pub csize: u64,
    pub ustart: usize,
    pub len: usize,
}

/// The forms in which a reader or a writer can report a byte boundary.
#[derive(Clone, Copy, Debug, PartialEq, Eq, Hash)]
pub enum Form {
    /// (start of a non-empty block, offset < len) — what a reader reports inside a block.
    BlockOffset,
    /// (start of a non-empty block, offset == len <= 65535) — what a writer reports when the block is
    /// flushed right after the sample.
    BlockEnd,
    /// (start of an empty block, 0) — "next block" convention when the next block is empty.
    EmptyBlock,
    /// (file length, 0) — what a reader reports after it has consumed the last member.
    EndOfStream,
}

impl Form {
    pub fn name(self) -> &'static str {
        match self {
            Form::BlockOffset => "block+offset",
            Form::BlockEnd => "block-end",
            Form::EmptyBlock => "empty-block",
            Form::EndOfStream => "end-of-stream",
        }
    }
}

#[derive(Clone, Debug)]
pub struct Target {
    pub v: u64,
    pub p: usize,
    pub form: Form,
}

pub struct TFile {
    pub id: usize,
    /// The first (simplest) layout that produced these bytes.
    pub sizes: Vec<usize>,
    pub eof: bool,
    /// Number of enumerated layouts with exactly these bytes (`[3,0]` without marker == `[3]` with marker).
    pub layouts: usize,
    pub bytes: Arc<[u8]>,
    /// Every member of the file including a trailing EOF marker.
    pub blocks: Vec<Blk>,
    pub flen: u64,
    pub total: usize,
    /// Every block holds at most 3 bytes (all offsets are enumerated).
    pub small: bool,
    /// The file ends with the 28 marker bytes of SAMv1 4.1.2.
    pub has_eof_marker: bool,
    pub targets: Vec<Target>,
    /// gzi variants as plain pairs: [0] = as written by htslib when compressing (one entry per block
    /// after the first, none for the EOF marker), [1] = as written by `bgzip -r` (terminating entry
    /// for the EOF marker block too). [1] is only present when it differs from [0].
    pub gzi: Vec<Vec<(u64, u64)>>,
    /// The same as noodles values: built directly …
    pub gzi_direct: Vec<bgzf::gzi::Index>,
    /// … and after `gzi::io::Writer` → `gzi::io::Reader` (filled by `gzi_roundtrip`).
    pub gzi_via_io: Vec<bgzf::gzi::Index>,
    /// Uncompressed offsets used for `seek_by_uncompressed_position`.
    pub uoffs: Vec<usize>,
    /// Set if gzi::io::Writer -> Reader did not reproduce the entries (reported as a violation).
    pub gzi_io_error: Option<String>,
}

impl TFile {
    pub fn data(&self) -> &'static [u8] {
        &flat()[..self.total]
    }

    pub fn name(&self) -> String {
        format!(
            "blocks={:?}{}",
            self.sizes,
            if self.eof { "+EOF" } else { " (no EOF marker)" }
        )
    }

    pub fn describe(&self) -> String {
        format!(
            "file {} = vmc::oracle::bgzf::make_file(payloads of these sizes, eof={}, level 6), {} bytes, uncompressed byte i = ALPH[(i%61+i/61)%61]",
            self.name(),
            self.eof,
            self.flen
        )
    }

    pub fn gzi_name(v: usize) -> &'static str {
        if v == 0 { "htslib-write" } else { "with-terminator" }
    }

    /// block start -> skip empty blocks -> offset. `None` if `v` does not denote a byte boundary.
    pub fn resolve(&self, v: u64) -> Option<usize> {
        resolve_in(&self.blocks, self.flen, self.total, v)
    }

    /// True if `off` cannot be expressed as (entry, 16-bit in-block offset) through gzi variant `v`:
    /// it lies 65536 bytes after the last entry at or before it. Only `off == total` behind a full
    /// 64 KiB last block without a terminating entry can be in this situation.
    pub fn gzi_unrepresentable(&self, v: usize, off: usize) -> bool {
        let base = self.gzi[v]
            .iter()
            .map(|e| e.1 as usize)
            .filter(|&u| u <= off)
            .max()
            .unwrap_or(0);
        off - base > 65535
    }
}

/// Resolution of a virtual position against a member table: the member starting at the compressed
/// offset, skipping empty members, then the in-block offset (which may equal the block length).
pub fn resolve_in(blocks: &[Blk], flen: u64, total: usize, v: u64) -> Option<usize> {
    let (c, u) = (v >> 16, (v & 0xffff) as usize);
    if c == flen {
        return (u == 0).then_some(total);
    }
    let i = blocks.binary_search_by_key(&c, |b| b.cstart).ok()?;
    let mut j = i;
    while j < blocks.len() && blocks[j].len == 0 {
        j += 1;
    }
    if j == blocks.len() {
        return (u == 0).then_some(total);
    }
    (u <= blocks[j].len).then_some(blocks[j].ustart + u)
}

pub fn vp(v: u64) -> String {
    format!("({}, {})", v >> 16, v & 0xffff)
}

fn build(sizes: &[usize], eof: bool) -> TFile {
    let mut payloads = Vec::new();
    let mut at = 0usize;
    for &n in sizes {
        payloads.push(flat()[at..at + n].to_vec());
        at += n;
    }
    let total = at;
    let (bytes, offs) = ob::make_file(&payloads, eof, 6);
    let flen = bytes.len() as u64;
    let mut blocks = Vec::new();
    let mut u = 0usize;
    for (i, &n) in sizes.iter().enumerate() {
        let end = if i + 1 < offs.len() {
            offs[i + 1]
        } else if eof {
            bytes.len() - 28
        } else {
            bytes.len()
        };
        blocks.push(Blk {
            cstart: offs[i] as u64,
            csize: (end - offs[i]) as u64,
            ustart: u,
            len: n,
        });
        u += n;
    }
    if eof {
        blocks.push(Blk {
            cstart: flen - 28,
            csize: 28,
            ustart: total,
            len: 0,
        });
    }
    // machinery sanity: the independent walker sees exactly this table
    match ob::walk(&bytes) {
        Ok(ms) => {
            let ok = ms.len() == blocks.len()
                && ms.iter().zip(&blocks).all(|(m, b)| {
                    m.offset as u64 == b.cstart
                        && m.size as u64 == b.csize
                        && m.data[..] == flat()[b.ustart..b.ustart + b.len]
                });
            if !ok {
                vmc::machinery(format!("block maker and walker disagree on {sizes:?} eof={eof}"));
            }
        }
        Err(e) => vmc::machinery(format!("block maker produced an unwalkable file {sizes:?}: {e}")),
    }
    let has_eof_marker = ob::ends_with_eof(&bytes);

    let mut targets = Vec::new();
    for b in &blocks {
        if b.len == 0 {
            targets.push(Target {
                v: b.cstart << 16,
                p: b.ustart,
                form: Form::EmptyBlock,
            });
            continue;
        }
        let mut offs: Vec<usize> = if b.len <= 8 {
            (0..=b.len).collect()
        } else {
            vec![0, 1, 2, b.len - 2, b.len - 1, b.len, 65535]
        };
        offs.retain(|&o| o <= b.len && o <= 65535);
        offs.sort();
        offs.dedup();
        for o in offs {
            targets.push(Target {
                v: (b.cstart << 16) | o as u64,
                p: b.ustart + o,
                form: if o == b.len { Form::BlockEnd } else { Form::BlockOffset },
            });
        }
    }
    targets.push(Target {
        v: flen << 16,
        p: total,
        form: Form::EndOfStream,
    });

    let mut uoffs: Vec<usize> = if total <= 64 {
        (0..=total).collect()
    } else {
        let mut v = Vec::new();
        let mut edges: Vec<usize> = blocks.iter().map(|b| b.ustart).collect();
        edges.push(total);
        for e in edges {
            for d in -2i64..=2 {
                let o = e as i64 + d;
                if o >= 0 && o as usize <= total {
                    v.push(o as usize);
                }
            }
        }
        v
    };
    uoffs.sort();
    uoffs.dedup();

    let n_data = if has_eof_marker { blocks.len() - 1 } else { blocks.len() };
    let g0: Vec<(u64, u64)> = blocks[..n_data]
        .iter()
        .skip(1)
        .map(|b| (b.cstart, b.ustart as u64))
        .collect();
    let g1: Vec<(u64, u64)> = blocks.iter().skip(1).map(|b| (b.cstart, b.ustart as u64)).collect();
    let mut gzi = vec![g0];
    if g1 != gzi[0] {
        gzi.push(g1);
    }
    let gzi_direct: Vec<_> = gzi.iter().map(|g| bgzf::gzi::Index::from(g.clone())).collect();

    let mut f = TFile {
        id: 0,
        sizes: sizes.to_vec(),
        eof,
        layouts: 1,
        small: blocks.iter().all(|b| b.len <= 3),
        bytes: Arc::from(bytes.into_boxed_slice()),
        blocks,
        flen,
        total,
        has_eof_marker,
        targets,
        gzi,
        gzi_via_io: gzi_direct.clone(),
        gzi_direct,
        uoffs,
        gzi_io_error: None,
    };
    if let Err(e) = gzi_roundtrip(&mut f) {
        f.gzi_io_error = Some(e);
    }
    f
}

/// One layout from its description (used by replays).
pub fn build_one(sizes: &[usize], eof: bool) -> Arc<TFile> {
    Arc::new(build(sizes, eof))
}

/// gzi::io::Writer -> bytes (compared with the harness's own serialisation) -> gzi::io::Reader.
fn gzi_roundtrip(f: &mut TFile) -> Result<(), String> {
    let mut out = Vec::new();
    for (v, g) in f.gzi.iter().enumerate() {
        let mut buf = Vec::new();
        bgzf::gzi::io::Writer::new(&mut buf)
            .write_index(&f.gzi_direct[v])
            .map_err(|e| format!("gzi write: {e}"))?;
        let mut want = (g.len() as u64).to_le_bytes().to_vec();
        for &(c, u) in g {
            want.extend_from_slice(&c.to_le_bytes());
            want.extend_from_slice(&u.to_le_bytes());
        }
        if buf != want {
            return Err(format!("gzi bytes differ from the definition: {} vs {}", vmc::hex(&buf), vmc::hex(&want)));
        }
        let idx = bgzf::gzi::io::Reader::new(&buf[..])
            .read_index()
            .map_err(|e| format!("gzi read: {e}"))?;
        if idx.as_ref() != &g[..] {
            return Err(format!("gzi entries after write->read {:?} != {:?}", idx.as_ref(), g));
        }
        out.push(idx);
    }
    f.gzi_via_io = out;
    Ok(())
}

/// All block-size sequences of length <= `max_blocks` over `sizes`, shortest first, each with and
/// without EOF marker; built once, in parallel, de-duplicated by content.
pub fn build_all(max_blocks: usize, sizes: &[usize]) -> (Vec<Arc<TFile>>, usize) {
    let mut layouts: Vec<(Vec<usize>, bool)> = Vec::new();
    let mut level: Vec<Vec<usize>> = vec![vec![]];
    for d in 0..=max_blocks {
        for l in &level {
            layouts.push((l.clone(), true));
            layouts.push((l.clone(), false));
        }
        if d < max_blocks {
            let mut next = Vec::new();
            for l in &level {
                for &s in sizes {
                    let mut m = l.clone();
                    m.push(s);
                    next.push(m);
                }
            }
            level = next;
        }
    }
    let _ = flat();
    let n = layouts.len();
    let slots: Vec<Mutex<Option<TFile>>> = (0..n).map(|_| Mutex::new(None)).collect();
    let next = AtomicUsize::new(0);
    let errs: Mutex<Vec<String>> = Mutex::new(Vec::new());
    std::thread::scope(|s| {
        for _ in 0..vmc::explore::default_threads() {
            s.spawn(|| {
                loop {
                    let i = next.fetch_add(1, Ordering::Relaxed);
                    if i >= n {
                        return;
                    }
                    let (sz, eof) = &layouts[i];
                    match vmc::catch(|| build(sz, *eof)) {
                        Ok(f) => *slots[i].lock().unwrap() = Some(f),
                        Err((m, _)) => errs.lock().unwrap().push(m),
                    }
                }
            });
        }
    });
    if let Some(e) = errs.into_inner().unwrap().into_iter().next() {
        vmc::machinery(format!("building test files: {e}"));
    }
    let mut by_bytes: HashMap<Arc<[u8]>, usize> = HashMap::new();
    let mut files: Vec<TFile> = Vec::new();
    for s in slots {
        let f = s.into_inner().unwrap().expect("built");
        if let Some(&i) = by_bytes.get(&f.bytes) {
            files[i].layouts += 1;
            if files[i].blocks.len() != f.blocks.len() || files[i].total != f.total {
                vmc::machinery("identical bytes but different block tables");
            }
        } else {
            by_bytes.insert(f.bytes.clone(), files.len());
            files.push(f);
        }
    }
    for (i, f) in files.iter_mut().enumerate() {
        f.id = i;
    }
    (files.into_iter().map(Arc::new).collect(), n)
}
