//! C01 — BGZF write/read is the identity and every emitted file is well-formed BGZF.
//!
//! E1, complete: every sequence of write(len)/flush operations up to a depth, over payload classes,
//! compression levels, call styles and endings. Oracles: independent walker (miniz_oxide +
//! crc32fast), flat byte model, noodles' own reader.

use std::io::{Read, Write};

use noodles_bgzf as bgzf;
use vmc::{
    Chooser, Config, Outcome, Violation,
    env::{FaultSink, SinkMode},
    oracle::bgzf::{self as ob, Payload},
};

#[derive(Clone, Copy, Debug, PartialEq)]
enum Op {
    W(usize),
    F,
}

#[derive(Clone, Copy, Debug, PartialEq)]
enum Ending {
    Finish,
    Drop,
    TryFinishThenDrop,
}

#[derive(Clone, Copy, Debug, PartialEq)]
enum Style {
    WriteAll,
    RawWrite,
}

fn ctx_depth() -> usize {
    4
}

fn fp(stage: &str, what: &str) -> String {
    format!("stage={stage} what={what}")
}

fn body(
    ch: &Chooser,
    alphabet: &[Op],
    depth: usize,
    classes: &[Payload],
    levels: &[u8],
    endings: &[Ending],
) -> Outcome {
    let class = *ch.pick_free("class", classes);
    let level = *ch.pick_free("level", levels);
    let ending = *ch.pick_free("ending", endings);
    let style = *ch.pick_free("style", &[Style::WriteAll, Style::RawWrite]);

    // operation sequence: at each position either stop (0) or one letter
    let mut ops = Vec::new();
    for _ in 0..depth {
        let k = ch.free("op", alphabet.len() + 1);
        if k == 0 {
            break;
        }
        ops.push(alphabet[k - 1]);
    }
    let describe = || format!("class={class:?} level={level} ending={ending:?} style={style:?} ops={ops:?}");
    ch.desc(describe);

    let sink = FaultSink::plain();
    let lvl = bgzf::io::writer::CompressionLevel::new(level).expect("level");
    let mut w = bgzf::io::writer::Builder::default()
        .set_compression_level(lvl)
        .build_from_writer(sink.clone());

    let mut model: Vec<u8> = Vec::new();
    for op in &ops {
        match *op {
            Op::F => {
                if let Err(e) = w.flush() {
                    return Err(Violation::new(fp("flush", "error"), describe(), "Ok", format!("{e}")));
                }
            }
            Op::W(n) => {
                let data = ob::payload(class, model.len() as u64, n);
                match style {
                    Style::WriteAll => {
                        if let Err(e) = w.write_all(&data) {
                            return Err(Violation::new(fp("write_all", "error"), describe(), "Ok", format!("{e}")));
                        }
                        model.extend_from_slice(&data);
                    }
                    Style::RawWrite => {
                        let mut off = 0;
                        let mut guard = 0;
                        while off < data.len() {
                            match w.write(&data[off..]) {
                                Ok(k) => {
                                    if k == 0 || k > data.len() - off {
                                        return Err(Violation::new(
                                            fp("write", "bad-count"),
                                            describe(),
                                            format!("1..={}", data.len() - off),
                                            format!("{k}"),
                                        ));
                                    }
                                    model.extend_from_slice(&data[off..off + k]);
                                    off += k;
                                }
                                Err(e) => {
                                    return Err(Violation::new(fp("write", "error"), describe(), "Ok", format!("{e}")));
                                }
                            }
                            guard += 1;
                            if guard > 100 {
                                return Err(Violation::new(fp("write", "no-progress"), describe(), "progress", "100 calls"));
                            }
                        }
                        if data.is_empty() {
                            match w.write(&data) {
                                Ok(0) => {}
                                other => {
                                    return Err(Violation::new(fp("write", "empty"), describe(), "Ok(0)", format!("{other:?}")));
                                }
                            }
                        }
                    }
                }
            }
        }
        ch.state((model.len() % 65495, w.position()));
    }

    match ending {
        Ending::Finish => match w.finish() {
            Ok(_) => {}
            Err(e) => return Err(Violation::new(fp("finish", "error"), describe(), "Ok", format!("{e}"))),
        },
        Ending::Drop => drop(w),
        Ending::TryFinishThenDrop => {
            if let Err(e) = w.try_finish() {
                return Err(Violation::new(fp("try_finish", "error"), describe(), "Ok", format!("{e}")));
            }
            drop(w);
        }
    }

    let bytes = sink.bytes();

    // (1) independent walk
    let members = match ob::walk(&bytes) {
        Ok(m) => m,
        Err(e) => {
            let what = e.split(':').nth(1).unwrap_or(&e).trim();
            let what: String = vmc::normalise_msg(what);
            return Err(Violation::new(
                fp("walk", &what),
                describe(),
                "well-formed BGZF members",
                e,
            ));
        }
    };
    if !ob::ends_with_eof(&bytes) {
        return Err(Violation::new(fp("walk", "no-eof-marker"), describe(), "file ends with the 28-byte EOF marker", format!("{} bytes, tail {}", bytes.len(), vmc::hex(&bytes[bytes.len().saturating_sub(28)..]))));
    }
    let mut cat = Vec::with_capacity(model.len());
    for m in &members {
        cat.extend_from_slice(&m.data);
    }
    if cat != model {
        return Err(Violation::new(
            fp("walk", "payload-differs"),
            describe(),
            format!("{} bytes as written", model.len()),
            vmc::diff_bytes(&model, &cat),
        ));
    }

    // (2) noodles' own reader
    let mut r = bgzf::io::Reader::new(&bytes[..]);
    let mut back = Vec::new();
    match r.read_to_end(&mut back) {
        Ok(_) => {
            if back != model {
                return Err(Violation::new(
                    fp("read", "payload-differs"),
                    describe(),
                    format!("{} bytes as written", model.len()),
                    vmc::diff_bytes(&model, &back),
                ));
            }
        }
        Err(e) => {
            return Err(Violation::new(fp("read", "error"), describe(), "Ok", format!("{e}")));
        }
    }

    // observations (vacuity guard): member geometry
    let geom: Vec<(usize, usize, bool)> = members.iter().map(|m| (m.size, m.data.len(), m.stored)).collect();
    ch.obs_hash(&geom);
    if members.iter().any(|m| m.stored && m.data.len() > 1000) {
        ch.tag("stored-member(level-0 or fallback)");
    }
    if members.iter().any(|m| m.data.len() == 65495) {
        ch.tag("full-staging-member");
    }
    if members.iter().filter(|m| m.data.is_empty()).count() > 1 {
        ch.tag("eof-marker-twice");
    }
    if members.iter().any(|m| m.size > 65400) {
        ch.tag("member-near-64KiB");
    }
    ch.steps(members.len() as u64);
    Ok(())
}

/// After a flush that failed *cleanly* (the destination refused the first call of a frame, so what it
/// holds is still a whole number of members), a later flush / finish / drop that reports success must
/// leave the complete file: the staged bytes may not be forgotten because one attempt failed.
fn retry_body(ch: &Chooser, alphabet: &[Op], depth: usize, levels: &[u8]) -> Outcome {
    let level = *ch.pick_free("level", levels);
    let ending = *ch.pick_free("ending", &[Ending::Finish, Ending::Drop]);
    let retry = ch.free("retry-flush", 2) == 1;
    let mut ops = Vec::new();
    for _ in 0..depth {
        let k = ch.free("op", alphabet.len() + 1);
        if k == 0 {
            break;
        }
        ops.push(alphabet[k - 1]);
    }
    let describe = || format!("level={level} ending={ending:?} retry={retry} ops={ops:?}");
    ch.desc(describe);

    let sink = FaultSink::new(SinkMode::ChooseFail, Some(ch.clone()))
        .with_kinds(vec![std::io::ErrorKind::WouldBlock, std::io::ErrorKind::Other])
        .not_sticky();
    let lvl = bgzf::io::writer::CompressionLevel::new(level).expect("level");
    let mut w = bgzf::io::writer::Builder::default().set_compression_level(lvl).build_from_writer(sink.clone());

    let mut model: Vec<u8> = Vec::new();
    let mut clean_flush_failure = false;
    let mut other_failure = false;
    for op in &ops {
        match *op {
            Op::F => {
                if w.flush().is_err() {
                    // what the destination holds right now is what it held when the fault hit
                    if ob::walk(&sink.bytes()).is_ok() {
                        clean_flush_failure = true;
                    } else {
                        other_failure = true;
                    }
                    if retry && w.flush().is_err() {
                        other_failure = true;
                    }
                }
            }
            Op::W(n) => {
                let data = ob::payload(Payload::Text, model.len() as u64, n);
                if w.write_all(&data).is_err() {
                    // a failed write may or may not have staged its bytes: not judged
                    other_failure = true;
                    break;
                }
                model.extend_from_slice(&data);
            }
        }
    }
    if other_failure {
        ch.tag("fault-not-at-a-frame-start-or-in-write(not judged)");
        return Ok(());
    }
    match ending {
        Ending::Finish => {
            if w.finish().is_err() {
                ch.tag("finish-reports-the-fault");
                return Ok(());
            }
        }
        _ => drop(w),
    }
    if sink.faulted_at().is_none() {
        ch.tag("no-fault");
    }
    if clean_flush_failure {
        ch.tag("clean-flush-failure-then-success");
    }
    let bytes = sink.bytes();
    ch.obs_hash((bytes.len(), clean_flush_failure, sink.faulted_at()));
    if ending == Ending::Drop && sink.faulted_at().is_some() && !clean_flush_failure {
        // the fault hit a write issued by Drop itself: nobody can be told
        ch.tag("fault-during-drop(not judged)");
        return Ok(());
    }
    let members = match ob::walk(&bytes) {
        Ok(m) => m,
        Err(e) => {
            return Err(Violation::new(fp("retry", "file-not-wellformed-after-reported-success"), describe(), "well-formed BGZF members", e));
        }
    };
    let mut cat = Vec::new();
    for m in &members {
        cat.extend_from_slice(&m.data);
    }
    if cat != model || !ob::ends_with_eof(&bytes) {
        return Err(Violation::new(
            fp("retry", "accepted-bytes-missing-after-reported-success"),
            describe(),
            format!("{} bytes as accepted by write_all, then the EOF marker", model.len()),
            vmc::diff_bytes(&model, &cat),
        ));
    }
    Ok(())
}

/// Members at and around the largest size the format allows: a full staging buffer whose first `n`
/// bytes are incompressible and whose rest is zeros, for every `n` in the range where the compressed
/// size crosses the 64 KiB limit (the member is 65536 bytes long for some `n`, one byte more and the
/// writer has to fall back to stored blocks).
fn member_size_case(level: u8, n: usize) -> Result<usize, Violation> {
    let describe = || format!("level={level} payload=random[{n}]+zeros[{}]+5 bytes", 65495 - n);
    let mut data = ob::payload(Payload::Random, 0, n);
    data.resize(65495 + 5, 0);
    let lvl = bgzf::io::writer::CompressionLevel::new(level).expect("level");
    let mut w = bgzf::io::writer::Builder::default().set_compression_level(lvl).build_from_writer(Vec::new());
    if let Err(e) = w.write_all(&data) {
        return Err(Violation::new(fp("max-member", "write-error"), describe(), "Ok", format!("{e}")));
    }
    let bytes = match w.finish() {
        Ok(b) => b,
        Err(e) => return Err(Violation::new(fp("max-member", "finish-error"), describe(), "Ok", format!("{e}"))),
    };
    let members = match ob::walk(&bytes) {
        Ok(m) => m,
        Err(e) => return Err(Violation::new(fp("max-member", "not-wellformed"), describe(), "well-formed BGZF members", e)),
    };
    let mut cat = Vec::new();
    for m in &members {
        cat.extend_from_slice(&m.data);
    }
    if cat != data || !ob::ends_with_eof(&bytes) {
        return Err(Violation::new(fp("max-member", "payload-differs"), describe(), "payload as written + EOF marker", vmc::diff_bytes(&data, &cat)));
    }
    let mut back = Vec::new();
    if let Err(e) = bgzf::io::Reader::new(&bytes[..]).read_to_end(&mut back) {
        return Err(Violation::new(fp("max-member", "read-error"), describe(), "Ok", format!("{e}")));
    }
    if back != data {
        return Err(Violation::new(fp("max-member", "read-differs"), describe(), "payload as written", vmc::diff_bytes(&data, &back)));
    }
    Ok(members.iter().map(|m| m.size).max().unwrap_or(0))
}

fn main() {
    vmc::run("C01", "model_checking", |ctx| {
        use Op::*;
        let quick_alpha = [W(1), F, W(65495), W(65496), W(0), W(255), W(130991)];
        let full_alpha = [
            W(1), F, W(65495), W(65496), W(0), W(2), W(255), W(65279), W(65280), W(65281), W(65494),
            W(65535), W(65536), W(65537), W(130990), W(130991),
        ];
        let endings = [Ending::Finish, Ending::Drop, Ending::TryFinishThenDrop];
        ctx.rule("every sequence of write(len)/flush ops up to the depth x payload class x level x ending x call style; distinct = distinct member geometries (size, ISIZE, stored) observed");
        ctx.assume("miniz_oxide inflate and crc32fast are correct (independent of zlib-rs used by noodles)");
        // members at the size limit
        {
            let levels: Vec<u8> = if ctx.quick() { vec![1, 6] } else { (0..=9).collect() };
            let lo = 60_000usize;
            let per = 65_495 - lo + 1;
            let n_cases = (levels.len() * per) as u64;
            let biggest = std::sync::atomic::AtomicUsize::new(0);
            let lv = levels.clone();
            ctx.sweep(
                "member_size_boundary",
                n_cases,
                |i| format!("level={} n={}", lv[i as usize / per], lo + i as usize % per),
                |i| {
                    let size = member_size_case(levels[i as usize / per], lo + i as usize % per)?;
                    biggest.fetch_max(size, std::sync::atomic::Ordering::Relaxed);
                    Ok(())
                },
            );
            let b = biggest.load(std::sync::atomic::Ordering::Relaxed);
            eprintln!("[C01] member_size_boundary: largest member seen {b} bytes");
            ctx.extra("largest_member_bytes", vmc::serde_json::json!(b));
        }
        // flush retried / writer finished after a cleanly failed flush
        ctx.harness(Config::new("writer_retry_after_failed_flush", 1), |ch| {
            retry_body(ch, &[W(1), F, W(255), W(65495)], ctx_depth(), &[6, 0])
        });
        if ctx.quick() {
            let classes = [Payload::Text, Payload::Random, Payload::Zeros];
            let levels = [6u8, 0, 1, 9];
            ctx.harness(Config::new("writer_seq_d3", 0), |ch| {
                body(ch, &quick_alpha, 3, &classes, &levels, &endings)
            });
        } else {
            let classes = [Payload::Text, Payload::Random, Payload::Zeros, Payload::RandomThenZeros];
            let levels: Vec<u8> = vec![6, 0, 1, 2, 3, 4, 5, 7, 8, 9];
            ctx.harness(Config::new("writer_seq_d3_full", 0), |ch| {
                body(ch, &full_alpha, 3, &classes, &levels, &endings)
            });
            ctx.harness(Config::new("writer_seq_d4", 0), |ch| {
                body(ch, &quick_alpha, 4, &classes, &[6, 0, 1, 9], &endings)
            });
        }
    });
}
