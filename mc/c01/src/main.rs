//! C01 — BGZF write/read is the identity and every emitted file is well-formed BGZF.
//!
//! E1, complete: every sequence of write(len)/flush operations up to a depth, over payload classes,
//! compression levels, call styles and endings. Oracles: independent walker (miniz_oxide +
//! crc32fast), flat byte model, noodles' own reader.

use std::io::{Read, Write};

use noodles_bgzf as bgzf;
use vmc::{
    Chooser, Config, Outcome, Violation,
    env::FaultSink,
    oracle::bgzf::{self as ob, Payload},
};

#[derive(Clone, Copy, Debug, PartialEq)]
enum Op {
    W(usize),
    F,
}

#[derive(Clone, Copy, Debug, PartialEq)]
enum Ending {
    Finish,
    Drop,
    TryFinishThenDrop,
}

#[derive(Clone, Copy, Debug, PartialEq)]
enum Style {
    WriteAll,
    RawWrite,
}

fn fp(stage: &str, what: &str) -> String {
    format!("stage={stage} what={what}")
}

fn body(
    ch: &Chooser,
    alphabet: &[Op],
    depth: usize,
    classes: &[Payload],
    levels: &[u8],
    endings: &[Ending],
) -> Outcome {
    let class = *ch.pick_free("class", classes);
    let level = *ch.pick_free("level", levels);
    let ending = *ch.pick_free("ending", endings);
    let style = *ch.pick_free("style", &[Style::WriteAll, Style::RawWrite]);

    // operation sequence: at each position either stop (0) or one letter
    let mut ops = Vec::new();
    for _ in 0..depth {
        let k = ch.free("op", alphabet.len() + 1);
        if k == 0 {
            break;
        }
        ops.push(alphabet[k - 1]);
    }
    let describe = || format!("class={class:?} level={level} ending={ending:?} style={style:?} ops={ops:?}");
    ch.desc(describe);

    let sink = FaultSink::plain();
    let lvl = bgzf::io::writer::CompressionLevel::new(level).expect("level");
    let mut w = bgzf::io::writer::Builder::default()
        .set_compression_level(lvl)
        .build_from_writer(sink.clone());

    let mut model: Vec<u8> = Vec::new();
    for op in &ops {
        match *op {
            Op::F => {
                if let Err(e) = w.flush() {
                    return Err(Violation::new(fp("flush", "error"), describe(), "Ok", format!("{e}")));
                }
            }
            Op::W(n) => {
                let data = ob::payload(class, model.len() as u64, n);
                match style {
                    Style::WriteAll => {
                        if let Err(e) = w.write_all(&data) {
                            return Err(Violation::new(fp("write_all", "error"), describe(), "Ok", format!("{e}")));
                        }
                        model.extend_from_slice(&data);
                    }
                    Style::RawWrite => {
                        let mut off = 0;
                        let mut guard = 0;
                        while off < data.len() {
                            match w.write(&data[off..]) {
                                Ok(k) => {
                                    if k == 0 || k > data.len() - off {
                                        return Err(Violation::new(
                                            fp("write", "bad-count"),
                                            describe(),
                                            format!("1..={}", data.len() - off),
                                            format!("{k}"),
                                        ));
                                    }
                                    model.extend_from_slice(&data[off..off + k]);
                                    off += k;
                                }
                                Err(e) => {
                                    return Err(Violation::new(fp("write", "error"), describe(), "Ok", format!("{e}")));
                                }
                            }
                            guard += 1;
                            if guard > 100 {
                                return Err(Violation::new(fp("write", "no-progress"), describe(), "progress", "100 calls"));
                            }
                        }
                        if data.is_empty() {
                            match w.write(&data) {
                                Ok(0) => {}
                                other => {
                                    return Err(Violation::new(fp("write", "empty"), describe(), "Ok(0)", format!("{other:?}")));
                                }
                            }
                        }
                    }
                }
            }
        }
        ch.state((model.len() % 65495, w.position()));
    }

    match ending {
        Ending::Finish => match w.finish() {
            Ok(_) => {}
            Err(e) => return Err(Violation::new(fp("finish", "error"), describe(), "Ok", format!("{e}"))),
        },
        Ending::Drop => drop(w),
        Ending::TryFinishThenDrop => {
            if let Err(e) = w.try_finish() {
                return Err(Violation::new(fp("try_finish", "error"), describe(), "Ok", format!("{e}")));
            }
            drop(w);
        }
    }

    let bytes = sink.bytes();

    // (1) independent walk
    let members = match ob::walk(&bytes) {
        Ok(m) => m,
        Err(e) => {
            let what = e.split(':').nth(1).unwrap_or(&e).trim();
            let what: String = vmc::normalise_msg(what);
            return Err(Violation::new(
                fp("walk", &what),
                describe(),
                "well-formed BGZF members",
                e,
            ));
        }
    };
    if !ob::ends_with_eof(&bytes) {
        return Err(Violation::new(fp("walk", "no-eof-marker"), describe(), "file ends with the 28-byte EOF marker", format!("{} bytes, tail {}", bytes.len(), vmc::hex(&bytes[bytes.len().saturating_sub(28)..]))));
    }
    let mut cat = Vec::with_capacity(model.len());
    for m in &members {
        cat.extend_from_slice(&m.data);
    }
    if cat != model {
        return Err(Violation::new(
            fp("walk", "payload-differs"),
            describe(),
            format!("{} bytes as written", model.len()),
            vmc::diff_bytes(&model, &cat),
        ));
    }

    // (2) noodles' own reader
    let mut r = bgzf::io::Reader::new(&bytes[..]);
    let mut back = Vec::new();
    match r.read_to_end(&mut back) {
        Ok(_) => {
            if back != model {
                return Err(Violation::new(
                    fp("read", "payload-differs"),
                    describe(),
                    format!("{} bytes as written", model.len()),
                    vmc::diff_bytes(&model, &back),
                ));
            }
        }
        Err(e) => {
            return Err(Violation::new(fp("read", "error"), describe(), "Ok", format!("{e}")));
        }
    }

    // observations (vacuity guard): member geometry
    let geom: Vec<(usize, usize, bool)> = members.iter().map(|m| (m.size, m.data.len(), m.stored)).collect();
    ch.obs_hash(&geom);
    if members.iter().any(|m| m.stored && m.data.len() > 1000) {
        ch.tag("stored-member(level-0 or fallback)");
    }
    if members.iter().any(|m| m.data.len() == 65495) {
        ch.tag("full-staging-member");
    }
    if members.iter().filter(|m| m.data.is_empty()).count() > 1 {
        ch.tag("eof-marker-twice");
    }
    if members.iter().any(|m| m.size > 65400) {
        ch.tag("member-near-64KiB");
    }
    ch.steps(members.len() as u64);
    Ok(())
}

fn main() {
    vmc::run("C01", "model_checking", |ctx| {
        use Op::*;
        let quick_alpha = [W(1), F, W(65495), W(65496), W(0), W(255), W(130991)];
        let full_alpha = [
            W(1), F, W(65495), W(65496), W(0), W(2), W(255), W(65279), W(65280), W(65281), W(65494),
            W(65535), W(65536), W(65537), W(130990), W(130991),
        ];
        let endings = [Ending::Finish, Ending::Drop, Ending::TryFinishThenDrop];
        ctx.rule("every sequence of write(len)/flush ops up to the depth x payload class x level x ending x call style; distinct = distinct member geometries (size, ISIZE, stored) observed");
        ctx.assume("miniz_oxide inflate and crc32fast are correct (independent of zlib-rs used by noodles)");
        if ctx.quick() {
            let classes = [Payload::Text, Payload::Random, Payload::Zeros];
            let levels = [6u8, 0, 1, 9];
            ctx.harness(Config::new("writer_seq_d3", 0), |ch| {
                body(ch, &quick_alpha, 3, &classes, &levels, &endings)
            });
        } else {
            let classes = [Payload::Text, Payload::Random, Payload::Zeros, Payload::RandomThenZeros];
            let levels: Vec<u8> = vec![6, 0, 1, 2, 3, 4, 5, 7, 8, 9];
            ctx.harness(Config::new("writer_seq_d3_full", 0), |ch| {
                body(ch, &full_alpha, 3, &classes, &levels, &endings)
            });
            ctx.harness(Config::new("writer_seq_d4", 0), |ch| {
                body(ch, &quick_alpha, 4, &classes, &[6, 0, 1, 9], &endings)
            });
        }
    });
}
