#!/usr/bin/env python3
"""Builds a rANS Nx16 / AAC stream of `depth` nested one-chunk stripes around the CAT payload "a".

usage: nested_stripe.py <depth>      (prints hex; decode with noodles_cram::verif::rans_nx16_decode(&src, 1)
                                      or aac_decode(&src, 1))

Observed on 33caecb and with all fixcram diffs applied (pre-existing, not reached by the C15 sweep):
depth 5000 (20 860 bytes) decodes to "a"; depth 10000 (45 860 bytes) overflows the 8 MiB main-thread stack
("thread 'main' has overflowed its stack", SIGABRT) in both decoders: stripe::decode -> decode -> stripe::decode ...
recurses once per level and a level costs only 4-6 input bytes.
"""
import sys


def uint7(n):
    out = [n & 0x7F]
    n >>= 7
    while n:
        out.append((n & 0x7F) | 0x80)
        n >>= 7
    return bytes(reversed(out))


def nest(depth):
    inner = bytes([0x30, 0x61])  # CAT | NO_SIZE, payload "a"
    for _ in range(depth):
        inner = bytes([0x18, 0x01]) + uint7(len(inner)) + inner  # STRIPE | NO_SIZE, 1 chunk, clen
    return bytes([0x08, 0x01, 0x01]) + uint7(len(inner)) + inner  # STRIPE, ulen 1, 1 chunk, clen


if __name__ == "__main__":
    print(nest(int(sys.argv[1])).hex())
