//! scratch-only: random multi-byte mutation fuzz of the CRAM block codecs. fz <seed> <iters>
use noodles_cram::verif as cv;
use std::collections::BTreeMap;
use std::panic;
use std::sync::Mutex;

static LOC: Mutex<String> = Mutex::new(String::new());

struct Rng(u64);
impl Rng {
    fn next(&mut self) -> u64 {
        self.0 ^= self.0 << 13;
        self.0 ^= self.0 >> 7;
        self.0 ^= self.0 << 17;
        self.0
    }
    fn below(&mut self, n: usize) -> usize {
        (self.next() % n as u64) as usize
    }
}

fn hex(b: &[u8]) -> String {
    b.iter().map(|x| format!("{x:02x}")).collect()
}

fn inputs(rng: &mut Rng) -> Vec<Vec<u8>> {
    let mut v: Vec<Vec<u8>> = vec![
        b"abracadabraabracadabraabracadabra".to_vec(),
        b"noodles".to_vec(),
        vec![b'A'; 70],
        (0..=255u8).collect(),
        b"ACGTACGTTTGGCCAAACGTNACGTACGATCGATCGATTTACGACGATCAGCTACGACTAGCATCGACTAGCTAC".to_vec(),
    ];
    let mut r = Vec::new();
    for _ in 0..300 {
        r.push(b"!#()+5:<>?FI"[rng.below(12)]);
    }
    v.push(r);
    let mut r = Vec::new();
    for _ in 0..1000 {
        r.push((rng.next() & 0xff) as u8);
    }
    v.push(r);
    v
}

fn main() {
    let a: Vec<String> = std::env::args().collect();
    let seed: u64 = a.get(1).map(|s| s.parse().unwrap()).unwrap_or(1);
    let iters: usize = a.get(2).map(|s| s.parse().unwrap()).unwrap_or(100000);
    let only: Option<&str> = a.get(3).map(|s| s.as_str());
    let mut rng = Rng(seed.wrapping_mul(0x9e3779b97f4a7c15) | 1);

    panic::set_hook(Box::new(|info| {
        let l = info.location().map(|l| format!("{}:{}", l.file(), l.line())).unwrap_or_default();
        let m = info.payload().downcast_ref::<String>().cloned().or_else(|| info.payload().downcast_ref::<&str>().map(|s| s.to_string())).unwrap_or_default();
        *LOC.lock().unwrap() = format!("{l} {}", &m[..m.len().min(60)]);
    }));

    // (entry, len, stream)
    let mut streams: Vec<(&'static str, usize, Vec<u8>)> = Vec::new();
    let ins = inputs(&mut rng);
    for src in &ins {
        for o in [cv::Order::Zero, cv::Order::One] {
            if let Ok(Ok(s)) = panic::catch_unwind(|| cv::rans_4x8_encode(o, src)) {
                streams.push(("rans_4x8", src.len(), s));
            }
        }
        for bits in [0u8, 1, 4, 5, 8, 9, 0x40, 0x41, 0x80, 0x81, 0xc0, 0xc1, 0x20, 0x44, 0x84, 0x0c, 0x48, 0x88] {
            let f = cv::RansNx16Flags::from(bits);
            if let Ok(Ok(s)) = panic::catch_unwind(|| cv::rans_nx16_encode(f, src)) {
                streams.push(("rans_nx16", src.len(), s));
            }
            let f = cv::AacFlags::from(bits);
            if let Ok(Ok(s)) = panic::catch_unwind(|| cv::aac_encode(f, src)) {
                streams.push(("aac", src.len(), s));
            }
        }
        for lens in [vec![src.len()], vec![src.len() / 2, src.len() - src.len() / 2], vec![src.len() / 3; 3]] {
            if lens.iter().sum::<usize>() != src.len() || lens.contains(&0) {
                continue;
            }
            if let Ok(Ok(s)) = panic::catch_unwind(|| cv::fqzcomp_encode(&lens, src)) {
                streams.push(("fqzcomp", src.len(), s));
            }
        }
    }
    for names in [
        &b"r1\0r2\0r3\0"[..],
        b"I17_08765:2:123:61541:01763#9\0I17_08765:2:123:1636:08611#9\0I17_08765:2:124:45613:16161#9\0",
        b"read.0001/1\0read.0001/2\0read.0002/1\0read.0002/1\0x\0read.00100/1\0",
    ] {
        if let Ok(Ok(s)) = panic::catch_unwind(|| cv::name_tokenizer_encode(names)) {
            streams.push(("name_tokenizer", names.len(), s));
        }
    }
    eprintln!("{} valid streams", streams.len());
    // sanity: every valid stream decodes
    for (e, n, s) in &streams {
        let r = match *e {
            "rans_4x8" => cv::rans_4x8_decode(s),
            "rans_nx16" => cv::rans_nx16_decode(s, *n),
            "aac" => cv::aac_decode(s, *n),
            "fqzcomp" => cv::fqzcomp_decode(s),
            _ => cv::name_tokenizer_decode(s),
        };
        if r.is_err() {
            eprintln!("VALID STREAM FAILS: {e} {n} {}", hex(s));
        }
    }

    let mut found: BTreeMap<String, (usize, String)> = BTreeMap::new();
    let mut slow: Vec<String> = Vec::new();
    for it in 0..iters {
        let (e, n, s) = &streams[rng.below(streams.len())];
        if let Some(o) = only {
            if o != *e {
                continue;
            }
        }
        if *e == "fqzcomp" && it % 8 != 0 {
            continue;
        }
        let mut m = s.clone();
        let k = 1 + rng.below(4);
        for _ in 0..k {
            if m.is_empty() {
                break;
            }
            // bias to the header region
            let lim = if rng.below(2) == 0 { m.len().min(40) } else { m.len() };
            let p = rng.below(lim);
            match rng.below(8) {
                0 => m[p] = 0,
                1 => m[p] = 0xff,
                2 => m[p] ^= 1 << rng.below(8),
                3 => m[p] = m[p].wrapping_add(1),
                4 => m[p] = m[p].wrapping_sub(1),
                5 => {
                    m.insert(p, (rng.next() & 0xff) as u8);
                }
                6 => {
                    m.remove(p);
                }
                _ => m[p] = (rng.next() & 0xff) as u8,
            }
        }
        if rng.below(10) == 0 {
            let l = rng.below(m.len() + 1);
            m.truncate(l);
        }
        // keep declared sizes small to avoid decompression bombs dominating: skip streams whose
        // first bytes declare more than 16 MiB (checked by the decoders' own vec! allocation otherwise)
        let t = std::time::Instant::now();
        let mm = m.clone();
        let ee = *e;
        let nn = if rng.below(4) == 0 { rng.below(64) } else { *n };
        let r = panic::catch_unwind(move || match ee {
            "rans_4x8" => cv::rans_4x8_decode(&mm).map(|v| v.len()),
            "rans_nx16" => cv::rans_nx16_decode(&mm, nn).map(|v| v.len()),
            "aac" => cv::aac_decode(&mm, nn).map(|v| v.len()),
            "fqzcomp" => cv::fqzcomp_decode(&mm).map(|v| v.len()),
            _ => cv::name_tokenizer_decode(&mm).map(|v| v.len()),
        });
        let el = t.elapsed();
        if el.as_millis() > 1500 {
            slow.push(format!("{e} len={nn} {:?} {}", el, hex(&m)));
        }
        if r.is_err() {
            let loc = LOC.lock().unwrap().clone();
            let key = format!("{e} {loc}");
            let ent = found.entry(key).or_insert((0, format!("len={nn} {}", hex(&m))));
            ent.0 += 1;
        }
    }
    for (k, (c, ex)) in &found {
        println!("PANIC x{c} {k}\n    e.g. {ex}");
    }
    for s in slow.iter().take(10) {
        println!("SLOW {s}");
    }
    println!("done: {} panic classes, {} slow", found.len(), slow.len());
}
