//! scratch-only: fx <entry> <len> <hex>
use noodles_cram::verif as cv;

fn hex(s: &str) -> Vec<u8> {
    (0..s.len() / 2).map(|i| u8::from_str_radix(&s[2 * i..2 * i + 2], 16).unwrap()).collect()
}

fn main() {
    let a: Vec<String> = std::env::args().collect();
    let n: usize = a[2].parse().unwrap();
    let src = if let Some(f) = a[3].strip_prefix('@') { hex(std::fs::read_to_string(f).unwrap().trim()) } else { hex(&a[3]) };
    let t = std::time::Instant::now();
    let r = match a[1].as_str() {
        "rans_4x8" => cv::rans_4x8_decode(&src),
        "rans_nx16" => cv::rans_nx16_decode(&src, n),
        "aac" => cv::aac_decode(&src, n),
        "fqzcomp" => cv::fqzcomp_decode(&src),
        "name_tokenizer" => cv::name_tokenizer_decode(&src),
        _ => panic!("entry"),
    };
    match r {
        Ok(v) => println!("Ok(len={}) {:?} in {:?}", v.len(), String::from_utf8_lossy(&v[..v.len().min(80)]), t.elapsed()),
        Err(e) => println!("Err({:?}: {}) in {:?}", e.kind(), e, t.elapsed()),
    }
}
