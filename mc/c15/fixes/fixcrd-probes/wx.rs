//! wx <case>: CRAM writer probes (no catch: a panic shows its backtrace).
use noodles_cram as cram;
use noodles_fasta as fasta;
use noodles_sam as sam;
use sam::alignment::io::Write as _;
use std::num::NonZero;

fn header(n: usize) -> sam::Header {
    use sam::header::record::value::{Map, map::ReferenceSequence};
    let mut b = sam::Header::builder();
    for i in 0..n {
        b = b.add_reference_sequence(format!("sq{i}"), Map::<ReferenceSequence>::new(NonZero::new(8).unwrap()));
    }
    b.build()
}

fn repo() -> fasta::Repository {
    let r = fasta::Record::new(fasta::record::Definition::new("sq0", None), fasta::record::Sequence::from(b"ACGTACGT".to_vec()));
    fasta::Repository::new(vec![r])
}

fn rec(flags: u16, id: Option<usize>, pos: usize, cigar: &str, seq: &str) -> sam::alignment::RecordBuf {
    use sam::alignment::record::{Flags, cigar::{Op, op::Kind}};
    use noodles_core::Position;
    let mut ops = Vec::new();
    let mut n = 0usize;
    for c in cigar.chars() {
        if let Some(d) = c.to_digit(10) { n = n * 10 + d as usize; continue; }
        let k = match c { 'M' => Kind::Match, 'D' => Kind::Deletion, 'I' => Kind::Insertion, 'S' => Kind::SoftClip, 'N' => Kind::Skip, _ => panic!() };
        ops.push(Op::new(k, n)); n = 0;
    }
    let mut b = sam::alignment::RecordBuf::builder()
        .set_name("r0")
        .set_flags(Flags::from(flags))
        .set_cigar(ops.into_iter().collect())
        .set_sequence(seq.as_bytes().to_vec().into())
        .set_quality_scores(vec![30u8; seq.len()].into());
    if let Some(id) = id { b = b.set_reference_sequence_id(id); }
    if let Some(p) = Position::new(pos) { b = b.set_alignment_start(p); }
    b.build()
}

fn run(h: &sam::Header, repo: fasta::Repository, r: &sam::alignment::RecordBuf) {
    let mut w = cram::io::writer::Builder::default().set_reference_sequence_repository(repo).build_from_writer(Vec::new());
    println!("header: {:?}", w.write_header(h).map_err(|e| (e.kind(), e.to_string())));
    println!("record: {:?}", w.write_alignment_record(h, r).map_err(|e| (e.kind(), e.to_string())));
    println!("finish: {:?}", w.try_finish(h).map_err(|e| (e.kind(), e.to_string())));
    let out = w.into_inner();
    println!("bytes: {}", out.len());
    let mut rd = cram::io::reader::Builder::default().set_reference_sequence_repository(crate::repo()).build_from_reader(&out[..]);
    match rd.read_header() {
        Ok(h2) => { for x in rd.records(&h2) { println!("read: {:?}", x.map(|r| (r.alignment_start(), r.sequence().len())).map_err(|e| e.to_string())); } }
        Err(e) => println!("read header: {e}"),
    }
}

fn main() {
    let case = std::env::args().nth(1).unwrap();
    match case.as_str() {
        "ok" => run(&header(1), repo(), &rec(0, Some(0), 2, "4M", "CGTA")),
        "ok-mismatch" => run(&header(1), repo(), &rec(0, Some(0), 2, "1M1I2M", "TGGT")),
        "ok-end" => run(&header(1), repo(), &rec(0, Some(0), 5, "4M", "ACGT")),
        // (1) reference sequence id not in the header
        "bad-id" => run(&header(1), repo(), &rec(0, Some(3), 2, "4M", "CGTA")),
        // sibling: id in the header, sequence not in the repository
        "no-seq" => run(&header(2), repo(), &rec(0, Some(1), 2, "4M", "CGTA")),
        // (2) alignment start beyond the reference sequence
        "start-beyond" => run(&header(1), repo(), &rec(0, Some(0), 100, "4M", "CGTA")),
        "start-beyond-1m" => run(&header(1), repo(), &rec(0, Some(0), 100, "1M", "C")),
        "end-beyond" => run(&header(1), repo(), &rec(0, Some(0), 7, "4M", "GTAC")),
        "del-beyond" => run(&header(1), repo(), &rec(0, Some(0), 7, "2M5D", "GT")),
        "ins-at-end" => run(&header(1), repo(), &rec(0, Some(0), 7, "2M2I", "GTAA")),
        "unmapped-placed-beyond" => run(&header(1), repo(), &rec(4, Some(0), 100, "", "CGTA")),
        "unmapped-placed" => run(&header(1), repo(), &rec(4, Some(0), 7, "", "CGTA")),
        _ => panic!("unknown case"),
    }
}
