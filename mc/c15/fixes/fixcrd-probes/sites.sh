#!/bin/bash
# sites.sh <log>: for each VIOLATION replay in the log print the panic location and first noodles-cram frames
cd /tmp/vs-fixcrd/verif
grep -o "replay=.*json" "$1" | cut -d= -f2 | while read f; do
  mode=$(python3 -c "import json,sys;print(json.load(open('$f'))['custom']['mode'])")
  m=Eager; [ "$mode" = Lazy ] && m=Lazy
  out=$(RUST_BACKTRACE=1 timeout 20 mc/target/release/examples/fxd $f $m 2>&1)
  loc=$(echo "$out" | grep -A1 "panicked at" | head -2 | tr '\n' ' ' | sed 's#/tmp/vs-fixcrd/repo/##')
  frames=$(echo "$out" | grep -A1 " noodles_cram::\|noodles_core::" | grep "at /tmp" | sed 's#.*at /tmp/vs-fixcrd/repo/##' | head -3 | tr '\n' ' ')
  echo "$(basename $f) [$mode] $loc || $frames" | cut -c1-420
done
