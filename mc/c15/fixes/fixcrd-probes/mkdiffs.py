#!/usr/bin/env python3
"""Regenerate one diff per edit group against a clean worktree of /repo HEAD."""
import subprocess, os, sys
WT = '/tmp/vs-fixcrd/split'
OUT = '/tmp/vs-fixcrd/diffs'
SLICE = 'noodles-cram/src/io/reader/container/slice.rs'
RECS = 'noodles-cram/src/io/reader/container/slice/records.rs'
CONV = 'noodles-cram/src/io/writer/record/convert.rs'
WSLICE = 'noodles-cram/src/io/writer/container/slice.rs'

G = {}

G['C15H-cram-records-alloc-bounded-preallocation'] = [
(SLICE, '''        let mut records = vec![Record::default(); self.header.record_count()];

        for record in &mut records {
            reader.read_record(record)?;

            record.header = Some(header);

            if !record.bam_flags.is_unmapped() && !record.cram_flags.sequence_is_missing() {
                record.reference_sequence = if reference_sequence_context.is_many() {
                    get_record_reference_sequence(&reference_sequence_repository, header, record)?
                } else {
                    slice_reference_sequence.clone()
                };

                record.substitution_matrix = substitution_matrix.clone();
            }
        }
''', '''        // The record count is untrusted: reserve a bounded amount and let the list grow with the
        // records that are actually decoded.
        let record_count = self.header.record_count();
        let mut records = Vec::with_capacity(record_count.min(MAX_PREALLOCATED_RECORD_COUNT));

        for _ in 0..record_count {
            let mut record = Record::default();

            reader.read_record(&mut record)?;

            record.header = Some(header);

            if !record.bam_flags.is_unmapped() && !record.cram_flags.sequence_is_missing() {
                record.reference_sequence = if reference_sequence_context.is_many() {
                    get_record_reference_sequence(&reference_sequence_repository, header, &record)?
                } else {
                    slice_reference_sequence.clone()
                };

                record.substitution_matrix = substitution_matrix.clone();
            }

            records.push(record);
        }
'''),
(SLICE, '''/// A container slice.
///
/// A slice contains a header''', '''const MAX_PREALLOCATED_RECORD_COUNT: usize = 1 << 16;

/// A container slice.
///
/// A slice contains a header'''),
]

G['C15H-cram-slice-reference-sequence-lookups'] = [
(SLICE, '''            .map(|(name, _)| name)
            .expect("invalid slice reference sequence ID");

        let sequence = reference_sequence_repository
            .get(reference_sequence_name)
            .transpose()?
            .expect("invalid slice reference sequence name");
''', '''            .map(|(name, _)| name)
            .ok_or_else(|| {
                io::Error::new(
                    io::ErrorKind::InvalidData,
                    "invalid slice reference sequence ID",
                )
            })?;

        let sequence = reference_sequence_repository
            .get(reference_sequence_name)
            .transpose()?
            .ok_or_else(|| {
                io::Error::new(
                    io::ErrorKind::InvalidData,
                    "missing slice reference sequence",
                )
            })?;
'''),
(SLICE, '''            .map(|(_, src)| src)
            .expect("invalid block content ID");
''', '''            .map(|(_, src)| src)
            .ok_or_else(|| {
                io::Error::new(
                    io::ErrorKind::InvalidData,
                    "invalid embedded reference bases block content ID",
                )
            })?;
'''),
(SLICE, '''        .map(|(name, _)| name)
        .expect("invalid reference sequence ID");
''', '''        .map(|(name, _)| name)
        .ok_or_else(|| {
            io::Error::new(io::ErrorKind::InvalidData, "missing reference sequence ID")
        })?;
'''),
]

G['C15H-cram-seqindex-slice-reference-md5-range'] = [
(SLICE, '''            let subsequence = &sequence[interval];
''', '''            let subsequence = sequence.get(interval).ok_or_else(|| {
                io::Error::new(
                    io::ErrorKind::InvalidData,
                    "slice alignment range is out of bounds of the reference sequence",
                )
            })?;
'''),
]

G['C15H-cram-slice-mate-distance'] = [
(SLICE, '''        .map(|(i, record)| record.mate_distance.map(|len| i + len + 1))
        .collect();
''', '''        .map(|(i, record)| record.mate_distance.map(|len| i + len + 1))
        .collect();

    if mate_indices.iter().flatten().any(|&i| i >= records.len()) {
        return Err(io::Error::new(
            io::ErrorKind::InvalidData,
            "invalid mate distance",
        ));
    }
'''),
]

G['C15H-cram-record-reference-bounds'] = [
(SLICE, '''        resolve_mates(&mut records)?;

        for i in unnamed_record_indices {''', '''        for record in &records {
            // In a multi-reference slice, a record is also decoded without its reference sequence
            // (see `get_record_reference_sequence`).
            if reference_sequence_context.is_many() && record.reference_sequence.is_none() {
                continue;
            }

            validate_record_reference_sequence(record)?;
        }

        resolve_mates(&mut records)?;

        for i in unnamed_record_indices {'''),
(SLICE, '''fn validate_sequence(sequence: &[u8], expected_checksum: &[u8; 16]) -> io::Result<()> {''', '''// Checks that the bases of a record can be rebuilt: the region the record covers must be in its
// reference sequence, or, without a reference sequence, the features must hold all the bases.
fn validate_record_reference_sequence(record: &Record<'_>) -> io::Result<()> {
    use crate::record::calculate_alignment_span;

    if record.bam_flags.is_unmapped() || record.cram_flags.sequence_is_missing() {
        return Ok(());
    }

    let (reference_start, reference_sequence_len) = match &record.reference_sequence {
        Some(ReferenceSequence::Embedded {
            reference_start,
            sequence,
        }) => (usize::from(*reference_start), sequence.len()),
        Some(ReferenceSequence::External { sequence }) => (1, sequence.len()),
        None => return validate_record_bases(record),
    };

    let alignment_start = record
        .alignment_start
        .map(usize::from)
        .ok_or_else(|| io::Error::new(io::ErrorKind::InvalidData, "missing alignment start"))?;

    let alignment_span = calculate_alignment_span(record.read_length, &record.features);

    // The 0-based, exclusive end of the record in the reference sequence.
    let end = alignment_start
        .checked_sub(reference_start)
        .map(|start| start + alignment_span);

    if end.is_some_and(|end| end <= reference_sequence_len) {
        Ok(())
    } else {
        Err(io::Error::new(
            io::ErrorKind::InvalidData,
            "alignment is out of bounds of the reference sequence",
        ))
    }
}

// Checks that the features of a record cover the read, i.e., no base is taken from a reference
// sequence.
fn validate_record_bases(record: &Record<'_>) -> io::Result<()> {
    let mut read_position = 1;

    for feature in &record.features {
        let len = match feature {
            Feature::Scores { .. } | Feature::QualityScore { .. } => continue,
            Feature::Substitution { .. } => return Err(missing_reference_sequence_error()),
            Feature::Bases { bases, .. }
            | Feature::Insertion { bases, .. }
            | Feature::SoftClip { bases, .. } => bases.len(),
            Feature::ReadBase { .. } | Feature::InsertBase { .. } => 1,
            Feature::Deletion { .. }
            | Feature::ReferenceSkip { .. }
            | Feature::Padding { .. }
            | Feature::HardClip { .. } => 0,
        };

        if usize::from(feature.position()) != read_position {
            return Err(missing_reference_sequence_error());
        }

        read_position += len;
    }

    if read_position == record.read_length + 1 {
        Ok(())
    } else {
        Err(missing_reference_sequence_error())
    }
}

fn missing_reference_sequence_error() -> io::Error {
    io::Error::new(io::ErrorKind::InvalidData, "missing reference sequence")
}

fn validate_sequence(sequence: &[u8], expected_checksum: &[u8; 16]) -> io::Result<()> {'''),
]

G['C15H-cram-slice-alignment-start-delta'] = [
(RECS, '''            prev_alignment_start + alignment_start_or_delta
''', '''            prev_alignment_start
                .checked_add(alignment_start_or_delta)
                .ok_or_else(|| {
                    io::Error::new(io::ErrorKind::InvalidData, "invalid alignment start delta")
                })?
'''),
]

G['C15H-cram-record-feature-positions'] = [
(RECS, '''            record.features.push(feature);
        }

        record.mapping_quality = self.read_mapping_quality()?;
''', '''            record.features.push(feature);
        }

        validate_features(&record.features, record.read_length)?;

        record.mapping_quality = self.read_mapping_quality()?;
'''),
(RECS, '''fn missing_data_series_encoding_error(data_series: DataSeries) -> io::Error {''', '''// Checks that the features are in order and within the read, which is what the sequence, quality
// scores, and alignment span of a record are calculated from.
fn validate_features(features: &[Feature<'_>], read_length: usize) -> io::Result<()> {
    // The next read positions (1-based) of the bases and quality scores, respectively.
    let mut sequence_position = 1;
    let mut quality_scores_position = 1;

    for feature in features {
        let position = usize::from(feature.position());

        let (base_count, quality_score_count) = match feature {
            Feature::Bases { bases, .. } => (Some(bases.len()), 0),
            Feature::Scores { quality_scores, .. } => (None, quality_scores.len()),
            Feature::ReadBase { .. } => (Some(1), 1),
            Feature::Substitution { .. } => (Some(1), 0),
            Feature::Insertion { bases, .. } => (Some(bases.len()), 0),
            Feature::InsertBase { .. } => (Some(1), 0),
            Feature::QualityScore { .. } => (None, 1),
            Feature::SoftClip { bases, .. } => (Some(bases.len()), 0),
            Feature::Deletion { .. }
            | Feature::ReferenceSkip { .. }
            | Feature::Padding { .. }
            | Feature::HardClip { .. } => (Some(0), 0),
        };

        if let Some(n) = base_count {
            if position < sequence_position {
                return Err(invalid_feature_position_error());
            }

            sequence_position = position + n;
        }

        quality_scores_position = quality_scores_position.max(position) + quality_score_count;

        if sequence_position > read_length + 1 || quality_scores_position > read_length + 1 {
            return Err(invalid_feature_position_error());
        }
    }

    Ok(())
}

fn invalid_feature_position_error() -> io::Error {
    io::Error::new(io::ErrorKind::InvalidData, "invalid feature position")
}

fn missing_data_series_encoding_error(data_series: DataSeries) -> io::Error {'''),
]

G['W-1-cram-writer-reference-sequence-lookups'] = [
(CONV, '''            let (reference_sequence_name, _) = header
                .reference_sequences()
                .get_index(id)
                .expect("missing reference sequence ID");

            let reference_sequence = reference_sequence_repository
                .get(reference_sequence_name)
                .transpose()?
                .expect("missing reference sequence");
''', '''            let (reference_sequence_name, _) =
                header.reference_sequences().get_index(id).ok_or_else(|| {
                    io::Error::new(io::ErrorKind::InvalidInput, "invalid reference sequence ID")
                })?;

            let reference_sequence = reference_sequence_repository
                .get(reference_sequence_name)
                .transpose()?
                .ok_or_else(|| {
                    io::Error::new(io::ErrorKind::InvalidInput, "missing reference sequence")
                })?;
'''),
]

G['W-2-cram-writer-alignment-out-of-reference-bounds'] = [
(CONV, '''                    let raw_reference_base = reference_sequence[reference_position];
''', '''                    let raw_reference_base = reference_sequence
                        .get(reference_position)
                        .copied()
                        .ok_or_else(reference_sequence_out_of_bounds_error)?;
'''),
(CONV, '''                    let reference_bases = &reference_sequence[reference_position..reference_end];
''', '''                    let reference_bases = reference_sequence
                        .get(reference_position..reference_end)
                        .ok_or_else(reference_sequence_out_of_bounds_error)?;
'''),
(CONV, '''#[allow(clippy::type_complexity)]
fn get_filtered_data<'r>(''', '''fn reference_sequence_out_of_bounds_error() -> io::Error {
    io::Error::new(
        io::ErrorKind::InvalidInput,
        "alignment is out of bounds of the reference sequence",
    )
}

#[allow(clippy::type_complexity)]
fn get_filtered_data<'r>('''),
]

G['W-3-cram-writer-slice-md5-range'] = [
(WSLICE, '''    let sequence = &reference_sequence[interval];
''', '''    let sequence = reference_sequence.get(interval).ok_or_else(|| {
        io::Error::new(
            io::ErrorKind::InvalidInput,
            "slice alignment range is out of bounds of the reference sequence",
        )
    })?;
'''),
]

G['SIB-cram-slice-template-length'] = [
(SLICE, '''fn resolve_mates(records: &mut [Record]) -> io::Result<()> {
''', '''fn resolve_mates(records: &mut [Record]) -> io::Result<()> {
    // Alignment positions are 31-bit integers, which is what the template lengths are calculated
    // with.
    if records.iter().any(|record| {
        record
            .alignment_end()
            .is_some_and(|end| i32::try_from(usize::from(end)).is_err())
    }) {
        return Err(io::Error::new(
            io::ErrorKind::InvalidData,
            "invalid alignment end",
        ));
    }

'''),
(SLICE, '''    let end = record_alignment_end
        .max(mate_alignment_end)
        .map(usize::from)
        .expect("invalid end position");
''', '''    // Neither record covers a reference base, and both are placed at the first position.
    let Some(end) = record_alignment_end
        .max(mate_alignment_end)
        .map(usize::from)
    else {
        return 0;
    };
'''),
]

def sh(*a, **k):
    return subprocess.run(a, check=True, capture_output=True, text=True, **k).stdout

def apply(edits, root):
    for f, old, new in edits:
        p = os.path.join(root, f)
        s = open(p).read()
        assert s.count(old) == 1, (f, old[:60], s.count(old))
        open(p, 'w').write(s.replace(old, new))

if __name__ == '__main__':
    only = sys.argv[1:]
    if not os.path.isdir(WT):
        sh('git', '-C', '/repo', 'worktree', 'add', '--detach', WT, 'HEAD')
    for name, edits in G.items():
        if only and name not in only: continue
        sh('git', '-C', WT, 'checkout', '--', '.')
        apply(edits, WT)
        d = sh('git', '-C', WT, 'diff')
        open(os.path.join(OUT, name + '.diff'), 'w').write(d)
        print(name, len(d.splitlines()))
    sh('git', '-C', WT, 'checkout', '--', '.')
