
#[cfg(test)]
mod scratch_fuzz {
    use std::sync::Arc;

    use noodles_fasta as fasta;
    use noodles_sam::alignment::Record as _;

    use super::*;
    use crate::io::reader::container::slice::{
        ReferenceSequence, calculate_template_length, validate_record_reference_sequence,
    };

    struct Rng(u64);

    impl Rng {
        fn next(&mut self) -> u64 {
            self.0 ^= self.0 << 13;
            self.0 ^= self.0 >> 7;
            self.0 ^= self.0 << 17;
            self.0
        }

        fn below(&mut self, n: u64) -> usize {
            (self.next() % n) as usize
        }
    }

    fn bases(rng: &mut Rng) -> Cow<'static, [u8]> {
        Cow::from(vec![b'C'; rng.below(4)])
    }

    fn feature(rng: &mut Rng, position: Position) -> Feature<'static> {
        match rng.below(12) {
            0 => Feature::Bases { position, bases: bases(rng) },
            1 => Feature::Scores { position, quality_scores: bases(rng) },
            2 => Feature::ReadBase { position, base: b'G', quality_score: 9 },
            3 => Feature::Substitution { position, code: rng.below(4) as u8 },
            4 => Feature::Insertion { position, bases: bases(rng) },
            5 => Feature::Deletion { position, len: rng.below(6) },
            6 => Feature::InsertBase { position, base: b'T' },
            7 => Feature::QualityScore { position, quality_score: 7 },
            8 => Feature::ReferenceSkip { position, len: rng.below(6) },
            9 => Feature::SoftClip { position, bases: bases(rng) },
            10 => Feature::Padding { position, len: rng.below(3) },
            _ => Feature::HardClip { position, len: rng.below(3) },
        }
    }

    #[test]
    fn test_validated_records_do_not_panic() {
        static EMBEDDED: [u8; 12] = *b"ACGTNacgtnAC";
        let external = Arc::new(fasta::record::Sequence::from(b"ACGTNNacgtACGTACGTAC".to_vec()));

        let mut rng = Rng(0x9e3779b97f4a7c15);
        let (mut accepted, mut rejected_features, mut rejected_reference) = (0u64, 0u64, 0u64);
        let (mut seq_len_mismatch, mut qs_len_mismatch) = (0u64, 0u64);

        for _ in 0..3_000_000 {
            let read_length = rng.below(10);
            let n = rng.below(6);

            let mut features = Vec::new();
            let mut position = 0;

            for i in 0..n {
                position += rng.below(4);
                if i == 0 && position == 0 {
                    position = 1;
                }
                features.push(feature(&mut rng, Position::new(position).unwrap()));
            }

            if validate_features(&features, read_length).is_err() {
                rejected_features += 1;
                continue;
            }

            let mut record = Record {
                bam_flags: sam::alignment::record::Flags::empty(),
                read_length,
                features,
                alignment_start: Position::new(rng.below(26)),
                ..Default::default()
            };

            record.reference_sequence = match rng.below(3) {
                0 => None,
                1 => Some(ReferenceSequence::External { sequence: external.clone() }),
                _ => Some(ReferenceSequence::Embedded {
                    reference_start: Position::new(1 + rng.below(8)).unwrap(),
                    sequence: &EMBEDDED[..],
                }),
            };

            if validate_record_reference_sequence(&record).is_err() {
                rejected_reference += 1;
                continue;
            }

            accepted += 1;

            let sequence = record.sequence();
            let mut iter = sequence.iter();
            let mut m = 0;
            loop {
                let _ = iter.size_hint();
                if iter.next().is_none() {
                    break;
                }
                m += 1;
            }
            if m != sequence.len() {
                seq_len_mismatch += 1;
            }
            let _ = sequence.get(read_length / 2);

            let quality_scores = record.quality_scores();
            let mut iter = quality_scores.iter();
            let mut m = 0;
            loop {
                let _ = iter.size_hint();
                if iter.next().is_none() {
                    break;
                }
                m += 1;
            }
            if m != quality_scores.len() {
                qs_len_mismatch += 1;
            }

            let _ = record.cigar().iter().count();
            let _ = record.cigar().len();
            let _ = sam::alignment::Record::alignment_span(&record);
            let _ = sam::alignment::Record::alignment_end(&record);
            let _ = calculate_template_length(&record, &record);
            let _ = format!("{record:?}");
        }

        eprintln!(
            "accepted={accepted} rejected_features={rejected_features} rejected_reference={rejected_reference} seq_len_mismatch={seq_len_mismatch} qs_len_mismatch={qs_len_mismatch}"
        );
        assert!(accepted > 10_000);
    }
}
