//! fxd <replay.json> [Eager|Lazy]: run the CRAM reader over the replay input without catching panics.
use vnd::{Api, Format, Opts};

fn hex(s: &str) -> Vec<u8> {
    (0..s.len() / 2).map(|i| u8::from_str_radix(&s[2 * i..2 * i + 2], 16).unwrap()).collect()
}

fn main() {
    let args: Vec<String> = std::env::args().collect();
    let text = std::fs::read_to_string(&args[1]).unwrap();
    let v: vmc::serde_json::Value = vmc::serde_json::from_str(&text).unwrap();
    let bytes = hex(v["custom"]["input_hex"].as_str().unwrap());
    let apis: Vec<Api> = match args.get(2).map(|s| s.as_str()) {
        Some("Lazy") => vec![Api::Lazy],
        Some("Eager") => vec![Api::Eager],
        _ => vec![Api::Eager, Api::Lazy],
    };
    for api in apis {
        let o = Opts::new(bytes.len()).api(api);
        let log = vnd::read_log(Format::Cram, &bytes[..], &o);
        println!("{:?}: {} lines; last: {}", api, log.len(), log.last().map(|s| s.as_str()).unwrap_or(""));
    }
}
