use std::time::Instant;
use noodles_core::{Position, region::Interval};
use noodles_csi::{self as csi, BinningIndex, binning_index::index::{ReferenceSequence, reference_sequence::{Bin, index::BinnedIndex}}};
use noodles_bgzf as bgzf;

fn main() {
    let args: Vec<String> = std::env::args().collect();
    let min_shift: u8 = args[1].parse().unwrap();
    let depth: u8 = args[2].parse().unwrap();
    let bin_id: usize = args[3].parse().unwrap();
    let chunk = csi::binning_index::index::reference_sequence::bin::Chunk::new(bgzf::VirtualPosition::from(1), bgzf::VirtualPosition::from(2));
    let bins = [(bin_id, Bin::new(vec![chunk]))].into_iter().collect();
    let rs: ReferenceSequence<BinnedIndex> = ReferenceSequence::new(bins, Default::default(), None);
    let index = csi::Index::builder().set_min_shift(min_shift).set_depth(depth).set_reference_sequences(vec![rs]).build();
    for iv in [Interval::from(..), Interval::from(Position::try_from(1).unwrap()..=Position::try_from(1000).unwrap())] {
        let t = Instant::now();
        let r = std::panic::catch_unwind(|| index.query(0, iv).map(|c| c.len()).map_err(|e| e.to_string()));
        println!("min_shift={min_shift} depth={depth} bin={bin_id} interval={iv:?}: {:?} in {:?}", r.map_err(|_| "PANIC"), t.elapsed());
    }
}
