// (c) async bgzf reader: a failed seek leaves the reader unusable (panic on next use)
// (d) seek to a virtual position whose in-block offset is beyond the block data
use std::io::{self, Cursor, Read, Write, BufRead};
use std::pin::Pin;
use std::task::{Context, Poll};
use noodles_bgzf as bgzf;
use tokio::io::{AsyncRead, AsyncSeek, AsyncReadExt, ReadBuf};

struct Flaky { inner: Cursor<Vec<u8>>, fail_seek: std::sync::Arc<std::sync::atomic::AtomicBool> }
impl AsyncRead for Flaky {
    fn poll_read(mut self: Pin<&mut Self>, cx: &mut Context<'_>, buf: &mut ReadBuf<'_>) -> Poll<io::Result<()>> {
        Pin::new(&mut self.inner).poll_read(cx, buf)
    }
}
impl AsyncSeek for Flaky {
    fn start_seek(mut self: Pin<&mut Self>, pos: io::SeekFrom) -> io::Result<()> {
        if self.fail_seek.load(std::sync::atomic::Ordering::SeqCst) {
            return Err(io::Error::new(io::ErrorKind::Other, "injected seek failure"));
        }
        Pin::new(&mut self.inner).start_seek(pos)
    }
    fn poll_complete(mut self: Pin<&mut Self>, cx: &mut Context<'_>) -> Poll<io::Result<u64>> {
        Pin::new(&mut self.inner).poll_complete(cx)
    }
}

fn data() -> Vec<u8> {
    let mut w = bgzf::io::Writer::new(Vec::new());
    w.write_all(b"noodles").unwrap();
    w.flush().unwrap();
    w.write_all(b"bgzf").unwrap();
    w.finish().unwrap()
}

fn guard<T>(name: &str, f: impl FnOnce() -> T + std::panic::UnwindSafe) -> Option<T> where T: std::fmt::Debug {
    match std::panic::catch_unwind(f) {
        Ok(v) => { println!("{name}: returned {v:?}"); Some(v) }
        Err(_) => { println!("{name}: PANIC"); None }
    }
}

fn main() {
    let d = data();
    let beyond = bgzf::VirtualPosition::try_from((0u64, 100u16)).unwrap(); // block 0 holds 7 bytes

    // sync reader (reference behaviour)
    guard("sync seek beyond block", || {
        let mut r = bgzf::io::Reader::new(Cursor::new(d.clone()));
        let s = r.seek(beyond).map_err(|e| e.to_string());
        let mut v = Vec::new();
        let rd = r.read_to_end(&mut v).map_err(|e| e.to_string());
        (s, rd, v.len())
    });

    // multithreaded reader
    guard("mt seek beyond block", || {
        use bgzf::io::Seek as _;
        let mut r = bgzf::io::MultithreadedReader::new(Cursor::new(d.clone()));
        let s = r.seek_to_virtual_position(beyond).map_err(|e| e.to_string());
        let vp = std::panic::catch_unwind(std::panic::AssertUnwindSafe(|| r.virtual_position())).map_err(|_| "PANIC in virtual_position");
        let fb = std::panic::catch_unwind(std::panic::AssertUnwindSafe(|| r.fill_buf().map(|b| b.len()).map_err(|e| e.to_string()))).map_err(|_| "PANIC in fill_buf");
        let mut v = [0u8; 2];
        let rd = std::panic::catch_unwind(std::panic::AssertUnwindSafe(|| r.read_exact(&mut v).map_err(|e| e.to_string()))).map_err(|_| "PANIC in read_exact");
        (s, vp, fb, rd)
    });

    guard("mt seek beyond block then read_exact", || {
        use bgzf::io::Seek as _;
        let mut r = bgzf::io::MultithreadedReader::new(Cursor::new(d.clone()));
        let s = r.seek_to_virtual_position(beyond).map_err(|e| e.to_string());
        let mut v = [0u8; 2];
        let rd = std::panic::catch_unwind(std::panic::AssertUnwindSafe(|| r.read_exact(&mut v).map_err(|e| e.to_string()))).map_err(|_| "PANIC in read_exact");
        (s, rd)
    });

    let rt = tokio::runtime::Builder::new_current_thread().build().unwrap();

    // async reader: seek beyond block
    guard("async seek beyond block", || {
        rt.block_on(async {
            let mut r = bgzf::r#async::io::Reader::new(Cursor::new(d.clone()));
            let s = r.seek(beyond).await.map_err(|e| e.to_string());
            let vp = std::panic::catch_unwind(std::panic::AssertUnwindSafe(|| r.virtual_position())).map_err(|_| "PANIC in virtual_position");
            let mut v = Vec::new();
            let rd = r.read_to_end(&mut v).await.map_err(|e| e.to_string());
            (s, vp, rd, v.len())
        })
    });

    // async reader: failed seek, then use
    guard("async failed seek then read", || {
        rt.block_on(async {
            let flag = std::sync::Arc::new(std::sync::atomic::AtomicBool::new(false));
            let mut r = bgzf::r#async::io::Reader::new(Flaky { inner: Cursor::new(d.clone()), fail_seek: flag.clone() });
            flag.store(true, std::sync::atomic::Ordering::SeqCst);
            let s1 = r.seek(bgzf::VirtualPosition::MIN).await.map_err(|e| e.to_string());
            println!("  first seek: {s1:?}");
            flag.store(false, std::sync::atomic::Ordering::SeqCst);
            let s2 = r.seek(bgzf::VirtualPosition::MIN).await.map_err(|e| e.to_string());
            println!("  second seek: {s2:?}");
            let mut v = Vec::new();
            let rd = r.read_to_end(&mut v).await.map_err(|e| e.to_string());
            (s1, s2, rd, v.len())
        })
    });

    // async reader: seek to a position that holds garbage (block decode error), then use
    guard("async seek onto garbage then read", || {
        rt.block_on(async {
            let mut r = bgzf::r#async::io::Reader::new(Cursor::new(d.clone()));
            let s1 = r.seek(bgzf::VirtualPosition::try_from((3u64, 0u16)).unwrap()).await.map_err(|e| e.to_string());
            println!("  first seek: {s1:?}");
            let s2 = r.seek(bgzf::VirtualPosition::MIN).await.map_err(|e| e.to_string());
            println!("  second seek: {s2:?}");
            let mut v = Vec::new();
            let rd = r.read_to_end(&mut v).await.map_err(|e| e.to_string());
            (s1, s2, rd, v.len())
        })
    });

    // poll_seek variant
    guard("async failed poll_seek then poll_seek", || {
        rt.block_on(async {
            let flag = std::sync::Arc::new(std::sync::atomic::AtomicBool::new(false));
            let mut r = bgzf::r#async::io::Reader::new(Flaky { inner: Cursor::new(d.clone()), fail_seek: flag.clone() });
            flag.store(true, std::sync::atomic::Ordering::SeqCst);
            let s1 = std::future::poll_fn(|cx| Pin::new(&mut &mut r).poll_seek(cx, bgzf::VirtualPosition::MIN)).await.map_err(|e| e.to_string());
            println!("  first poll_seek: {s1:?}");
            flag.store(false, std::sync::atomic::Ordering::SeqCst);
            let s2 = std::future::poll_fn(|cx| Pin::new(&mut &mut r).poll_seek(cx, bgzf::VirtualPosition::MIN)).await.map_err(|e| e.to_string());
            println!("  second poll_seek: {s2:?}");
            let mut v = Vec::new();
            let rd = r.read_to_end(&mut v).await.map_err(|e| e.to_string());
            (s1, s2, rd, v.len())
        })
    });
    guard("async poll_seek beyond block", || {
        rt.block_on(async {
            let mut r = bgzf::r#async::io::Reader::new(Cursor::new(d.clone()));
            let s1 = std::future::poll_fn(|cx| Pin::new(&mut &mut r).poll_seek(cx, beyond)).await.map_err(|e| e.to_string());
            let vp = std::panic::catch_unwind(std::panic::AssertUnwindSafe(|| r.virtual_position())).map_err(|_| "PANIC in virtual_position");
            let mut v = Vec::new();
            let rd = r.read_to_end(&mut v).await.map_err(|e| e.to_string());
            (s1, vp, rd, v.len())
        })
    });
}
