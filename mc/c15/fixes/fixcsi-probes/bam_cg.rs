// (a) lazy bam::Record::cigar() with kSmN sentinel + CG:B of a non-u32 subtype whose byte length is not a multiple of 4
use std::io::Read;
use noodles_bam as bam;
use noodles_bgzf as bgzf;
use noodles_sam::{self as sam, alignment::{RecordBuf, io::Write as _, record::cigar::{Op, op::Kind}, record::data::field::Tag, record_buf::data::field::{Value, value::Array}}};

fn main() {
    let header = sam::Header::default();
    let rec = RecordBuf::builder()
        .set_cigar([Op::new(Kind::SoftClip, 4), Op::new(Kind::Skip, 10)].into_iter().collect())
        .set_sequence(b"ACGT".to_vec().into())
        .set_data([(Tag::new(b'X', b'G'), Value::Array(Array::Int8(vec![1, 2, 3])))].into_iter().collect())
        .build();
    let mut w = bam::io::Writer::new(Vec::new());
    w.write_header(&header).unwrap();
    w.write_alignment_record(&header, &rec).unwrap();
    w.try_finish().unwrap();
    let z = w.into_inner().into_inner();
    let mut raw = Vec::new();
    bgzf::io::Reader::new(&z[..]).read_to_end(&mut raw).unwrap();
    let at = raw.windows(4).position(|w| w == b"XGBc").expect("tag");
    raw[at] = b'C';

    let mut r = bam::io::Reader::from(&raw[..]);
    r.read_header().unwrap();
    let mut lazy = bam::Record::default();
    let n = r.read_record(&mut lazy).map_err(|e| e.to_string());
    println!("read_record: {n:?}");
    let res = std::panic::catch_unwind(|| {
        let c = lazy.cigar();
        let ops: Vec<_> = c.iter().map(|r| r.map_err(|e| e.to_string())).collect();
        (c.len(), ops)
    });
    match res { Ok(v) => println!("lazy cigar: {v:?}"), Err(_) => println!("lazy cigar: PANIC") }

    let mut r = bam::io::Reader::from(&raw[..]);
    r.read_header().unwrap();
    let mut eager = RecordBuf::default();
    println!("read_record_buf: {:?}", r.read_record_buf(&header, &mut eager).map_err(|e| e.to_string()));
}
