//! Nesting-depth family: inputs in which a construct contains itself, nested to a chosen depth.
//!
//! The only constructs of the formats noodles reads that can contain themselves are the STRIPE streams of the
//! CRAM 3.1 rANS Nx16 and adaptive arithmetic coders (a stripe chunk is again a complete stream, possibly a
//! stripe). They are reached (a) directly, (b) through the name tokenizer, whose token byte streams are rANS Nx16 /
//! AAC streams, and (c) through a CRAM file: any block may name method 5 / 6 (`Block::decode`).
//! Two text probes (VCF header value with nested `<..>`, a GFF3 `Parent` chain) confirm dynamically that the text
//! parsers treat such input as flat; they are judged on survival only.
//! (Everything else is flat: BGZF members, BAM/BCF records and typed values, CSI/tabix bins — loops over a depth
//! number —, SAM/VCF headers, GFF attributes — `Parent` is not resolved —, CRAM encodings — ByteArrayLen holds an
//! Integer and a Byte encoding, which cannot hold a ByteArrayLen —, fqzcomp, rANS 4x8.)
//!
//! A case = (entry, leaf stream kind, depth, thread stack size). The decoder runs on a thread created with the
//! stated stack size: 8 MiB (the size of the main thread under the default `ulimit -s` and of the pool's worker
//! threads) and 2 MiB (the default of `std::thread::spawn`, hence of most thread pools). Oracle: depth <= 3 must
//! decode to the payload; at any depth `Ok` must equal the payload; deeper inputs may give `Err`; the process
//! must survive (a stack overflow kills the worker: classified by the pool as `outcome=abort cause=stack-overflow`).

use noodles_cram::verif as cv;
use vnd::{Api, Doc, Format, Opts, mutate, walk};

pub const PAYLOAD: &[u8] = b"nested stripes: 0123456789 ACGTACGTNN !!";
pub const NAMES: &[u8] = b"read.1:100\0read.1:101\0read.2:7\0";

pub const STACKS: [usize; 2] = [8 << 20, 2 << 20];

#[derive(Clone, Copy, Debug, PartialEq, Eq, Hash)]
pub enum Entry {
    RansNx16,
    Aac,
    TokRans,
    TokAac,
    CramRans,
    CramAac,
    /// Text probes (crash-only: the syntax has no nesting, the parsers must treat the run as flat text).
    VcfHeaderAngles,
    GffParentChain,
    /// BCF typed-value descriptors whose length (the `15` form: "a typed integer follows") is itself given by a
    /// typed value in the `15` form, nested: the ID string of a site block / the per-sample type of a FORMAT
    /// field, read with the lazy (`read_record` + accessors) and the eager (`read_record_buf`) reader.
    BcfLazyId,
    BcfEagerId,
    BcfLazyFormat,
    BcfEagerFormat,
}

impl Entry {
    pub const ALL: [Entry; 12] = [
        Entry::RansNx16,
        Entry::Aac,
        Entry::TokRans,
        Entry::TokAac,
        Entry::CramRans,
        Entry::CramAac,
        Entry::VcfHeaderAngles,
        Entry::GffParentChain,
        Entry::BcfLazyId,
        Entry::BcfEagerId,
        Entry::BcfLazyFormat,
        Entry::BcfEagerFormat,
    ];
    pub fn is_bcf(self) -> bool {
        matches!(self, Entry::BcfLazyId | Entry::BcfEagerId | Entry::BcfLazyFormat | Entry::BcfEagerFormat)
    }
    /// Entries that exist for one leaf kind only.
    pub fn single_leaf(self) -> bool {
        !self.has_payload() || self.is_bcf()
    }
    fn bcf_api(self) -> Api {
        if matches!(self, Entry::BcfLazyId | Entry::BcfLazyFormat) { Api::Lazy } else { Api::Eager }
    }
    /// Deepest nesting that must decode to the payload (deeper inputs may be rejected). BCF: the length that
    /// follows a 15-form descriptor is a typed scalar integer, so only the plain form (depth 1) has to decode.
    pub fn must_decode_depth(self) -> usize {
        if self.is_bcf() { 1 } else { 3 }
    }
    /// Entries whose result is compared with a payload (the others are judged on survival only).
    pub fn has_payload(self) -> bool {
        !matches!(self, Entry::VcfHeaderAngles | Entry::GffParentChain)
    }
    pub fn name(self) -> &'static str {
        match self {
            Entry::RansNx16 => "rans_nx16",
            Entry::Aac => "aac",
            Entry::TokRans => "name_tokenizer(rans_nx16)",
            Entry::TokAac => "name_tokenizer(aac)",
            Entry::CramRans => "cram-file(rans_nx16)",
            Entry::CramAac => "cram-file(aac)",
            Entry::VcfHeaderAngles => "vcf-header-angles",
            Entry::GffParentChain => "gff-parent-chain",
            Entry::BcfLazyId => "bcf-lazy(id)",
            Entry::BcfEagerId => "bcf-eager(id)",
            Entry::BcfLazyFormat => "bcf-lazy(format)",
            Entry::BcfEagerFormat => "bcf-eager(format)",
        }
    }
    pub fn parse(s: &str) -> Option<Entry> {
        Entry::ALL.iter().copied().find(|e| e.name() == s)
    }
    fn is_aac(self) -> bool {
        matches!(self, Entry::Aac | Entry::TokAac | Entry::CramAac)
    }
    /// Fingerprint words (format, entry, shape).
    pub fn fp(self) -> &'static str {
        match self {
            Entry::RansNx16 => "format=cram-codec entry=rans_nx16_decode shape=nested-stripe",
            Entry::Aac => "format=cram-codec entry=aac_decode shape=nested-stripe",
            Entry::TokRans => "format=cram-codec entry=name_tokenizer_decode shape=nested-stripe-in-token-stream(rans_nx16)",
            Entry::TokAac => "format=cram-codec entry=name_tokenizer_decode shape=nested-stripe-in-token-stream(aac)",
            Entry::CramRans => "format=cram entry=Eager shape=nested-stripe-in-block(rans_nx16)",
            Entry::CramAac => "format=cram entry=Eager shape=nested-stripe-in-block(aac)",
            Entry::VcfHeaderAngles => "format=vcf entry=Eager shape=nested-angle-brackets-in-header",
            Entry::GffParentChain => "format=gff entry=Eager shape=parent-chain",
            Entry::BcfLazyId => "format=bcf entry=Lazy shape=nested-typed-length(id)",
            Entry::BcfEagerId => "format=bcf entry=Eager shape=nested-typed-length(id)",
            Entry::BcfLazyFormat => "format=bcf entry=Lazy shape=nested-typed-length(format)",
            Entry::BcfEagerFormat => "format=bcf entry=Eager shape=nested-typed-length(format)",
        }
    }
}

#[derive(Clone, Copy, Debug, PartialEq, Eq, Hash)]
pub enum Leaf {
    /// CAT | NO_SIZE: the bytes themselves.
    Cat,
    /// The order-0 stream the noodles encoder produces (carries its own size).
    Order0,
    /// The encoder's order-0 stream of `ZEROS` zero bytes (about 30 bytes) instead of the payload: every stripe
    /// level transposes the whole output, so the decoding time is depth x output size.
    Zeros,
}

/// Output size of the `Leaf::Zeros` cases.
pub const ZEROS: usize = 16 << 20;

impl Leaf {
    pub fn name(self) -> &'static str {
        match self {
            Leaf::Cat => "cat",
            Leaf::Order0 => "order0",
            Leaf::Zeros => "zeros",
        }
    }
    pub fn parse(s: &str) -> Leaf {
        match s {
            "order0" => Leaf::Order0,
            "zeros" => Leaf::Zeros,
            _ => Leaf::Cat,
        }
    }
}

#[derive(Clone, Copy, Debug, PartialEq, Eq, Hash)]
pub struct NestCase {
    pub entry: Entry,
    pub leaf: Leaf,
    pub depth: usize,
    pub stack: usize,
}

impl NestCase {
    /// Fingerprint words (format, entry, shape).
    pub fn fp(&self) -> String {
        if self.leaf == Leaf::Zeros { format!("{}-amplified", self.entry.fp()) } else { self.entry.fp().to_string() }
    }
}

pub fn depths(thorough: bool) -> Vec<usize> {
    if thorough {
        vec![1, 2, 3, 10, 100, 1_000, 1_500, 2_000, 3_000, 5_000, 7_000, 10_000, 20_000, 50_000, 100_000]
    } else {
        vec![1, 2, 3, 10, 100, 1_000, 2_000, 5_000, 10_000, 100_000]
    }
}

fn uint7(mut n: usize) -> Vec<u8> {
    let mut out = vec![(n & 0x7f) as u8];
    n >>= 7;
    while n > 0 {
        out.push((n & 0x7f) as u8 | 0x80);
        n >>= 7;
    }
    out.reverse();
    out
}

fn read_uint7(b: &[u8]) -> Option<(usize, usize)> {
    let mut v = 0usize;
    for (i, &x) in b.iter().enumerate().take(5) {
        v = (v << 7) | (x & 0x7f) as usize;
        if x & 0x80 == 0 {
            return Some((v, i + 1));
        }
    }
    None
}

/// `depth` (>= 1) one-chunk stripes around a leaf stream that decodes to `raw`. The outermost stripe carries the
/// uncompressed size (`08 <ulen> 01 <clen>`), the inner ones do not (`18 01 <clen>`); the byte layout is the same
/// for the rANS Nx16 and the adaptive arithmetic coder. Linear time and space.
pub fn nested(aac: bool, leaf: Leaf, raw: &[u8], depth: usize) -> Option<Vec<u8>> {
    let leaf_stream = match leaf {
        Leaf::Cat => {
            let mut v = vec![0x30];
            v.extend_from_slice(raw);
            v
        }
        Leaf::Order0 | Leaf::Zeros => {
            if aac {
                cv::aac_encode(cv::AacFlags::empty(), raw).ok()?
            } else {
                cv::rans_nx16_encode(cv::RansNx16Flags::empty(), raw).ok()?
            }
        }
    };
    let mut headers: Vec<Vec<u8>> = Vec::with_capacity(depth);
    let mut len = leaf_stream.len();
    for _ in 1..depth {
        let mut h = vec![0x18, 0x01];
        h.extend(uint7(len));
        len += h.len();
        headers.push(h);
    }
    let mut out = vec![0x08];
    out.extend(uint7(raw.len()));
    out.push(0x01);
    out.extend(uint7(len));
    out.reserve(len);
    for h in headers.iter().rev() {
        out.extend_from_slice(h);
    }
    out.extend_from_slice(&leaf_stream);
    Some(out)
}

/// The name-tokenizer stream of `NAMES` with its first non-empty token byte stream replaced by nested stripes
/// (`aac`: every stream re-coded as an AAC CAT stream and the header's coder byte set).
pub fn tokenizer_nested(aac: bool, leaf: Leaf, depth: usize) -> Option<Vec<u8>> {
    let enc = cv::name_tokenizer_encode(NAMES).ok()?;
    if enc.len() < 9 || enc[8] != 0 {
        return None;
    }
    let mut out = enc[..8].to_vec();
    out.push(aac as u8);
    let mut p = 9;
    let mut first = true;
    while p < enc.len() {
        let ttype = enc[p];
        out.push(ttype);
        p += 1;
        if ttype & 0x40 != 0 {
            out.extend_from_slice(enc.get(p..p + 2)?);
            p += 2;
            continue;
        }
        let (clen, n) = read_uint7(enc.get(p..)?)?;
        p += n;
        let data = enc.get(p..p + clen)?;
        p += clen;
        let raw = cv::rans_nx16_decode(data, 0).ok()?;
        let new = if first && !raw.is_empty() {
            first = false;
            nested(aac, leaf, &raw, depth)?
        } else if aac {
            let mut v = vec![0x20];
            v.extend(uint7(raw.len()));
            v.extend_from_slice(&raw);
            v
        } else {
            data.to_vec()
        };
        out.extend(uint7(new.len()));
        out.extend(new);
    }
    if first { None } else { Some(out) }
}

/// The block of a CRAM document that the file-level cases re-code.
pub struct CramTarget {
    pub doc: Doc,
    container_start: usize,
    block_start: usize,
    block_end: usize,
    content_type: u8,
    content_id: Vec<u8>,
    raw: Vec<u8>,
    /// Log of the unmodified document (eager reader).
    pub expected: Vec<String>,
    pub what: String,
}

fn cram_opts(doc: &Doc) -> Opts {
    let mut o = Opts::for_doc(doc).api(Api::Eager);
    o.vpos = false;
    o
}

impl CramTarget {
    /// The largest external block (content type 4) of the first data container whose content can be recovered.
    pub fn find(docs: &[Doc]) -> Option<CramTarget> {
        let doc = docs.iter().find(|d| d.format == Format::Cram && d.name == "cram-mapped-rps3").or_else(|| docs.iter().find(|d| d.format == Format::Cram))?;
        let b = &doc.bytes;
        let (_, cs) = walk::cram(b);
        let c = cs.iter().skip(1).find(|c| !c.is_eof && c.n_records > 0)?;
        let mut best: Option<CramTarget> = None;
        // skip the compression header and the slice header: the blocks after them do not move a landmark
        for blk in c.blocks.iter().filter(|x| x.content_type == 4) {
            let mut p = blk.start + 2;
            let (_, n) = walk::itf8(b, p)?;
            let content_id = b[p..p + n].to_vec();
            p += n;
            let (_, n) = walk::itf8(b, p)?;
            p += n;
            let (usize_, _) = walk::itf8(b, p)?;
            let data = &b[blk.data..blk.crc];
            let raw = match blk.method {
                0 => data.to_vec(),
                1 => {
                    let mut dst = vec![0u8; usize_ as usize];
                    if cv::gzip_decode(data, &mut dst).is_err() {
                        continue;
                    }
                    dst
                }
                4 => match cv::rans_4x8_decode(data) {
                    Ok(v) => v,
                    Err(_) => continue,
                },
                _ => continue,
            };
            if raw.is_empty() || raw.len() != usize_ as usize {
                continue;
            }
            if best.as_ref().map(|t| t.raw.len() < raw.len()).unwrap_or(true) {
                best = Some(CramTarget {
                    doc: doc.clone(),
                    container_start: c.start,
                    block_start: blk.start,
                    block_end: blk.crc + 4,
                    content_type: blk.content_type,
                    content_id,
                    what: format!("external block at {} (method {}, {} bytes raw) of the first data container of {}", blk.start, blk.method, raw.len(), doc.name),
                    raw,
                    expected: Vec::new(),
                });
            }
        }
        let mut t = best?;
        t.expected = vnd::read_log(Format::Cram, &t.doc.bytes[..], &cram_opts(&t.doc));
        Some(t)
    }

    /// The document with the target block re-coded as `depth` nested stripes (method 5 / 6), container length and
    /// CRC32s re-sealed.
    pub fn build(&self, aac: bool, leaf: Leaf, depth: usize) -> Option<Vec<u8>> {
        let data = nested(aac, leaf, &self.raw, depth)?;
        let b = &self.doc.bytes;
        let mut blk = vec![if aac { 6 } else { 5 }, self.content_type];
        blk.extend_from_slice(&self.content_id);
        blk.extend(walk::itf8_encode(data.len() as i32));
        blk.extend(walk::itf8_encode(self.raw.len() as i32));
        blk.extend_from_slice(&data);
        blk.extend_from_slice(&[0; 4]);
        let mut out = Vec::with_capacity(b.len() + blk.len());
        out.extend_from_slice(&b[..self.block_start]);
        out.extend_from_slice(&blk);
        out.extend_from_slice(&b[self.block_end..]);
        let old = walk::le_i32(b, self.container_start)?;
        let new = old + blk.len() as i64 - (self.block_end - self.block_start) as i64;
        out[self.container_start..self.container_start + 4].copy_from_slice(&(new as i32).to_le_bytes());
        mutate::reseal_cram(&mut out);
        Some(out)
    }
}

/// A typed-value descriptor of a BCF document that the BCF cases re-code.
pub struct BcfTarget {
    pub doc: Doc,
    /// Start of the record in the uncompressed stream.
    record: usize,
    /// Offset of the descriptor byte in the uncompressed stream; its type code and length.
    desc: usize,
    ty: u8,
    len: u8,
    /// true: the descriptor is in the site block (l_shared grows), false: in the genotype block (l_indiv).
    shared: bool,
    pub expected_lazy: Vec<String>,
    pub expected_eager: Vec<String>,
    pub what: String,
}

fn bcf_opts(doc: &Doc, api: Api, len: usize) -> Opts {
    let mut o = Opts::for_doc(doc).api(api);
    o.input_len = o.input_len.max(len);
    o.vpos = false;
    o
}

/// Log lines without the record size and the Debug rendering (both change with the descriptor's encoding).
fn bcf_norm(log: Vec<String>) -> Vec<String> {
    log.into_iter()
        .map(|l| {
            let l = match l.find(" debug=") {
                Some(p) => l[..p].to_string(),
                None => l,
            };
            match l.split_once("]: n=") {
                Some((a, b)) => format!("{a}]: {}", b.split_once(' ').map(|x| x.1).unwrap_or("")),
                None => l,
            }
        })
        .collect()
}

impl BcfTarget {
    /// `format`: the per-sample type descriptor of the first FORMAT field of the first record with samples;
    /// otherwise the ID descriptor of the first record with a non-empty ID.
    pub fn find(docs: &[Doc], format: bool) -> Option<BcfTarget> {
        let name = if format { "bcf-two-samples-f1" } else { "bcf-sites-f2" };
        let doc = docs.iter().find(|d| d.name == name)?;
        let inner = doc.inner.as_ref()?;
        let b = &inner.bytes;
        let mut start = inner.header_end;
        for &end in inner.record_ends.iter() {
            let l_shared = walk::le_u32(b, start)?;
            let l_indiv = walk::le_u32(b, start + 4)?;
            let desc = if format {
                if l_indiv == 0 {
                    start = end;
                    continue;
                }
                // FORMAT key: a typed integer
                let q = start + 8 + l_shared;
                let kt = *b.get(q)?;
                let ksize = match kt & 0x0f {
                    1 => 1,
                    2 => 2,
                    3 => 4,
                    _ => return None,
                };
                q + 1 + ksize * (kt >> 4) as usize
            } else {
                start + 8 + 24
            };
            let d = *b.get(desc)?;
            let (len, ty) = (d >> 4, d & 0x0f);
            if len == 0 || len == 15 || desc >= end {
                start = end;
                continue;
            }
            let mut t = BcfTarget {
                doc: doc.clone(),
                record: start,
                desc,
                ty,
                len,
                shared: !format,
                expected_lazy: Vec::new(),
                expected_eager: Vec::new(),
                what: format!("{} descriptor {d:#04x} at uncompressed offset {desc} (record at {start}) of {}", if format { "per-sample type" } else { "ID" }, doc.name),
            };
            t.expected_lazy = bcf_norm(vnd::read_log(Format::Bcf, &doc.bytes[..], &bcf_opts(doc, Api::Lazy, 0)));
            t.expected_eager = bcf_norm(vnd::read_log(Format::Bcf, &doc.bytes[..], &bcf_opts(doc, Api::Eager, 0)));
            return Some(t);
        }
        None
    }

    /// The document with the descriptor re-coded: `f<ty>` (length in the 15 form), whose length value is a typed
    /// Int8 that is again in the 15 form, `depth` levels in all:
    /// `f<ty>, f1 x (depth-1), 11, 01 x (depth-1), <len>`; l_shared / l_indiv adjusted; one BGZF member per 65 280 bytes.
    pub fn build(&self, depth: usize) -> Option<Vec<u8>> {
        let b = &self.doc.inner.as_ref()?.bytes;
        let mut new = Vec::with_capacity(2 * depth + 2);
        new.push(0xf0 | self.ty);
        new.extend(std::iter::repeat(0xf1).take(depth - 1));
        new.push(0x11);
        new.extend(std::iter::repeat(0x01).take(depth - 1));
        new.push(self.len);
        let mut inner = Vec::with_capacity(b.len() + new.len());
        inner.extend_from_slice(&b[..self.desc]);
        inner.extend_from_slice(&new);
        inner.extend_from_slice(&b[self.desc + 1..]);
        let at = if self.shared { self.record } else { self.record + 4 };
        let l = walk::le_u32(b, at)? + new.len() - 1;
        inner[at..at + 4].copy_from_slice(&(l as u32).to_le_bytes());
        let mut out = Vec::new();
        for c in inner.chunks(65280) {
            out.extend(vmc::oracle::bgzf::make_block(c, 1));
        }
        out.extend_from_slice(&vmc::oracle::bgzf::EOF);
        Some(out)
    }
}

/// The documents the file-level cases are derived from.
pub struct Targets {
    pub cram: Option<CramTarget>,
    pub bcf_id: Option<BcfTarget>,
    pub bcf_format: Option<BcfTarget>,
}

impl Targets {
    pub fn find(docs: &[Doc]) -> Targets {
        Targets { cram: CramTarget::find(docs), bcf_id: BcfTarget::find(docs, false), bcf_format: BcfTarget::find(docs, true) }
    }
    fn bcf(&self, e: Entry) -> Option<&BcfTarget> {
        if matches!(e, Entry::BcfLazyId | Entry::BcfEagerId) { self.bcf_id.as_ref() } else { self.bcf_format.as_ref() }
    }
}

/// Input bytes of a case.
pub fn input(c: &NestCase, targets: &Targets) -> Option<Vec<u8>> {
    let target = targets.cram.as_ref();
    if c.entry.is_bcf() {
        return if c.leaf == Leaf::Cat { targets.bcf(c.entry)?.build(c.depth) } else { None };
    }
    match c.entry {
        Entry::RansNx16 | Entry::Aac if c.leaf == Leaf::Zeros => nested(c.entry.is_aac(), c.leaf, &vec![0u8; ZEROS], c.depth),
        Entry::RansNx16 | Entry::Aac => nested(c.entry.is_aac(), c.leaf, PAYLOAD, c.depth),
        _ if c.leaf == Leaf::Zeros => None,
        Entry::TokRans | Entry::TokAac => tokenizer_nested(c.entry.is_aac(), c.leaf, c.depth),
        Entry::CramRans | Entry::CramAac => target?.build(c.entry.is_aac(), c.leaf, c.depth),
        Entry::VcfHeaderAngles => {
            if c.leaf != Leaf::Cat {
                return None;
            }
            let mut t = b"##fileformat=VCFv4.3\n##nest=<ID=a".to_vec();
            for i in 0..c.depth {
                t.extend_from_slice(format!(",K{i}=<ID=b").as_bytes());
            }
            t.extend(std::iter::repeat(b'>').take(c.depth));
            t.extend_from_slice(b"\n#CHROM\tPOS\tID\tREF\tALT\tQUAL\tFILTER\tINFO\nsq0\t1\t.\tA\t.\t.\t.\t.\n");
            Some(t)
        }
        Entry::GffParentChain => {
            // one feature per level, each the child of the previous one (10 000 levels at most: ~0.5 MB)
            if c.leaf != Leaf::Cat || c.depth > 10_000 {
                return None;
            }
            let mut t = b"##gff-version 3\n".to_vec();
            for i in 0..c.depth {
                t.extend_from_slice(format!("sq0\t.\tgene\t1\t10\t.\t+\t.\tID=f{};Parent=f{}\n", i + 1, i).as_bytes());
            }
            Some(t)
        }
        Entry::BcfLazyId | Entry::BcfEagerId | Entry::BcfLazyFormat | Entry::BcfEagerFormat => None,
    }
}

pub enum Out {
    /// Decoded to the expected result.
    Ok,
    /// io::Error (message).
    Err(String),
    /// Ok, but not the expected result.
    Wrong(String),
    Panic(String, String),
    /// The generator could not build the input (an encoder failed).
    NoInput,
}

fn decode(c: &NestCase, targets: &Targets, bytes: &[u8]) -> Out {
    let target = targets.cram.as_ref();
    if c.entry.is_bcf() {
        let Some(t) = targets.bcf(c.entry) else { return Out::NoInput };
        let api = c.entry.bcf_api();
        let log = bcf_norm(vnd::read_log(Format::Bcf, bytes, &bcf_opts(&t.doc, api, bytes.len())));
        let expected = if api == Api::Lazy { &t.expected_lazy } else { &t.expected_eager };
        return if &log == expected {
            Out::Ok
        } else if log.last().map(|l| vnd::is_end_eof(l)).unwrap_or(false) {
            let i = log.iter().zip(expected.iter()).position(|(a, b)| a != b).unwrap_or(log.len().min(expected.len()));
            // lazy reader: the record is returned and the accessor of the re-coded field reports the error
            if api == Api::Lazy {
                if let (Some(a), Some(b)) = (log.get(i), expected.get(i)) {
                    if a.contains("Err(kind=") && !b.contains("Err(kind=") {
                        return Out::Err(a.chars().take(200).collect());
                    }
                }
            }
            Out::Wrong(format!("log differs at item {i}: {}", log.get(i).map(|s| s.chars().take(200).collect::<String>()).unwrap_or_else(|| "<missing>".into())))
        } else {
            Out::Err(log.last().cloned().unwrap_or_default())
        };
    }
    let cmp = |r: std::io::Result<Vec<u8>>, expected: &[u8]| match r {
        Ok(v) if v == expected => Out::Ok,
        Ok(v) => Out::Wrong(format!("Ok({} bytes: {})", v.len(), vmc::hex(&v[..v.len().min(64)]))),
        Err(e) => Out::Err(e.to_string()),
    };
    let zeros;
    let payload: &[u8] = if c.leaf == Leaf::Zeros {
        zeros = vec![0u8; ZEROS];
        &zeros
    } else {
        PAYLOAD
    };
    match c.entry {
        Entry::RansNx16 => cmp(cv::rans_nx16_decode(bytes, payload.len()), payload),
        Entry::Aac => cmp(cv::aac_decode(bytes, payload.len()), payload),
        Entry::TokRans | Entry::TokAac => cmp(cv::name_tokenizer_decode(bytes), NAMES),
        Entry::VcfHeaderAngles | Entry::GffParentChain => {
            let format = if c.entry == Entry::VcfHeaderAngles { Format::Vcf } else { Format::Gff };
            let log = vnd::read_log(format, bytes, &Opts::new(bytes.len()).api(Api::Eager));
            match log.last() {
                Some(l) if vnd::is_end_eof(l) => Out::Ok,
                Some(l) if l.contains(vnd::NONTERM) => Out::Wrong(l.chars().take(200).collect()),
                other => Out::Err(other.cloned().unwrap_or_default()),
            }
        }
        Entry::BcfLazyId | Entry::BcfEagerId | Entry::BcfLazyFormat | Entry::BcfEagerFormat => Out::NoInput,
        Entry::CramRans | Entry::CramAac => {
            let Some(t) = target else { return Out::NoInput };
            let log = vnd::read_log(Format::Cram, bytes, &cram_opts(&t.doc));
            if log == t.expected {
                Out::Ok
            } else if log.last().map(|l| vnd::is_end_eof(l)).unwrap_or(false) {
                let i = log.iter().zip(t.expected.iter()).position(|(a, b)| a != b).unwrap_or(log.len().min(t.expected.len()));
                Out::Wrong(format!("log differs at item {i}: {}", log.get(i).map(|s| s.chars().take(200).collect::<String>()).unwrap_or_else(|| "<missing>".into())))
            } else {
                Out::Err(log.last().cloned().unwrap_or_default())
            }
        }
    }
}

/// Bytes between the current stack pointer and the low end of this thread's stack.
fn stack_available() -> Option<usize> {
    unsafe {
        let mut attr: libc::pthread_attr_t = std::mem::zeroed();
        if libc::pthread_getattr_np(libc::pthread_self(), &mut attr) != 0 {
            return None;
        }
        let mut addr: *mut libc::c_void = std::ptr::null_mut();
        let mut size: libc::size_t = 0;
        let r = libc::pthread_attr_getstack(&attr, &mut addr, &mut size);
        libc::pthread_attr_destroy(&mut attr);
        if r != 0 {
            return None;
        }
        let sp = &attr as *const libc::pthread_attr_t as usize;
        Some(sp.saturating_sub(addr as usize))
    }
}

/// Runs `f` after moving the stack pointer down by `excess` bytes. (glibc hands a cached, larger stack of an
/// exited thread to a thread that asks for a smaller one: the excess is given back here so that the stated stack
/// size is the one the decoder really has.)
#[inline(never)]
fn with_stack_excess_used<T>(excess: usize, f: &mut dyn FnMut() -> T) -> T {
    const STEP: usize = 16 << 10;
    if excess >= STEP {
        let mut pad = [0u8; STEP];
        std::hint::black_box(&mut pad);
        let r = with_stack_excess_used(excess - STEP, f);
        std::hint::black_box(&mut pad);
        r
    } else {
        f()
    }
}

/// Builds the input and decodes it on a fresh thread with the case's stack size. `arm` arms the allocation guard
/// of that thread.
pub fn run(c: &NestCase, target: &Targets, arm: impl Fn() + Sync) -> Out {
    let Some(bytes) = input(c, target) else { return Out::NoInput };
    let bytes = &bytes;
    let arm = &arm;
    std::thread::scope(|s| {
        let h = std::thread::Builder::new().name(format!("nest-stack-{}MiB", c.stack >> 20)).stack_size(c.stack).spawn_scoped(s, move || {
            arm();
            let excess = stack_available().map(|a| a.saturating_sub(c.stack)).unwrap_or(0);
            with_stack_excess_used(excess, &mut || match vmc::catch(|| decode(c, target, bytes)) {
                Ok(o) => o,
                Err((msg, file)) => Out::Panic(msg, file),
            })
        });
        match h {
            Ok(h) => h.join().unwrap_or_else(|_| Out::Panic("the decoding thread panicked outside catch".into(), String::new())),
            Err(e) => Out::Panic(format!("cannot spawn a thread: {e}"), String::new()),
        }
    })
}

pub fn describe(c: &NestCase, targets: &Targets) -> (String, String) {
    let bytes = input(c, targets);
    let target = targets.cram.as_ref();
    if c.entry.is_bcf() {
        let n = bytes.as_ref().map(|b| b.len()).unwrap_or(0);
        let t = targets.bcf(c.entry);
        let decoded = format!(
            "bcf::io::Reader ({}) over the document with the {} re-coded as f<ty>, f1 x {}, 11, 01 x {}, <len> (the length of a typed value in the 15 form is a typed value, itself in the 15 form, {} levels; {} bytes of uncompressed stream), l_shared / l_indiv adjusted, re-compressed: {n} bytes; read on a thread with a {} MiB stack (generator: mc/c15/src/nest.rs, `cargo run -p c15 --example nest -- '{}' cat {} [stack MiB]`)",
            if c.entry.bcf_api() == Api::Lazy { "read_record + every accessor" } else { "read_record_buf" },
            t.map(|t| t.what.as_str()).unwrap_or("?"),
            c.depth - 1,
            c.depth - 1,
            c.depth,
            2 * c.depth + 1,
            c.stack >> 20,
            c.entry.name(),
            c.depth
        );
        let mut payload = vmc::json!({"kind": "nest", "entry": c.entry.name(), "leaf": c.leaf.name(), "depth": c.depth, "stack": c.stack, "input_len": n});
        if let Some(b) = &bytes {
            if b.len() <= 4096 {
                payload["input_hex"] = vmc::json!(b.iter().map(|x| format!("{x:02x}")).collect::<String>());
            }
        }
        return (decoded, payload.to_string());
    }
    let n = bytes.as_ref().map(|b| b.len()).unwrap_or(0);
    if !c.entry.has_payload() {
        let head = bytes.as_ref().map(|b| String::from_utf8_lossy(&b[..b.len().min(120)]).replace('\n', "\\n").replace('\t', "\\t")).unwrap_or_default();
        let decoded = format!(
            "{} text with {} levels ({}), read with the eager reader (vnd::read_log) on a thread with a {} MiB stack; input = {n} bytes starting {head} (generator: mc/c15/src/nest.rs, `cargo run -p c15 --example nest -- {} cat {} [stack MiB]`)",
            if c.entry == Entry::VcfHeaderAngles { "VCF" } else { "GFF3" },
            c.depth,
            if c.entry == Entry::VcfHeaderAngles { "header line ##nest=<ID=a followed by `,K<i>=<ID=b` per level, then `>` per level" } else { "one feature per level, Parent = the previous feature" },
            c.stack >> 20,
            c.entry.name(),
            c.depth
        );
        let payload = vmc::json!({"kind": "nest", "entry": c.entry.name(), "leaf": c.leaf.name(), "depth": c.depth, "stack": c.stack, "input_len": n});
        return (decoded, payload.to_string());
    }
    let call = match c.entry {
        Entry::RansNx16 => format!("noodles_cram::verif::rans_nx16_decode(input, {})", if c.leaf == Leaf::Zeros { ZEROS } else { PAYLOAD.len() }),
        Entry::Aac => format!("noodles_cram::verif::aac_decode(input, {})", if c.leaf == Leaf::Zeros { ZEROS } else { PAYLOAD.len() }),
        Entry::TokRans | Entry::TokAac => format!("noodles_cram::verif::name_tokenizer_decode(input), input = the encoder's stream for {:?} with its first non-empty token byte stream re-coded{}", String::from_utf8_lossy(NAMES), if c.entry.is_aac() { " (all streams as AAC CAT, coder byte 1)" } else { "" }),
        Entry::VcfHeaderAngles | Entry::GffParentChain | Entry::BcfLazyId | Entry::BcfEagerId | Entry::BcfLazyFormat | Entry::BcfEagerFormat => String::new(),
        Entry::CramRans | Entry::CramAac => format!("cram::io::Reader (eager records) over the document with the {} re-coded with block method {}", target.map(|t| t.what.as_str()).unwrap_or("?"), if c.entry.is_aac() { 6 } else { 5 }),
    };
    let head = bytes.as_ref().map(|b| vmc::hex(&b[..b.len().min(48)])).unwrap_or_default();
    let decoded = format!(
        "{call}; the stream is {} one-chunk STRIPE levels (08 <ulen> 01 <clen>, then {} x [18 01 <clen>]) around a {} leaf ({}); input = {n} bytes starting {head}; decoded on a thread with a {} MiB stack (generator: mc/c15/src/nest.rs, `cargo run -p c15 --example nest -- {} {} {} [stack MiB]`)",
        c.depth,
        c.depth - 1,
        c.leaf.name(),
        match c.leaf {
            Leaf::Cat => "30 <bytes>",
            Leaf::Order0 => "the noodles encoder's order-0 stream",
            Leaf::Zeros => "the noodles encoder's order-0 stream of 16 MiB of zero bytes",
        },
        c.stack >> 20,
        c.entry.name(),
        c.leaf.name(),
        c.depth
    );
    let mut payload = vmc::json!({"kind": "nest", "entry": c.entry.name(), "leaf": c.leaf.name(), "depth": c.depth, "stack": c.stack, "input_len": n});
    if let Some(b) = &bytes {
        if b.len() <= 4096 {
            payload["input_hex"] = vmc::json!(b.iter().map(|x| format!("{x:02x}")).collect::<String>());
        }
    }
    (decoded, payload.to_string())
}
