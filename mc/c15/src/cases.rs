//! Case tables (built before the workers are forked) and executors for C15.

use std::{
    hash::{Hash, Hasher},
    io,
    sync::Arc,
};

use noodles_cram::verif as cv;
use vnd::{Api, Doc, Enc, Field, Format, Opts, mutate};

use crate::nest::{self, NestCase};
use crate::pool::{Finding, Stages, Verdict};

#[derive(Clone, Copy, Debug, PartialEq, Eq, Hash)]
pub enum Mode {
    Read(Api),
    /// Index documents: parse the (mutated) index, then `query` / `query_unmapped` the valid data file with it.
    Query,
    /// Data documents that have an index: region queries of the (mutated) data with the valid index.
    QueryData,
    /// The format's ASYNC reader (vnd::adrive: one API per format) over the mutated bytes.
    Async,
}

impl Mode {
    pub fn name(self) -> String {
        match self {
            Mode::Read(a) => format!("{a:?}"),
            Mode::Query => "Query".into(),
            Mode::QueryData => "QueryData".into(),
            Mode::Async => "Async".into(),
        }
    }
}

/// The valid counterpart of a query case (the data file of a mutated index, or the index of mutated data).
#[derive(Clone, Debug)]
pub struct Other {
    pub format: Format,
    pub set: String,
    pub name: String,
    pub bytes: Arc<Vec<u8>>,
}

#[derive(Clone, Copy, Debug, PartialEq, Eq, Hash)]
pub enum Layer {
    /// Bytes of the file as it is.
    Outer,
    /// The uncompressed stream of a BGZF / gzip document; the mutated stream is re-compressed (re-sealed).
    Inner,
}

#[derive(Clone, Debug)]
pub struct Row {
    pub doc: usize,
    pub layer: Layer,
    pub mode: Mode,
    /// Number of cases of this row.
    pub n: u64,
    /// Substitution values per byte (substitution stage only).
    pub n_sub: u64,
    /// Truncation stage: the cut offsets when not every offset is cut (documents with a record > 64 KiB).
    pub cuts: Option<Arc<Vec<usize>>>,
}

pub struct Table {
    pub rows: Vec<Row>,
    pub starts: Vec<u64>,
    pub total: u64,
}

impl Table {
    fn new(rows: Vec<Row>) -> Self {
        let mut starts = Vec::with_capacity(rows.len());
        let mut t = 0;
        for r in &rows {
            starts.push(t);
            t += r.n;
        }
        Self { rows, starts, total: t }
    }
    fn locate(&self, i: u64) -> (&Row, u64) {
        let r = self.starts.partition_point(|&s| s <= i) - 1;
        (&self.rows[r], i - self.starts[r])
    }
}

pub const FIELD_SLOTS: u64 = mutate::MAX_FIELD_VALUES as u64;

/// Numeral extremes: every decimal numeral token of a text document / text index is replaced by each of these.
pub const NUMERALS: [&str; 22] = [
    "0",
    "1",
    "32767",
    "32769",
    "65535",
    "65537",
    "2147483647",
    "2147483648",
    "4294967295",
    "4294967296",
    "9223372036854775807",
    "9223372036854775808",
    "18446744073709551615",
    "18446744073709551616",
    "99999999999999",
    "1234567890123456789012345678901234567890",
    "-1",
    "-2147483648",
    "-9223372036854775808",
    "+5",
    "05",
    "",
];

/// Multibyte-character family: one ASCII byte of a token replaced by a 2-byte and a 3-byte UTF-8 character (single
/// byte substitutions cannot produce a valid multibyte character). Slots per token: (first byte | last byte) x (é | €).
pub const MULTIBYTE: [&str; 2] = ["\u{e9}", "\u{20ac}"];
pub const MB_SLOTS: u64 = 4;

/// Tokens of a text: maximal runs of bytes that are not one of the structural delimiters of the text formats, as
/// `(offset << 16) | length`.
pub fn text_tokens(b: &[u8]) -> Vec<usize> {
    let delim = |c: u8| matches!(c, b'\t' | b'\n' | b'\r' | b' ' | b',' | b';' | b':' | b'=' | b'|' | b'/' | b'<' | b'>' | b'"' | b'(' | b')' | b'[' | b']' | b'@' | b'#' | b'+' | b'.');
    let mut out = Vec::new();
    let mut i = 0;
    while i < b.len() {
        if delim(b[i]) {
            i += 1;
            continue;
        }
        let s = i;
        while i < b.len() && !delim(b[i]) {
            i += 1;
        }
        // a token of a noodles-written document longer than this is a sequence / quality string: its ends suffice
        out.push((s << 16) | (i - s).min(65535));
    }
    out
}

/// Codec metadata integers: the uint7 integer that starts at a byte offset of a valid stream is replaced by each of
/// these (v = its value); every offset is treated as a possible integer start (a superset of the real metadata
/// integers: sizes, run lengths, symbol counts, chunk sizes).
pub const CODEC_INT_SLOTS: u64 = 8;
pub fn codec_int_value(v: u64, slot: u64, thorough: bool) -> u64 {
    match slot {
        0 => 0,
        1 => 1,
        2 => v.saturating_sub(1),
        3 => v + 1,
        4 => 2 * v,
        5 => 100,
        6 => 1 << 16,
        // quick: 1000; thorough: 2^24. (A declared output size of 2^31-1 makes the bit-pack decoder fill 2 GiB
        // for 15+ s: finite output-size amplification bounded by the 32-bit size field, which the statement
        // does not forbid and the hang rule would misreport, so that value is not used.)
        _ => {
            if thorough {
                1 << 24
            } else {
                1000
            }
        }
    }
}
fn uint7_at(b: &[u8], p: usize) -> Option<(u64, usize)> {
    let mut v = 0u64;
    for (i, &x) in b[p..].iter().enumerate().take(5) {
        v = (v << 7) | (x & 0x7f) as u64;
        if x & 0x80 == 0 {
            return Some((v, i + 1));
        }
    }
    None
}
fn uint7_enc(mut n: u64) -> Vec<u8> {
    let mut out = vec![(n & 0x7f) as u8];
    n >>= 7;
    while n > 0 {
        out.push((n & 0x7f) as u8 | 0x80);
        n >>= 7;
    }
    out.reverse();
    out
}

/// Decimal numeral tokens of a text: maximal digit runs, with a leading `-` when that follows a delimiter.
/// Returned as `(offset << 16) | length`.
pub fn numeral_tokens(b: &[u8]) -> Vec<usize> {
    let mut out = Vec::new();
    let mut i = 0;
    while i < b.len() {
        if b[i].is_ascii_digit() {
            let mut start = i;
            if i > 0 && b[i - 1] == b'-' && (i == 1 || matches!(b[i - 2], b'\t' | b' ' | b',' | b';' | b':' | b'=' | b'\n' | b'|' | b'/')) {
                start = i - 1;
            }
            let mut e = i;
            while e < b.len() && b[e].is_ascii_digit() {
                e += 1;
            }
            if e - start < 65536 {
                out.push((start << 16) | (e - start));
            }
            i = e;
        } else {
            i += 1;
        }
    }
    out
}

// ------------------------------------------------------------------------------------------ codecs

#[derive(Clone, Copy, Debug, PartialEq, Eq)]
pub enum Codec {
    Rans4x8,
    RansNx16(usize),
    Aac(usize),
    Fqzcomp,
    NameTokenizer,
    Gzip(usize),
    Bzip2(usize),
    Lzma(usize),
    Itf8,
    Ltf8,
    Uint7,
}

impl Codec {
    pub fn name(self) -> String {
        match self {
            Codec::Rans4x8 => "rans_4x8".into(),
            Codec::RansNx16(n) => format!("rans_nx16(len={n})"),
            Codec::Aac(n) => format!("aac(len={n})"),
            Codec::Fqzcomp => "fqzcomp".into(),
            Codec::NameTokenizer => "name_tokenizer".into(),
            Codec::Gzip(n) => format!("gzip(dst={n})"),
            Codec::Bzip2(n) => format!("bzip2(dst={n})"),
            Codec::Lzma(n) => format!("lzma(dst={n})"),
            Codec::Itf8 => "itf8".into(),
            Codec::Ltf8 => "ltf8".into(),
            Codec::Uint7 => "uint7".into(),
        }
    }
    fn family(self) -> &'static str {
        match self {
            Codec::Rans4x8 => "rans_4x8",
            Codec::RansNx16(_) => "rans_nx16",
            Codec::Aac(_) => "aac",
            Codec::Fqzcomp => "fqzcomp",
            Codec::NameTokenizer => "name_tokenizer",
            Codec::Gzip(_) => "gzip",
            Codec::Bzip2(_) => "bzip2",
            Codec::Lzma(_) => "lzma",
            Codec::Itf8 => "itf8",
            Codec::Ltf8 => "ltf8",
            Codec::Uint7 => "uint7",
        }
    }
    pub fn decode(self, src: &[u8]) -> io::Result<usize> {
        match self {
            Codec::Rans4x8 => cv::rans_4x8_decode(src).map(|v| v.len()),
            Codec::RansNx16(n) => cv::rans_nx16_decode(src, n).map(|v| v.len()),
            Codec::Aac(n) => cv::aac_decode(src, n).map(|v| v.len()),
            Codec::Fqzcomp => cv::fqzcomp_decode(src).map(|v| v.len()),
            Codec::NameTokenizer => cv::name_tokenizer_decode(src).map(|v| v.len()),
            Codec::Gzip(n) => {
                let mut dst = vec![0u8; n];
                cv::gzip_decode(src, &mut dst).map(|_| n)
            }
            Codec::Bzip2(n) => {
                let mut dst = vec![0u8; n];
                cv::bzip2_decode(src, &mut dst).map(|_| n)
            }
            Codec::Lzma(n) => {
                let mut dst = vec![0u8; n];
                cv::lzma_decode(src, &mut dst).map(|_| n)
            }
            Codec::Itf8 => {
                let mut r = src;
                cv::read_itf8(&mut r).map(|v| v as usize & 0xff)
            }
            Codec::Ltf8 => {
                let mut r = src;
                cv::read_ltf8(&mut r).map(|v| v as usize & 0xff)
            }
            Codec::Uint7 => {
                let mut r = src;
                cv::read_uint7(&mut r).map(|v| v as usize & 0xff)
            }
        }
    }
}

pub struct ValidStream {
    pub codec: Codec,
    pub what: String,
    pub bytes: Vec<u8>,
}

fn sample_inputs() -> Vec<(&'static str, Vec<u8>)> {
    let mut rnd = Vec::new();
    let mut x: u32 = 99;
    for _ in 0..64 {
        x = x.wrapping_mul(1_664_525).wrapping_add(1_013_904_223);
        rnd.push((x >> 24) as u8);
    }
    vec![
        ("abracadabra x3", b"abracadabraabracadabraabracadabra".to_vec()),
        ("64 pseudo-random bytes", rnd),
        ("100 x 'A'", vec![b'A'; 100]),
        ("qualities", b"IIIIIIIIIIFFFFFFFFFF:::::,,,,,IIIIIIIIIIFFFFFFFFFF".to_vec()),
        ("two bytes", b"ab".to_vec()),
    ]
}

/// Valid streams per codec, produced by the noodles encoders (failing encoders — D9 — are skipped).
pub fn valid_streams(thorough: bool) -> Vec<ValidStream> {
    let mut out = Vec::new();
    let inputs = sample_inputs();
    let take = if thorough { 3 } else { 2 };
    let mut push = |codec: Codec, what: String, r: Result<io::Result<Vec<u8>>, (String, String)>| {
        if let Ok(Ok(bytes)) = r {
            // keep only streams that the decoder accepts
            if let Ok(Ok(_)) = vmc::catch(|| codec.decode(&bytes)) {
                if bytes.len() <= 400 {
                    out.push(ValidStream { codec, what, bytes });
                }
            }
        }
    };
    for (name, src) in inputs.iter().take(take) {
        let n = src.len();
        for (o, on) in [(cv::Order::Zero, "order0"), (cv::Order::One, "order1")] {
            push(Codec::Rans4x8, format!("{on} of {name}"), vmc::catch(|| cv::rans_4x8_encode(o, src)));
        }
        // (0x60 RLE|CAT, 0x41 RLE|order-1, 0xc0 PACK|RLE, 0xa0 PACK|CAT: the metadata of one transform next to another)
        for bits in [0u8, 0x01, 0x40, 0x80, 0x20, 0x04, 0x08, 0x60, 0x41, 0xc0, 0xa0] {
            let fl = cv::RansNx16Flags::from_bits_truncate(bits);
            push(Codec::RansNx16(n), format!("flags {bits:#04x} of {name}"), vmc::catch(|| cv::rans_nx16_encode(fl, src)));
        }
        for bits in [0u8, 0x01, 0x40, 0x80, 0x20, 0x04, 0x41, 0xc0, 0xa0] {
            let fl = cv::AacFlags::from_bits_truncate(bits);
            push(Codec::Aac(n), format!("flags {bits:#04x} of {name}"), vmc::catch(|| cv::aac_encode(fl, src)));
        }
        // fqzcomp decoding costs >= 25 ms per call (model tables): two valid streams only
        if *name == "abracadabra x3" {
            push(Codec::Fqzcomp, format!("one record of {name}"), vmc::catch(|| cv::fqzcomp_encode(&[n], src)));
        }
        if n >= 10 && *name == "abracadabra x3" && thorough {
            push(Codec::Fqzcomp, format!("two records of {name}"), vmc::catch(|| cv::fqzcomp_encode(&[10, n - 10], src)));
        }
        push(Codec::Gzip(n), format!("gzip of {name}"), Ok(Ok(mutate::gzip(src))));
        push(Codec::Lzma(n), format!("lzma of {name}"), vmc::catch(|| cv::lzma_encode(6, src)));
    }
    // run-rich inputs for the RLE transforms (the first two inputs have no runs: their RLE metadata is empty)
    if !thorough {
        for (name, src) in inputs.iter().skip(2).take(2) {
            let n = src.len();
            for bits in [0x40u8, 0x60] {
                let fl = cv::RansNx16Flags::from_bits_truncate(bits);
                push(Codec::RansNx16(n), format!("flags {bits:#04x} of {name}"), vmc::catch(|| cv::rans_nx16_encode(fl, src)));
            }
            let fl = cv::AacFlags::from_bits_truncate(0x40);
            push(Codec::Aac(n), format!("flags 0x40 of {name}"), vmc::catch(|| cv::aac_encode(fl, src)));
        }
    }
    let name_sets: &[&[u8]] = if thorough { &[&b"r1\0r2\0r3\0"[..], &b"read.1:100\0read.1:101\0read.2:7\0"[..], &b"a\0"[..]] } else { &[&b"r1\0r2\0r3\0"[..]] };
    for names in name_sets.iter().copied() {
        push(Codec::NameTokenizer, format!("names {:?}", String::from_utf8_lossy(names)), vmc::catch(|| cv::name_tokenizer_encode(names)));
    }
    // python3 bz2.compress(b"hello hello hello noodles")
    let bz = hex("425a6839314159265359332e4de800000411804000064588002000310c08190c2401175070a3d8655e2ee48a70a120665c9bd0");
    push(Codec::Bzip2(25), "bz2 of 'hello hello hello noodles'".into(), Ok(Ok(bz)));
    out
}

/// fqzcomp decoding costs >= 25 ms per call (model tables): its valid streams get the six-value alphabet in both tiers.
fn stream_n_sub(s: &ValidStream, n_sub: u64) -> u64 {
    // the name tokenizer loops for ~30 s on a corrupted name count (every such case costs the 2 s CPU deadline)
    if matches!(s.codec, Codec::Fqzcomp | Codec::NameTokenizer) { 6 } else { n_sub }
}

pub fn hex(s: &str) -> Vec<u8> {
    (0..s.len() / 2).filter_map(|i| u8::from_str_radix(&s[2 * i..2 * i + 2], 16).ok()).collect()
}

pub fn to_hex(b: &[u8]) -> String {
    let mut s = String::with_capacity(b.len() * 2);
    for x in b {
        s.push_str(&format!("{x:02x}"));
    }
    s
}

// ------------------------------------------------------------------------------------------ the plan

pub struct Plan {
    pub thorough: bool,
    pub docs: Vec<Doc>,
    /// For every document: the valid counterpart used by the query modes.
    pub others: Vec<Option<Other>>,
    pub prep: Vec<Option<mutate::BgzfDoc>>,
    pub trunc: Table,
    pub subst: Table,
    pub fields: Table,
    /// Numeral-extremes stage: `cuts` holds the tokens of the row's layer (see `numeral_tokens`).
    pub nums: Table,
    /// Multibyte-character stage: `cuts` holds the tokens of the row's layer (see `text_tokens`).
    pub mbs: Table,
    /// Number of substitution values per byte.
    pub n_sub: u64,
    pub codecs: Vec<Codec>,
    pub max_len: usize,
    pub streams: Vec<ValidStream>,
    pub stream_starts: Vec<u64>,
    pub stream_total: u64,
    /// codec_ints stage: (stream index, first case) per stream that takes part.
    pub cint_starts: Vec<(usize, u64)>,
    pub cint_total: u64,
    /// Nesting-depth family (see nest.rs).
    pub nest: Vec<NestCase>,
    pub nest_target: nest::Targets,
}

pub const ST_TRUNC: u32 = 0;
pub const ST_SUBST: u32 = 1;
pub const ST_FIELDS: u32 = 2;
pub const ST_CODEC_ALL: u32 = 3;
pub const ST_CODEC_MUT: u32 = 4;
pub const ST_NEST: u32 = 5;
pub const ST_NUM: u32 = 6;
pub const ST_MB: u32 = 7;
pub const ST_CODEC_INT: u32 = 8;

fn layer_len(d: &Doc, layer: Layer) -> usize {
    match layer {
        Layer::Outer => d.bytes.len(),
        Layer::Inner => d.inner.as_ref().map(|i| i.bytes.len()).unwrap_or(0),
    }
}

fn layer_fields(d: &Doc, layer: Layer) -> &[Field] {
    match layer {
        Layer::Outer => &d.fields,
        Layer::Inner => d.inner.as_ref().map(|i| &i.fields[..]).unwrap_or(&[]),
    }
}

impl Plan {
    pub fn new(thorough: bool) -> Self {
        let mut docs: Vec<Doc> = vnd::corpus(thorough);
        // (the CRLF twins vnd::extra adds for C12 are layout variants: thorough only)
        docs.extend(vnd::extra(thorough).into_iter().filter(|d| thorough || !d.name.ends_with("-crlf")));
        if !thorough {
            // layout variants built for the C12/C13 indexed-access checks: same bytes-level structure as documents
            // already in the plan; thorough only (keeps the quick tier within its budget)
            const LAYOUT_ONLY: [&str; 4] = ["bam-mapped-split", "bcf-sites-split", "vcfgz-sites-split", "samgz-mapped-split"];
            docs.retain(|d| !LAYOUT_ONLY.iter().any(|n| d.name == *n || d.index_of.as_deref() == Some(*n)) && !d.name.contains("fastagz-indexed"));
        }
        // counterpart: an index document points to its data; a data document to the first index built for it
        let others: Vec<Option<Other>> = docs
            .iter()
            .map(|d| {
                let o = match &d.index_of {
                    Some(n) => docs.iter().find(|x| &x.name == n),
                    None => docs.iter().find(|x| x.index_of.as_deref() == Some(d.name.as_str()) && !x.name.contains("no-n_no_coor")),
                };
                o.map(|x| Other { format: x.format, set: x.set.clone(), name: x.name.clone(), bytes: x.bytes.clone() })
            })
            .collect();
        let prep: Vec<Option<mutate::BgzfDoc>> = docs.iter().map(|d| if d.format.is_bgzf() { Some(mutate::BgzfDoc::new(d)) } else { None }).collect();
        let n_sub = if thorough { 255 } else { 6 };
        let n_corpus = vnd::corpus(thorough).len();
        // thorough: all 255 values on the documents that are also in the quick corpus, the six-value alphabet on
        // the additional thorough documents (stated in the evidence)
        let quick_names: std::collections::HashSet<String> = if thorough { vnd::corpus(false).iter().map(|d| d.name.clone()).collect() } else { Default::default() };
        let mut trunc = Vec::new();
        let mut subst = Vec::new();
        let mut fields = Vec::new();
        let mut nums = Vec::new();
        let mut mbs = Vec::new();
        for (i, d) in docs.iter().enumerate() {
            // documents with a single record larger than a BGZF block: truncations (within 64 bytes of member / record
            // boundaries and every 251st byte) and field mutations only
            if d.name.starts_with("big-") && !d.raw && d.inner.is_some() && d.format != Format::Bgzf {
                // quick: the BAM and the BCF document only, cuts within 8 bytes of the boundaries and every 2003rd byte
                // (every case re-compresses and parses > 100 KB)
                if !thorough && !matches!(d.format, Format::Bam | Format::Bcf) {
                    continue;
                }
                let (near, step) = if thorough { (64usize, 251usize) } else { (8, 2003) };
                let inner = d.inner.as_ref().unwrap();
                for layer in [Layer::Outer, Layer::Inner] {
                    let (len, marks): (usize, Vec<usize>) = match layer {
                        Layer::Outer => (d.bytes.len(), d.item_ends.to_vec()),
                        Layer::Inner => (inner.bytes.len(), std::iter::once(inner.header_end).chain(inner.record_ends.iter().copied()).collect()),
                    };
                    let mut v: Vec<usize> = (0..len).step_by(step).collect();
                    for b in marks.into_iter().chain([0]) {
                        for dd in 0..=near {
                            if b + dd < len {
                                v.push(b + dd);
                            }
                            if b >= dd && b - dd < len {
                                v.push(b - dd);
                            }
                        }
                    }
                    v.sort_unstable();
                    v.dedup();
                    let cuts = Arc::new(v);
                    for a in Api::all_for(d.format) {
                        let mode = Mode::Read(*a);
                        trunc.push(Row { doc: i, layer, mode, n: cuts.len() as u64, n_sub: 6, cuts: Some(cuts.clone()) });
                        let nf = layer_fields(d, layer).len() as u64;
                        if nf > 0 {
                            fields.push(Row { doc: i, layer, mode, n: nf * FIELD_SLOTS, n_sub: 6, cuts: None });
                        }
                    }
                }
                continue;
            }
            // raw streams and most padded layouts are C12 documents; here one padded BAM / BCF (with a block boundary
            // inside the padding) is enough: the record layers are those of the base documents
            if d.big || d.raw || d.name.starts_with("eng-") || d.name.starts_with("reuse-") || (d.equiv_of.is_some() && !d.name.ends_with("padded64-split")) {
                continue;
            }
            let mut modes: Vec<Mode> = Api::all_for(d.format).iter().map(|a| Mode::Read(*a)).collect();
            // async readers: the index formats in both tiers (small documents), the data formats in the thorough tier
            if vnd::adrive::has_async(d.format) && (thorough || d.format.is_index()) {
                modes.push(Mode::Async);
            }
            if matches!(d.format, Format::Bai | Format::Csi | Format::Tbi | Format::Crai | Format::Fai) && d.index_of.is_some() && others[i].is_some() {
                modes.push(Mode::Query);
            }
            let text_gz = d.format == Format::Bgzf && d.set.ends_with(".gz");
            // quick: CRAM queries (about 1 ms per case) on one document only
            let cram_query_ok = d.format != Format::Cram || thorough || d.name == "cram-mapped-rps3";
            if d.index_of.is_none() && others[i].is_some() && cram_query_ok && (text_gz || matches!(d.format, Format::Bam | Format::Bcf | Format::VcfGz | Format::SamGz | Format::Cram)) {
                modes.push(Mode::QueryData);
            }
            let mut layers = vec![Layer::Outer];
            if d.inner.is_some() && (d.format != Format::Bgzf || text_gz) {
                layers.push(Layer::Inner);
            }
            for &layer in &layers {
                for &mode in &modes {
                    // queries of mutated data: the uncompressed layer only (frame-level mutations behave as when read
                    // sequentially), and no separate field stage (the field values are exercised by the read modes)
                    if mode == Mode::QueryData && layer == Layer::Outer && layers.len() > 1 {
                        continue;
                    }
                    let len = layer_len(d, layer) as u64;
                    // text layers additionally get the structural characters (LF, TAB, CR, ' ', ';', '=', '#', '0')
                    let is_text = match layer {
                        Layer::Outer => d.format.is_text(),
                        Layer::Inner => text_gz || matches!(d.format, Format::SamGz | Format::VcfGz | Format::Crai),
                    };
                    // numeral extremes: text documents and text indexes (FASTA / FASTQ have no numeric fields); quick
                    // skips the layout twins of a document (CRLF, no final newline, other member splits)
                    let numeric_text = is_text && !matches!(d.format, Format::Fasta | Format::FastaIndexer | Format::Fastq) && d.set != "fasta.gz";
                    let twin = ["crlf", "no-final-newline", "-split", "empty-members"].iter().any(|w| d.name.contains(w));
                    if numeric_text && (thorough || !twin) {
                        let base: &[u8] = match layer {
                            Layer::Outer => &d.bytes,
                            Layer::Inner => &d.inner.as_ref().unwrap().bytes,
                        };
                        let toks = numeral_tokens(base);
                        if !toks.is_empty() {
                            nums.push(Row { doc: i, layer, mode, n: toks.len() as u64 * NUMERALS.len() as u64, n_sub: 6, cuts: Some(Arc::new(toks)) });
                        }
                    }
                    // multibyte characters: every text document (FASTA / FASTQ included), text index and text layer
                    if is_text && (thorough || !twin) {
                        let base: &[u8] = match layer {
                            Layer::Outer => &d.bytes,
                            Layer::Inner => &d.inner.as_ref().unwrap().bytes,
                        };
                        let toks = text_tokens(base);
                        if !toks.is_empty() {
                            mbs.push(Row { doc: i, layer, mode, n: toks.len() as u64 * MB_SLOTS, n_sub: 6, cuts: Some(Arc::new(toks)) });
                        }
                    }
                    // ... and the header text inside BAM / BCF (SAM / VCF header lines; l_text follows the change)
                    if matches!(d.format, Format::Bam | Format::Bcf) && layer == Layer::Inner && matches!(mode, Mode::Read(_)) && (thorough || !twin) {
                        let inner = &d.inner.as_ref().unwrap().bytes;
                        let at = if d.format == Format::Bam { 4 } else { 5 };
                        if let Some(l_text) = vnd::walk::le_u32(inner, at) {
                            if at + 4 + l_text <= inner.len() {
                                let toks: Vec<usize> = numeral_tokens(&inner[at + 4..at + 4 + l_text]).into_iter().map(|t| t + ((at + 4) << 16)).collect();
                                if !toks.is_empty() {
                                    nums.push(Row { doc: i, layer, mode, n: toks.len() as u64 * NUMERALS.len() as u64, n_sub: 6, cuts: Some(Arc::new(toks)) });
                                }
                                let toks: Vec<usize> = text_tokens(&inner[at + 4..at + 4 + l_text]).into_iter().map(|t| t + ((at + 4) << 16)).collect();
                                if !toks.is_empty() {
                                    mbs.push(Row { doc: i, layer, mode, n: toks.len() as u64 * MB_SLOTS, n_sub: 6, cuts: Some(Arc::new(toks)) });
                                }
                            }
                        }
                    }
                    let quick_ns = if is_text { 14 } else { 6 };
                    let ns = if thorough && (quick_names.contains(&d.name) || (d.equiv_of.is_none() && i >= n_corpus && is_text)) { 255 } else { quick_ns };
                    trunc.push(Row { doc: i, layer, mode, n: len, n_sub: ns, cuts: None });
                    // (the async readers of the data formats: truncations, fields, numerals, multibyte — not the
                    // substitution stage, which already fills the thorough budget)
                    if !(mode == Mode::Async && !d.format.is_index()) {
                        subst.push(Row { doc: i, layer, mode, n: len * ns, n_sub: ns, cuts: None });
                    }
                    let nf = layer_fields(d, layer).len() as u64;
                    // quick: the field stage skips the third CRAM document (543+ fields x 40 values, ~1 ms per case)
                    let skip_fields = !thorough && d.name == "cram-paired-rps3";
                    if nf > 0 && mode != Mode::QueryData && !skip_fields {
                        fields.push(Row { doc: i, layer, mode, n: nf * FIELD_SLOTS, n_sub: ns, cuts: None });
                    }
                }
            }
        }
        let max_len = if thorough { 3 } else { 2 };
        let codecs = vec![
            Codec::Rans4x8,
            Codec::RansNx16(0),
            Codec::RansNx16(1),
            Codec::RansNx16(16),
            Codec::Aac(0),
            Codec::Aac(1),
            Codec::Aac(16),
            Codec::Fqzcomp,
            Codec::NameTokenizer,
            Codec::Gzip(0),
            Codec::Gzip(16),
            Codec::Bzip2(16),
            Codec::Lzma(16),
            Codec::Itf8,
            Codec::Ltf8,
            Codec::Uint7,
        ];
        let streams = valid_streams(thorough);
        let mut stream_starts = Vec::new();
        let mut t = 0u64;
        for s in &streams {
            stream_starts.push(t);
            t += s.bytes.len() as u64 * stream_n_sub(s, n_sub) + s.bytes.len() as u64;
        }
        // fqzcomp decoding costs >= 25 ms per call: its streams are left to the thorough tier
        let mut cint_starts = Vec::new();
        let mut cint_total = 0u64;
        for (si, st) in streams.iter().enumerate() {
            if matches!(st.codec, Codec::Gzip(_) | Codec::Bzip2(_) | Codec::Lzma(_)) || (!thorough && st.codec == Codec::Fqzcomp) {
                continue;
            }
            cint_starts.push((si, cint_total));
            cint_total += st.bytes.len() as u64 * CODEC_INT_SLOTS;
        }
        let nest_target = nest::Targets::find(&docs);
        let mut nest_cases = Vec::new();
        for entry in nest::Entry::ALL {
            for leaf in [nest::Leaf::Cat, nest::Leaf::Order0] {
                if leaf == nest::Leaf::Order0 && entry.single_leaf() {
                    continue;
                }
                for &depth in &nest::depths(thorough) {
                    for stack in nest::STACKS {
                        nest_cases.push(NestCase { entry, leaf, depth, stack });
                    }
                }
            }
        }
        if thorough {
            // time amplification (thorough only: the hang deadline and its confirmation cost ~7 s per class):
            // 1000 levels (4 KB of input) around 16 MiB of zero bytes
            for entry in [nest::Entry::RansNx16, nest::Entry::Aac] {
                nest_cases.push(NestCase { entry, leaf: nest::Leaf::Zeros, depth: 1, stack: 8 << 20 });
                nest_cases.push(NestCase { entry, leaf: nest::Leaf::Zeros, depth: 1_000, stack: 8 << 20 });
            }
        }
        Self { thorough, docs, others, prep, trunc: Table::new(trunc), subst: Table::new(subst), fields: Table::new(fields), nums: Table::new(nums), mbs: Table::new(mbs), n_sub, codecs, max_len, streams, stream_starts, stream_total: t, cint_starts, cint_total, nest: nest_cases, nest_target }
    }

    fn strings_total(&self) -> u64 {
        (0..=self.max_len).map(|l| 256u64.pow(l as u32)).sum()
    }

    fn nth_string(&self, mut i: u64) -> Vec<u8> {
        let mut l = 0;
        loop {
            let n = 256u64.pow(l as u32);
            if i < n {
                break;
            }
            i -= n;
            l += 1;
        }
        let mut v = vec![0u8; l];
        for k in (0..l).rev() {
            v[k] = (i & 0xff) as u8;
            i >>= 8;
        }
        v
    }

    /// Substitution value number `j` for original byte `b` (`None`: equals the original or an earlier value).
    fn sub_value(&self, b: u8, j: u64, n_sub: u64) -> Option<u8> {
        if n_sub == 255 {
            return Some(b.wrapping_add(1 + j as u8));
        }
        let vals = [0x00, 0xff, b ^ 0x01, b ^ 0x80, b.wrapping_add(1), b.wrapping_sub(1), b'\n', b'\t', b'\r', b' ', b';', b'=', b'#', b'0'];
        let v = vals[j as usize];
        if v == b || vals[..j as usize].contains(&v) { None } else { Some(v) }
    }

    /// Applies a same-length patch at `off` of the given layer and re-seals.
    fn patched(&self, row: &Row, off: usize, new: &[u8]) -> Vec<u8> {
        let d = &self.docs[row.doc];
        match row.layer {
            Layer::Outer => {
                let mut b = d.bytes.to_vec();
                let end = (off + new.len()).min(b.len());
                b[off..end].copy_from_slice(&new[..end - off]);
                if d.format == Format::Cram {
                    mutate::reseal_cram(&mut b);
                }
                b
            }
            Layer::Inner => {
                if let Some(p) = &self.prep[row.doc] {
                    p.patched(off, new)
                } else {
                    // gzip (crai)
                    let mut t = d.inner.as_ref().unwrap().bytes.to_vec();
                    let end = (off + new.len()).min(t.len());
                    t[off..end].copy_from_slice(&new[..end - off]);
                    mutate::gzip(&t)
                }
            }
        }
    }

    /// The input of a document-level case: `None` when the case is trivial (mutation = original).
    pub fn input(&self, stage: u32, case: u64) -> Option<(&Row, Vec<u8>, String)> {
        match stage {
            ST_TRUNC => {
                let (row, k) = self.trunc.locate(case);
                let d = &self.docs[row.doc];
                let k = match &row.cuts {
                    Some(c) => c[k as usize],
                    None => k as usize,
                };
                let bytes = match row.layer {
                    Layer::Outer => d.bytes[..k].to_vec(),
                    Layer::Inner => {
                        let inner = &d.inner.as_ref().unwrap().bytes;
                        match &self.prep[row.doc] {
                            Some(p) => p.rebuilt(&inner[..k]),
                            None => mutate::gzip(&inner[..k]),
                        }
                    }
                };
                Some((row, bytes, format!("truncated to {k} bytes")))
            }
            ST_SUBST => {
                let (row, r) = self.subst.locate(case);
                let d = &self.docs[row.doc];
                let off = (r / row.n_sub) as usize;
                let j = r % row.n_sub;
                let orig = match row.layer {
                    Layer::Outer => d.bytes[off],
                    Layer::Inner => d.inner.as_ref().unwrap().bytes[off],
                };
                let v = self.sub_value(orig, j, row.n_sub)?;
                Some((row, self.patched(row, off, &[v]), format!("byte {off}: {orig:#04x} -> {v:#04x}")))
            }
            ST_MB => {
                let (row, r) = self.mbs.locate(case);
                let d = &self.docs[row.doc];
                let tok = row.cuts.as_ref()?[(r / MB_SLOTS) as usize];
                let (toff, tlen) = (tok >> 16, tok & 0xffff);
                let slot = r % MB_SLOTS;
                if slot >= 2 && tlen < 2 {
                    return None;
                }
                let off = if slot < 2 { toff } else { toff + tlen - 1 };
                let v = MULTIBYTE[(slot % 2) as usize];
                let base: &[u8] = match row.layer {
                    Layer::Outer => &d.bytes,
                    Layer::Inner => &d.inner.as_ref().unwrap().bytes,
                };
                if !base[off].is_ascii() {
                    return None;
                }
                let mut spliced = Vec::with_capacity(base.len() + 4);
                spliced.extend_from_slice(&base[..off]);
                spliced.extend_from_slice(v.as_bytes());
                spliced.extend_from_slice(&base[off + 1..]);
                if matches!(d.format, Format::Bam | Format::Bcf) {
                    let at = if d.format == Format::Bam { 4 } else { 5 };
                    let l = vnd::walk::le_u32(base, at)? + v.len() - 1;
                    spliced[at..at + 4].copy_from_slice(&(l as u32).to_le_bytes());
                }
                let ls = base[..off].iter().rposition(|&c| c == b'\n').map(|p| p + 1).unwrap_or(0);
                let what = format!(
                    "byte {off} ({:?}, the {} byte of the token {:?}; line {:?}, column {}) -> {v:?} ({} bytes of UTF-8)",
                    base[off] as char,
                    if slot < 2 { "first" } else { "last" },
                    String::from_utf8_lossy(&base[toff..toff + tlen.min(40)]),
                    String::from_utf8_lossy(&base[ls..(ls + 40).min(base.len())]).split('\n').next().unwrap_or(""),
                    base[ls..off].iter().filter(|&&c| c == b'\t').count() + 1,
                    v.len()
                );
                let bytes = match row.layer {
                    Layer::Outer => spliced,
                    Layer::Inner => match &self.prep[row.doc] {
                        Some(p) => p.rebuilt(&spliced),
                        None => mutate::gzip(&spliced),
                    },
                };
                Some((row, bytes, what))
            }
            ST_NUM => {
                let (row, r) = self.nums.locate(case);
                let d = &self.docs[row.doc];
                let nv = NUMERALS.len() as u64;
                let tok = row.cuts.as_ref()?[(r / nv) as usize];
                let (off, len) = (tok >> 16, tok & 0xffff);
                let v = NUMERALS[(r % nv) as usize];
                let base: &[u8] = match row.layer {
                    Layer::Outer => &d.bytes,
                    Layer::Inner => &d.inner.as_ref().unwrap().bytes,
                };
                let old = &base[off..off + len];
                if old == v.as_bytes() {
                    return None;
                }
                let mut spliced = Vec::with_capacity(base.len() + v.len());
                spliced.extend_from_slice(&base[..off]);
                spliced.extend_from_slice(v.as_bytes());
                spliced.extend_from_slice(&base[off + len..]);
                if matches!(d.format, Format::Bam | Format::Bcf) {
                    // header text of a binary document: l_text follows the change
                    let at = if d.format == Format::Bam { 4 } else { 5 };
                    let l = vnd::walk::le_u32(base, at)? + v.len() - len;
                    spliced[at..at + 4].copy_from_slice(&(l as u32).to_le_bytes());
                }
                let ls = base[..off].iter().rposition(|&c| c == b'\n').map(|p| p + 1).unwrap_or(0);
                let what = format!(
                    "numeral {:?} at {off} (line {:?}, column {}) -> {v:?}",
                    String::from_utf8_lossy(old),
                    String::from_utf8_lossy(&base[ls..(ls + 40).min(base.len())]).split('\n').next().unwrap_or(""),
                    base[ls..off].iter().filter(|&&c| c == b'\t').count() + 1
                );
                let bytes = match row.layer {
                    Layer::Outer => spliced,
                    Layer::Inner => match &self.prep[row.doc] {
                        Some(p) => p.rebuilt(&spliced),
                        None => mutate::gzip(&spliced),
                    },
                };
                Some((row, bytes, what))
            }
            ST_FIELDS => {
                let (row, r) = self.fields.locate(case);
                let d = &self.docs[row.doc];
                let fi = (r / FIELD_SLOTS) as usize;
                let slot = (r % FIELD_SLOTS) as usize;
                let f = &layer_fields(d, row.layer)[fi];
                let base: &[u8] = match row.layer {
                    Layer::Outer => &d.bytes,
                    Layer::Inner => &d.inner.as_ref().unwrap().bytes,
                };
                let vals = mutate::field_values(base, f);
                let v = *vals.get(slot)?;
                let what = format!("field {} at {} (width {}, {:?}): {:?} -> {v}", f.kind, f.offset, f.width, f.enc, mutate::field_value(base, f));
                let bytes = if f.enc == Enc::Le {
                    self.patched(row, f.offset, &mutate::field_encode(f, v))
                } else {
                    // width may change: splice, then re-seal
                    let spliced = mutate::splice_field(base, f, v);
                    match row.layer {
                        Layer::Outer => {
                            let mut b = spliced;
                            if d.format == Format::Cram {
                                mutate::reseal_cram(&mut b);
                            }
                            b
                        }
                        Layer::Inner => match &self.prep[row.doc] {
                            Some(p) => p.rebuilt(&spliced),
                            None => mutate::gzip(&spliced),
                        },
                    }
                };
                Some((row, bytes, what))
            }
            _ => None,
        }
    }

    fn codec_case(&self, stage: u32, case: u64) -> (Codec, Vec<u8>, String) {
        if stage == ST_CODEC_INT {
            let r = self.cint_starts.partition_point(|&(_, s)| s <= case) - 1;
            let (si, first) = self.cint_starts[r];
            let st = &self.streams[si];
            let k = case - first;
            let off = (k / CODEC_INT_SLOTS) as usize;
            let slot = k % CODEC_INT_SLOTS;
            return match uint7_at(&st.bytes, off) {
                Some((v, w)) => {
                    let nv = codec_int_value(v, slot, self.thorough);
                    let mut b = st.bytes[..off].to_vec();
                    b.extend(uint7_enc(nv));
                    b.extend_from_slice(&st.bytes[off + w..]);
                    (st.codec, b, format!("valid stream ({}) with the uint7 integer at byte {off} ({w} bytes): {v} -> {nv}", st.what))
                }
                None => (st.codec, st.bytes.clone(), format!("valid stream ({}), no uint7 integer at byte {off}", st.what)),
            };
        }
        if stage == ST_CODEC_ALL {
            let per = self.strings_total();
            let c = self.codecs[(case / per) as usize];
            let s = self.nth_string(case % per);
            (c, s, "arbitrary byte string".into())
        } else {
            let r = self.stream_starts.partition_point(|&s| s <= case) - 1;
            let st = &self.streams[r];
            let k = case - self.stream_starts[r];
            let len = st.bytes.len() as u64;
            let ns = stream_n_sub(st, self.n_sub);
            if k < len * ns {
                let off = (k / ns) as usize;
                let mut b = st.bytes.clone();
                let v = match self.sub_value(b[off], k % ns, ns) {
                    Some(v) => v,
                    None => b[off] ^ 0xaa, // duplicate slot of the quick alphabet: use one more value
                };
                let what = format!("valid stream ({}) with byte {off}: {:#04x} -> {v:#04x}", st.what, b[off]);
                b[off] = v;
                (st.codec, b, what)
            } else {
                let cut = (k - len * ns) as usize;
                (st.codec, st.bytes[..cut].to_vec(), format!("valid stream ({}) truncated to {cut} bytes", st.what))
            }
        }
    }
}

fn norm_msg(s: &str) -> String {
    let mut o = vmc::normalise_msg(s);
    o.truncate(60);
    o
}

/// Runs one document-level input; returns the verdict (panics propagate).
pub fn exec_doc(format: Format, set: &str, mode: Mode, bed_n: usize, raw: bool, len_hint: usize, other: Option<&Other>, bytes: &[u8]) -> Result<(u64, bool), (String, String)> {
    let log = match (mode, other) {
        (Mode::Read(api), _) => {
            // the iteration caps count items: use the uncompressed size of the original document when it is larger
            let mut o = Opts::new(bytes.len().max(len_hint)).api(api);
            o.bed_n = bed_n;
            o.raw = raw;
            vnd::read_log(format, bytes, &o)
        }
        (Mode::Async, _) => {
            let mut o = Opts::new(bytes.len().max(len_hint)).api(Api::Eager);
            o.vpos = false;
            vnd::adrive::read_log_async(format, bytes, &o).unwrap_or_else(|| vec!["end: EOF".into()])
        }
        // bytes = mutated index, other = valid data
        (Mode::Query, Some(o)) => query_log(o.format, &o.set, &o.bytes, format, bytes),
        // bytes = mutated data, other = valid index
        (Mode::QueryData, Some(o)) => query_log(format, set, bytes, o.format, &o.bytes),
        _ => vec!["end: EOF".into()],
    };
    for l in &log {
        if let Some(p) = l.find(vnd::NONTERM) {
            let ty: String = l[p + vnd::NONTERM.len()..].chars().take_while(|c| c.is_ascii_alphanumeric() || matches!(c, ':' | '_' | '<' | '>')).collect();
            return Err((format!("outcome=non-termination iterator={ty}"), format!("more than {} items from {ty}", bytes.len() + 1000)));
        }
        if let Some(p) = l.find(vnd::DEBUG_OVERFLOW) {
            let ty: String = l[p + vnd::DEBUG_OVERFLOW.len()..].chars().take_while(|c| c.is_ascii_alphanumeric() || matches!(c, ':' | '_' | '<' | '>')).collect();
            return Err((format!("outcome=unbounded-debug-output type={ty}"), format!("Debug rendering of {ty} exceeds {} bytes", 64 * bytes.len() + 65536)));
        }
    }
    let last = log.last().map(|s| s.as_str()).unwrap_or("");
    let ok = vnd::is_end_eof(last);
    let mut h = std::collections::hash_map::DefaultHasher::new();
    (format, mode, norm_msg(last), log.len().min(40)).hash(&mut h);
    Ok((h.finish(), ok))
}

pub use vnd::query::query_log;

pub fn len_hint_of(d: &Doc) -> usize {
    d.inner.as_ref().map(|i| i.bytes.len()).unwrap_or(0)
}

fn bed_n_of(d: &Doc) -> usize {
    if d.name.starts_with("bed3") { 3 } else { 6 }
}

pub fn payload_doc(format: Format, set: &str, mode: Mode, bed_n: usize, raw: bool, len_hint: usize, other: Option<&Other>, bytes: &[u8]) -> String {
    vmc::json!({
        "kind": "doc", "len_hint": len_hint, "format": format.name(), "set": set, "mode": mode.name(), "bed_n": bed_n, "raw": raw, "input_hex": to_hex(bytes),
        "other": other.map(|o| vmc::json!({"format": o.format.name(), "set": o.set, "name": o.name, "hex": to_hex(&o.bytes)})),
    })
    .to_string()
}

impl Stages for Plan {
    fn n_stages(&self) -> u32 {
        9
    }
    fn norm_panic_msg(&self, stage: u32, msg: &str) -> String {
        if stage != ST_MB {
            return vmc::normalise_msg(msg);
        }
        // the slicing panics quote the input (`é/1`, 'é'): collapse quoted segments and non-ASCII characters so that
        // the fingerprint names the failure, not the value
        let mut out = String::new();
        let mut quote: Option<char> = None;
        for c in msg.chars() {
            match quote {
                Some(q) => {
                    if c == q {
                        quote = None;
                    }
                }
                None => {
                    if c == '`' || c == '\'' {
                        quote = Some(c);
                        out.push('Q');
                    } else if !c.is_ascii() {
                        out.push('U');
                    } else {
                        out.push(c);
                    }
                }
            }
        }
        vmc::normalise_msg(&out)
    }
    fn order(&self) -> Vec<u32> {
        // the (small) nesting stage first: a time cap must not cut it
        vec![ST_NEST, ST_NUM, ST_MB, ST_CODEC_INT, ST_TRUNC, ST_SUBST, ST_FIELDS, ST_CODEC_ALL, ST_CODEC_MUT]
    }
    fn stage_name(&self, stage: u32) -> String {
        ["truncations", "substitutions", "fields", "codec_strings", "codec_streams", "nesting", "numerals", "multibyte", "codec_ints"][stage as usize].to_string()
    }
    fn stage_len(&self, stage: u32) -> u64 {
        match stage {
            ST_NEST => self.nest.len() as u64,
            ST_NUM => self.nums.total,
            ST_MB => self.mbs.total,
            ST_CODEC_INT => self.cint_total,
            ST_TRUNC => self.trunc.total,
            ST_SUBST => self.subst.total,
            ST_FIELDS => self.fields.total,
            ST_CODEC_ALL => self.codecs.len() as u64 * self.strings_total(),
            _ => self.stream_total,
        }
    }

    fn run(&self, stage: u32, case: u64) -> Verdict {
        if stage == ST_NEST {
            let c = &self.nest[case as usize];
            let out = nest::run(c, &self.nest_target, || crate::pool::arm(true));
            let viol = |fp: &str, expected: &str, observed: String| {
                let (decoded, payload) = nest::describe(c, &self.nest_target);
                Verdict::Violation(Finding { fingerprint: format!("{} {fp}", c.fp()), decoded, expected: expected.into(), observed, payload, stage, case })
            };
            let mut h = std::collections::hash_map::DefaultHasher::new();
            return match out {
                nest::Out::Ok => {
                    (c.entry, c.leaf, true, c.depth.min(4)).hash(&mut h);
                    Verdict::Fine { class: h.finish(), ok: true }
                }
                nest::Out::Err(e) if c.depth > c.entry.must_decode_depth() || !c.entry.has_payload() => {
                    (c.entry, c.leaf, false, norm_msg(&e)).hash(&mut h);
                    Verdict::Fine { class: h.finish(), ok: false }
                }
                nest::Out::Err(e) => viol("outcome=shallow-nesting-rejected", "the payload (a stripe chunk is a complete stream; depth <= 3)", format!("Err({e})")),
                nest::Out::Wrong(w) => viol("outcome=wrong-output", "the payload, or an io::Error", w),
                nest::Out::Panic(msg, file) => {
                    let file = crate::pool::norm_file(&file);
                    viol(&format!("outcome=panic msg={} file={file}", vmc::normalise_msg(&msg)), "Ok or io::Error", format!("panic: {msg} in {file}"))
                }
                nest::Out::NoInput => Verdict::Trivial,
            };
        }
        if matches!(stage, ST_CODEC_ALL | ST_CODEC_MUT | ST_CODEC_INT) {
            let (codec, bytes, _) = self.codec_case(stage, case);
            let r = codec.decode(&bytes);
            let mut h = std::collections::hash_map::DefaultHasher::new();
            match &r {
                Ok(n) => (codec.family(), true, (*n).min(64)).hash(&mut h),
                Err(e) => (codec.family(), false, norm_msg(&e.to_string())).hash(&mut h),
            }
            return Verdict::Fine { class: h.finish(), ok: r.is_ok() };
        }
        let Some((row, bytes, what)) = self.input(stage, case) else { return Verdict::Trivial };
        let d = &self.docs[row.doc];
        let other = self.others[row.doc].as_ref();
        match exec_doc(d.format, &d.set, row.mode, bed_n_of(d), d.raw, len_hint_of(d), other, &bytes) {
            Ok((class, ok)) => Verdict::Fine { class, ok },
            Err((fp, observed)) => Verdict::Violation(Finding {
                fingerprint: format!("{} {fp}", self.fp_prefix(stage, case)),
                decoded: self.decoded(row, &what, &bytes),
                expected: "Ok or io::Error after finitely many steps".into(),
                observed,
                payload: payload_doc(d.format, &d.set, row.mode, bed_n_of(d), d.raw, len_hint_of(d), other, &bytes),
                stage,
                case,
            }),
        }
    }

    fn describe(&self, stage: u32, case: u64) -> (String, String, String) {
        if stage == ST_NEST {
            let (decoded, payload) = nest::describe(&self.nest[case as usize], &self.nest_target);
            return (decoded, String::new(), payload);
        }
        if matches!(stage, ST_CODEC_ALL | ST_CODEC_MUT | ST_CODEC_INT) {
            let (codec, bytes, what) = self.codec_case(stage, case);
            let payload = vmc::json!({"kind": "codec", "codec": codec.name(), "input_hex": to_hex(&bytes)}).to_string();
            return (format!("noodles_cram::verif::{}_decode(&hex!(\"{}\")) — {what}", codec.name(), to_hex(&bytes)), String::new(), payload);
        }
        match self.input(stage, case) {
            None => ("trivial case".into(), String::new(), "{}".into()),
            Some((row, bytes, what)) => {
                let d = &self.docs[row.doc];
                (self.decoded(row, &what, &bytes), String::new(), payload_doc(d.format, &d.set, row.mode, bed_n_of(d), d.raw, len_hint_of(d), self.others[row.doc].as_ref(), &bytes))
            }
        }
    }

    fn fp_prefix(&self, stage: u32, case: u64) -> String {
        if stage == ST_NEST {
            return self.nest[case as usize].fp();
        }
        if matches!(stage, ST_CODEC_ALL | ST_CODEC_MUT | ST_CODEC_INT) {
            let (codec, _, _) = self.codec_case(stage, case);
            return format!("format=cram-codec entry={}_decode", codec.family());
        }
        let row = match stage {
            ST_TRUNC => self.trunc.locate(case).0,
            ST_SUBST => self.subst.locate(case).0,
            ST_NUM => self.nums.locate(case).0,
            ST_MB => self.mbs.locate(case).0,
            _ => self.fields.locate(case).0,
        };
        let d = &self.docs[row.doc];
        // bgzipped indexed text is a Format::Bgzf document whose `set` names the text format
        let fmt = if d.format == Format::Bgzf && d.set.ends_with(".gz") && row.mode == Mode::QueryData { d.set.clone() } else { d.format.name().to_string() };
        format!("format={fmt} entry={}{}", row.mode.name(), if d.raw { "(raw)" } else { "" })
    }
}

impl Plan {
    fn decoded(&self, row: &Row, what: &str, bytes: &[u8]) -> String {
        let d = &self.docs[row.doc];
        format!(
            "doc={} ({:?} layer{}) {what}; reader={} entry={}{}; input ({} bytes, hex): {}",
            d.name,
            row.layer,
            if row.layer == Layer::Inner { ", re-sealed" } else if d.format == Format::Cram { ", CRC32s re-sealed" } else { "" },
            d.format,
            row.mode.name(),
            match (row.mode, &self.others[row.doc]) {
                (Mode::Query, Some(o)) => format!(" valid data={}", o.name),
                (Mode::QueryData, Some(o)) => format!(" valid index={}", o.name),
                _ => String::new(),
            },
            bytes.len(),
            to_hex(bytes)
        )
    }
}

/// Shared handle so the plan can be leaked to the forked workers.
pub fn leak(plan: Plan) -> &'static Plan {
    Box::leak(Box::new(plan))
}

#[allow(dead_code)]
pub fn arc_bytes(b: Vec<u8>) -> Arc<Vec<u8>> {
    Arc::new(b)
}
