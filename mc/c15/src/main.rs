//! C15 — corrupt or hostile input is reported as an error, never a panic / hang / abort.
//!
//! E3 over a mutation alphabet, process-isolated (see `pool.rs`): for every corpus document and index
//! (i) every truncation, (ii) at every byte offset the substitutions {0x00, 0xff, b^0x01, b^0x80, b+1, b-1}
//! (quick) / all 255 other values (thorough), (iii) every located length / count / offset field set to
//! {0, 1, v-1, v+1, 0x7f, 0x80, 0xffff, 2^31-1, 2^31, 2^32-1} (as the width allows) — with checksums re-sealed
//! (BGZF payload mutated in the uncompressed stream and re-compressed with vmc::oracle::bgzf::make_block; CRAM
//! container / block CRC32s recomputed; crai re-gzipped) so that the corruption reaches the decoder — (iv) the
//! CRAM codec decoders on all byte strings up to a length and on every single-byte substitution and truncation
//! of valid streams, (v) `query` / `query_unmapped` of the valid BAM / BCF / VCF.gz with each mutated index.
//! Every record returned `Ok` has every accessor touched (vnd::read_log). Outcome must be Ok or io::Error.

mod cases;
mod nest;
mod pool;

use std::time::Duration;

use cases::{Mode, Plan};
use pool::{C_BIG, C_ERR, C_NONTERM, C_OK, C_PANIC, C_TRIVIAL, Stages};
use vmc::{Custom, Violation, json, serde_json::Value};
use vnd::{Api, Format};

#[global_allocator]
static ALLOC: pool::GuardAlloc = pool::GuardAlloc;

fn parse_format(s: &str) -> Option<Format> {
    Format::ALL.iter().copied().find(|f| f.name() == s)
}

fn parse_mode(s: &str) -> Mode {
    match s {
        "Eager" => Mode::Read(Api::Eager),
        "Lazy" => Mode::Read(Api::Lazy),
        "Alt" => Mode::Read(Api::Alt),
        "QueryData" => Mode::QueryData,
        "Async" => Mode::Async,
        _ => Mode::Query,
    }
}

/// Executes a replay payload in an isolated child; returns Err(fingerprint-ish, observed) on failure.
fn replay_payload(plan: &'static Plan, p: &Value) -> Result<(), (String, String)> {
    let kind = p["kind"].as_str().unwrap_or("");
    let input = cases::hex(p["input_hex"].as_str().unwrap_or(""));
    let p2 = p.clone();
    let r = pool::run_isolated(
        move || {
            pool::arm(false);
            let r = vmc::catch(|| -> Result<String, (String, String)> {
                if p2["kind"].as_str() == Some("nest") {
                    let c = nest_case_of(&p2);
                    return match nest::run(&c, &plan.nest_target, || {}) {
                        nest::Out::Ok => Ok("decoded to the payload".into()),
                        nest::Out::Err(e) if c.depth > c.entry.must_decode_depth() || !c.entry.has_payload() => Ok(format!("Err({e})")),
                        nest::Out::Err(e) => Err(("outcome=shallow-nesting-rejected".into(), format!("Err({e})"))),
                        nest::Out::Wrong(w) => Err(("outcome=wrong-output".into(), w)),
                        nest::Out::Panic(msg, file) => Err((format!("outcome=panic msg={} file={}", vmc::normalise_msg(&msg), pool::norm_file(&file)), format!("panic: {msg} in {file}"))),
                        nest::Out::NoInput => Ok("no input".into()),
                    };
                }
                if kind_is_codec(&p2) {
                    let name = p2["codec"].as_str().unwrap_or("");
                    let codec = plan.codecs.iter().copied().chain(plan.streams.iter().map(|s| s.codec)).find(|c| c.name() == name);
                    match codec {
                        Some(c) => Ok(format!("{:?}", c.decode(&input).map_err(|e| e.to_string()))),
                        None => Ok("unknown codec".into()),
                    }
                } else {
                    let format = parse_format(p2["format"].as_str().unwrap_or("")).unwrap_or(Format::Bgzf);
                    let set = p2["set"].as_str().unwrap_or("").to_string();
                    let mode = parse_mode(p2["mode"].as_str().unwrap_or(""));
                    let bed_n = p2["bed_n"].as_u64().unwrap_or(3) as usize;
                    let raw = p2["raw"].as_bool().unwrap_or(false);
                    let other = if p2["other"].is_object() {
                        Some(cases::Other {
                            format: parse_format(p2["other"]["format"].as_str().unwrap_or("")).unwrap_or(Format::Bgzf),
                            set: p2["other"]["set"].as_str().unwrap_or("").to_string(),
                            name: p2["other"]["name"].as_str().unwrap_or("").to_string(),
                            bytes: std::sync::Arc::new(cases::hex(p2["other"]["hex"].as_str().unwrap_or(""))),
                        })
                    } else {
                        // replay files written before the query stages carried only the data document's name
                        p2["data"].as_str().and_then(|n| plan.docs.iter().find(|d| d.name == n)).map(|d| cases::Other { format: d.format, set: d.set.clone(), name: d.name.clone(), bytes: d.bytes.clone() })
                    };
                    let len_hint = p2["len_hint"].as_u64().unwrap_or(0) as usize;
                    cases::exec_doc(format, &set, mode, bed_n, raw, len_hint, other.as_ref(), &input).map(|(_, ok)| format!("ok={ok}"))
                }
            });
            match r {
                Ok(Ok(s)) => format!("FINE\t{s}"),
                Ok(Err((fp, obs))) => format!("VIOL\t{fp}\t{obs}"),
                Err((msg, file)) => format!("VIOL\toutcome=panic msg={} file={file}\tpanic: {msg} in {file}", vmc::normalise_msg(&msg)),
            }
        },
        Duration::from_secs(10),
    );
    let _ = kind;
    match r {
        Ok(line) => {
            let parts: Vec<&str> = line.split('\t').collect();
            match parts.as_slice() {
                ["FINE", ..] => Ok(()),
                ["VIOL", fp, obs] => Err((fp.to_string(), obs.to_string())),
                _ => Err(("outcome=unknown".into(), line)),
            }
        }
        Err(e) => Err((e.clone(), format!("the isolated replay child: {e}"))),
    }
}

fn nest_case_of(p: &Value) -> nest::NestCase {
    nest::NestCase {
        entry: nest::Entry::parse(p["entry"].as_str().unwrap_or("")).unwrap_or(nest::Entry::RansNx16),
        leaf: nest::Leaf::parse(p["leaf"].as_str().unwrap_or("")),
        depth: p["depth"].as_u64().unwrap_or(1).max(1) as usize,
        stack: p["stack"].as_u64().unwrap_or(8 << 20) as usize,
    }
}

/// Smallest nesting depth at which the decoder overflows a stack of the given size (isolated child per probe;
/// overflow is monotone in the depth), with the input size; `None` when 200 000 levels do not overflow.
fn min_overflow_depth(plan: &'static Plan, entry: nest::Entry, stack: usize) -> Option<(usize, usize)> {
    let overflows = |depth: usize| -> bool {
        let c = nest::NestCase { entry, leaf: nest::Leaf::Cat, depth, stack };
        let r = pool::run_isolated(
            move || {
                pool::arm(false);
                let _ = nest::run(&c, &plan.nest_target, || {});
                "done".into()
            },
            Duration::from_secs(20),
        );
        matches!(r, Err(e) if e.contains("cause=stack-overflow"))
    };
    let mut hi = 200_000usize;
    if !overflows(hi) {
        return None;
    }
    let mut lo = 1usize; // does not overflow
    while hi - lo > 1 {
        let mid = lo + (hi - lo) / 2;
        if overflows(mid) { hi = mid } else { lo = mid }
    }
    let c = nest::NestCase { entry, leaf: nest::Leaf::Cat, depth: hi, stack };
    Some((hi, nest::input(&c, &plan.nest_target).map(|b| b.len()).unwrap_or(0)))
}

fn kind_is_codec(p: &Value) -> bool {
    p["kind"].as_str() == Some("codec")
}

fn main() {
    vmc::run("C15", "fault_enumeration", |ctx| {
        let thorough = ctx.thorough();
        let plan: &'static Plan = cases::leak(Plan::new(thorough));
        ctx.rule(format!(
            "{}corpus documents ({}) x entry points (eager / lazy readers, index query) x [every truncation | every byte offset x {} substitution values | every located length/count/offset field x <= 12 boundary values], at the file layer and — for BGZF / gzip documents — at the uncompressed layer with re-sealed checksums; CRAM codec decoders x all byte strings of length <= {} and every 1-byte substitution / truncation of {} valid streams; distinct = distinct (format, entry, outcome message class, item count) tuples",
            if thorough { "thorough: all 255 substitution values on the documents of the quick corpus, the six-value alphabet on the additional thorough documents and on the fqzcomp and name-tokenizer streams | " } else { "" },
            plan.docs.iter().filter(|d| !d.big).count(),
            plan.n_sub,
            plan.max_len,
            plan.streams.len()
        ));
        ctx.assume("a single allocation request in [256 MiB, 16 GiB) is not judged: the case is cut short by parking the requesting thread (counted as big_alloc, listed by site); a request >= 16 GiB is classified as abort");
        ctx.rule("nesting-depth family: one-chunk STRIPE streams (the only construct of the formats read that can contain itself) nested to depth {1,2,3,10,100,1000,2000,5000,10000,100000} around a CAT / encoder-made order-0 leaf, decoded by rans_nx16 / aac directly, through the name tokenizer's token byte streams, and through a CRAM file whose external block names method 5 / 6, each on a thread with an 8 MiB (main-thread default) and a 2 MiB (std::thread default) stack: depth <= 3 must decode to the payload, deeper ones to the payload or Err, and the process must survive (a worker death with the runtime's 'has overflowed its stack' message is outcome=abort cause=stack-overflow)");
        ctx.assume("the > 64 KiB documents are not mutated (their structure repeats that of the small ones)");
        ctx.assume("miniz_oxide / crc32fast (re-sealing) are correct; a re-sealed CRAM keeps stale CRC32s only where the mutation itself made the container unwalkable");

        // replay of one recorded case
        if ctx.is_replay() {
            for s in 0..plan.n_stages() {
                let name = plan.stage_name(s);
                if let Some(p) = ctx.custom_replay(&name) {
                    println!("replaying {} case: {}", name, vmc::hex(&cases::hex(p["input_hex"].as_str().unwrap_or(""))));
                    let o = match replay_payload(plan, &p) {
                        Ok(()) => Ok(()),
                        Err((fp, obs)) => Err(Violation::new(fp, p.to_string(), "Ok or io::Error", obs)),
                    };
                    ctx.set_replay_outcome(o);
                }
            }
            return;
        }

        let only: Option<String> = std::env::var("C15_STAGE").ok();
        let dir = std::path::PathBuf::from(format!("/tmp/vs-c15-{}", std::process::id()));
        let limit = if thorough { Duration::from_secs(18 * 60) } else { Duration::from_secs(40) };
        let results = pool::run_stages(
            plan,
            vmc::explore::default_threads(),
            &dir,
            |s| only.as_ref().map(|o| plan.stage_name(s).contains(o.as_str())).unwrap_or(true),
            Some(limit),
        );
        let _ = std::fs::remove_dir_all(&dir);

        let mut all_sites: std::collections::BTreeMap<String, u64> = Default::default();
        for r in results {
            let capped = r.name.ends_with("CAPPED");
            let name = r.name.trim_end_matches(" CAPPED").to_string();
            let mut extra = std::collections::BTreeMap::new();
            extra.insert("ok".to_string(), json!(r.counters[C_OK]));
            extra.insert("io_error".to_string(), json!(r.counters[C_ERR]));
            extra.insert("panic_or_abort_cases".to_string(), json!(r.counters[C_PANIC]));
            extra.insert("non_termination_or_hang_cases".to_string(), json!(r.counters[C_NONTERM]));
            extra.insert("trivial_skipped".to_string(), json!(r.counters[C_TRIVIAL]));
            extra.insert("big_alloc_not_judged".to_string(), json!(r.counters[C_BIG]));
            extra.insert("big_alloc_sites".to_string(), json!(r.big_alloc_sites));
            extra.insert("workers_restarted".to_string(), json!(r.workers_restarted));
            extra.insert("slow_cases_not_hangs".to_string(), json!(r.slow_cases));
            extra.insert("engine".to_string(), json!("E3 complete sweep in forked workers (per-case deadline 6 s of CPU time, allocation guard)"));
            for (k, v) in &r.big_alloc_sites {
                *all_sites.entry(k.clone()).or_insert(0) += v;
            }
            eprintln!(
                "[C15] stage {name}: ok={} io_error={} panic/abort={} nonterm/hang={} trivial={} big_alloc={} restarts={}",
                r.counters[C_OK], r.counters[C_ERR], r.counters[C_PANIC], r.counters[C_NONTERM], r.counters[C_TRIVIAL], r.counters[C_BIG], r.workers_restarted
            );
            let found = r
                .findings
                .into_values()
                .map(|(f, count)| {
                    let payload: Value = vmc::serde_json::from_str(&f.payload).unwrap_or(Value::Null);
                    (Violation::new(f.fingerprint, f.decoded, f.expected, f.observed), payload, count)
                })
                .collect();
            let sample_stage_name = name.clone();
            ctx.custom(Custom {
                name,
                evaluations: r.cases,
                distinct: r.classes.len() as u64,
                states: r.classes.len() as u64,
                transitions: r.cases,
                exhaustive: !capped,
                capped: if capped { Some(format!("time_limit={}s", limit.as_secs())) } else { None },
                samples: {
                    // actual cases of this stage, written out: the first, a middle and the last one
                    let mut v = Vec::new();
                    if let Some(si) = (0..plan.n_stages()).find(|si| plan.stage_name(*si) == sample_stage_name) {
                        for c in [0, r.cases / 2, r.cases.saturating_sub(1)] {
                            let d = plan.describe(si, c).0;
                            let mut end = d.len().min(300);
                            while !d.is_char_boundary(end) {
                                end -= 1;
                            }
                            v.push(d[..end].to_string());
                        }
                    }
                    v
                },
                extra,
                found,
                wall_s: r.wall_s,
                ..Default::default()
            });
        }
        ctx.extra("big_alloc_sites_all_stages", json!(all_sites));

        // evidence for the nesting family: the smallest depth that overflows each stack size, per entry
        // (thorough only: ~40 isolated probes per entry, each a fork of this process)
        if thorough && only.as_ref().map(|o| "nesting".contains(o.as_str())).unwrap_or(true) {
            let t = std::time::Instant::now();
            let mut m = vmc::serde_json::Map::new();
            for entry in nest::Entry::ALL.into_iter().filter(|e| e.has_payload()) {
                let mut per = vmc::serde_json::Map::new();
                for stack in nest::STACKS {
                    let v = match min_overflow_depth(plan, entry, stack) {
                        Some((d, n)) => json!({"min_depth": d, "input_bytes": n}),
                        None => json!("no overflow up to depth 200000"),
                    };
                    per.insert(format!("stack={}MiB", stack >> 20), v);
                }
                m.insert(entry.name().to_string(), Value::Object(per));
            }
            eprintln!("[C15] nesting: smallest overflowing depth per entry and stack size ({:.1}s): {}", t.elapsed().as_secs_f64(), Value::Object(m.clone()));
            ctx.extra("nesting_stack_overflow_min_depth", Value::Object(m));
        }
    });
}
