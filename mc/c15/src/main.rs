fn main() {
    println!("MACHINERY-ERROR property=C15 check not built yet");
    std::process::exit(2);
}
