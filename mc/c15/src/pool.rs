//! Process-isolated case runner for hostile inputs.
//!
//! The parent (single-threaded) forks worker processes that inherit the corpus and the case tables. Every
//! worker publishes the case it is executing in a shared-memory slot, so that
//!  * a case exceeding the per-case deadline (hang) is identified, reported, and the worker killed and replaced;
//!  * a worker that dies (stack overflow, abort) is bisected to the single case for free: it is the published one;
//!  * an allocation request >= 16 GiB (which would abort the process) or in [256 MiB, 16 GiB) is intercepted by
//!    the counting `GlobalAlloc` wrapper below: the requesting site is recorded, the requesting thread is parked
//!    for good (unwinding out of an allocator is not sound; `__rust_alloc` is `nounwind`), and a fresh worker
//!    thread continues with the next case. Workers are recycled after `MAX_PARKED` parked threads.

use std::{
    alloc::{GlobalAlloc, Layout, System},
    cell::Cell,
    collections::BTreeMap,
    io::Write,
    path::PathBuf,
    sync::{
        Mutex,
        atomic::{AtomicPtr, AtomicU32, AtomicU64, Ordering::*},
    },
    time::{Duration, Instant},
};

pub const BIG_ALLOC: usize = 256 << 20;
pub const ABORT_ALLOC: usize = 16 << 30;
const MAX_PARKED: u32 = 32;
/// A case whose process-wide live heap would exceed this is cut short like a big allocation.
pub const LIVE_CAP: usize = 1 << 30;
/// A worker process holding more than this after a parked thread is recycled at once.
const RECYCLE_LIVE: usize = 96 << 20;
static LIVE: std::sync::atomic::AtomicUsize = std::sync::atomic::AtomicUsize::new(0);
// 2^24-item count-driven lazy iterators (BCF n_sample) are finite but take ~1.8 s of CPU to drain: the
// deadline must stay clear of them, or a loaded machine turns them into false hangs.
pub const CASE_DEADLINE: Duration = Duration::from_secs(6);

// slot states (parent <-> child)
const IDLE: u32 = 0;
const ASSIGNED: u32 = 1;
const RUNNING: u32 = 2;
const QUIT: u32 = 3;
const RECYCLE: u32 = 4;
// worker thread states (worker -> monitor)
const W_RUN: u32 = 0;
const W_DONE: u32 = 1;
const W_PARKED_BIG: u32 = 2;
const W_PARKED_ABORT: u32 = 3;

pub const N_COUNTERS: usize = 8;
pub const C_CASES: usize = 0;
pub const C_OK: usize = 1;
pub const C_ERR: usize = 2;
pub const C_PANIC: usize = 3;
pub const C_NONTERM: usize = 4;
pub const C_TRIVIAL: usize = 5;
pub const C_BIG: usize = 6;

#[repr(C)]
pub struct Slot {
    state: AtomicU32,
    wstate: AtomicU32,
    stage: AtomicU32,
    start: AtomicU64,
    end: AtomicU64,
    /// The case being executed (valid while RUNNING).
    cur: AtomicU64,
    /// 1 while a case is being executed (the deadline applies only then).
    in_case: AtomicU32,
    pub counters: [AtomicU64; N_COUNTERS],
    event_len: AtomicU32,
    event_size: AtomicU64,
    event: [std::sync::atomic::AtomicU8; 1024],
}

static SLOT: AtomicPtr<Slot> = AtomicPtr::new(std::ptr::null_mut());

thread_local! {
    static ARMED: Cell<bool> = const { Cell::new(false) };
    static BUSY: Cell<bool> = const { Cell::new(false) };
}

/// Counting allocator wrapper (installed as the global allocator of the c15 binary).
pub struct GuardAlloc;

impl GuardAlloc {
    #[inline]
    fn check(&self, size: usize) {
        if size >= BIG_ALLOC || (size >= 4096 && LIVE.load(Relaxed).saturating_add(size) > LIVE_CAP) {
            self.big(size);
        }
    }

    #[cold]
    fn big(&self, size: usize) {
        let armed = ARMED.try_with(|a| a.get()).unwrap_or(false);
        let busy = BUSY.try_with(|b| b.get()).unwrap_or(true);
        if !armed || busy {
            return;
        }
        let _ = BUSY.try_with(|b| b.set(true));
        let site = capture_site();
        let slot = SLOT.load(Acquire);
        if slot.is_null() {
            // not inside a pool worker (replay in-process): report through a panic-free abort path
            eprintln!("big allocation of {size} bytes requested at {site}");
            unsafe { libc::_exit(79) };
        }
        let slot = unsafe { &*slot };
        let bytes = site.as_bytes();
        let n = bytes.len().min(1024);
        for (i, b) in bytes[..n].iter().enumerate() {
            slot.event[i].store(*b, Relaxed);
        }
        slot.event_len.store(n as u32, Relaxed);
        slot.event_size.store(size as u64, Relaxed);
        slot.wstate.store(if size >= ABORT_ALLOC { W_PARKED_ABORT } else { W_PARKED_BIG }, Release);
        // park this thread for good: the case is cut short without unwinding through the allocator
        loop {
            unsafe { libc::sleep(3600) };
        }
    }
}

unsafe impl GlobalAlloc for GuardAlloc {
    unsafe fn alloc(&self, l: Layout) -> *mut u8 {
        self.check(l.size());
        LIVE.fetch_add(l.size(), Relaxed);
        unsafe { System.alloc(l) }
    }
    unsafe fn dealloc(&self, p: *mut u8, l: Layout) {
        LIVE.fetch_sub(l.size(), Relaxed);
        unsafe { System.dealloc(p, l) }
    }
    unsafe fn alloc_zeroed(&self, l: Layout) -> *mut u8 {
        self.check(l.size());
        LIVE.fetch_add(l.size(), Relaxed);
        unsafe { System.alloc_zeroed(l) }
    }
    unsafe fn realloc(&self, p: *mut u8, l: Layout, n: usize) -> *mut u8 {
        if n > l.size() {
            self.check(n - l.size());
            LIVE.fetch_add(n - l.size(), Relaxed);
        } else {
            LIVE.fetch_sub(l.size() - n, Relaxed);
        }
        if n >= BIG_ALLOC {
            self.check(n);
        }
        unsafe { System.realloc(p, l, n) }
    }
}

/// First two `noodles_*` frames of the current backtrace (function names only, no line numbers, no hashes).
fn capture_site() -> String {
    let bt = std::backtrace::Backtrace::force_capture().to_string();
    let mut frames: Vec<String> = Vec::new();
    for line in bt.lines() {
        let l = line.trim();
        // "12: noodles_bam::io::reader::header::read_reference_sequences"
        let Some((idx, name)) = l.split_once(": ") else { continue };
        if !idx.chars().all(|c| c.is_ascii_digit()) {
            continue;
        }
        if !(name.starts_with("noodles_") || name.starts_with("<noodles_")) {
            continue;
        }
        let mut name = name.to_string();
        if let Some(p) = name.rfind("::h") {
            if name[p + 3..].len() == 16 && name[p + 3..].chars().all(|c| c.is_ascii_hexdigit()) {
                name.truncate(p);
            }
        }
        let name: String = name.chars().map(|c| if c.is_whitespace() { '_' } else { c }).collect();
        if frames.last() != Some(&name) {
            frames.push(name);
        }
        if frames.len() == 2 {
            break;
        }
    }
    if frames.is_empty() { "<no-noodles-frame>".into() } else { frames.join("<-") }
}

/// Makes the symbolication caches warm in the parent so that forked children inherit them.
pub fn prewarm() {
    let _ = capture_site();
}

pub fn arm(on: bool) {
    ARMED.with(|a| a.set(on));
}

// ------------------------------------------------------------------------------------------ results

#[derive(Clone, Debug)]
pub struct Finding {
    pub fingerprint: String,
    pub decoded: String,
    pub expected: String,
    pub observed: String,
    /// JSON replay payload (as text).
    pub payload: String,
    pub stage: u32,
    pub case: u64,
}

#[derive(Clone, Debug)]
pub enum Verdict {
    /// Outcome was Ok or io::Error; `class` identifies the outcome class (vacuity evidence).
    Fine { class: u64, ok: bool },
    /// The case was trivially skipped (mutation equals the original).
    Trivial,
    Violation(Finding),
}

pub trait Stages: Sync {
    fn n_stages(&self) -> u32;
    /// Normalised panic message for the fingerprint (default: vmc's; a stage whose inputs put their own text into
    /// the message overrides it).
    fn norm_panic_msg(&self, _stage: u32, msg: &str) -> String {
        vmc::normalise_msg(msg)
    }
    /// The order in which the stages run (default: by index).
    fn order(&self) -> Vec<u32> {
        (0..self.n_stages()).collect()
    }
    fn stage_name(&self, stage: u32) -> String;
    fn stage_len(&self, stage: u32) -> u64;
    /// Runs one case; may panic (caught by the pool), hang (watchdog) or request a huge allocation (guard).
    fn run(&self, stage: u32, case: u64) -> Verdict;
    /// Description and replay payload of a case, for findings produced by the pool itself (panic / hang / crash).
    fn describe(&self, stage: u32, case: u64) -> (String, String, String);
    /// `key=value` words identifying format / entry point of the case, for pool-made fingerprints.
    fn fp_prefix(&self, stage: u32, case: u64) -> String;
}

#[derive(Default, Debug)]
pub struct StageResult {
    pub name: String,
    pub cases: u64,
    pub counters: [u64; N_COUNTERS],
    pub classes: std::collections::HashSet<u64>,
    /// fingerprint -> (finding with the smallest case index, count)
    pub findings: BTreeMap<String, (Finding, u64)>,
    /// big-allocation sites -> count (not judged)
    pub big_alloc_sites: BTreeMap<String, u64>,
    pub wall_s: f64,
    pub workers_restarted: u64,
    /// Cases that exceeded the CPU deadline under load but finished in the isolated re-run (not hangs).
    pub slow_cases: u64,
}

/// Strips machine-specific prefixes from a panic location (cargo registry, rustc source hash).
pub fn norm_file(f: &str) -> String {
    if let Some(p) = f.find("/registry/src/") {
        let rest = &f[p + "/registry/src/".len()..];
        return rest.split_once('/').map(|x| x.1.to_string()).unwrap_or_else(|| rest.to_string());
    }
    if let Some(rest) = f.strip_prefix("/rustc/") {
        return rest.split_once('/').map(|x| x.1.to_string()).unwrap_or_else(|| rest.to_string());
    }
    f.to_string()
}

fn slow_ms() -> u64 {
    static V: std::sync::OnceLock<u64> = std::sync::OnceLock::new();
    *V.get_or_init(|| std::env::var("C15_SLOW").ok().and_then(|s| s.parse().ok()).unwrap_or(0))
}

fn esc(s: &str) -> String {
    s.replace('\\', "\\\\").replace('\t', "\\t").replace('\n', "\\n").replace('\r', "\\r")
}
fn unesc(s: &str) -> String {
    let mut out = String::new();
    let mut it = s.chars();
    while let Some(c) = it.next() {
        if c == '\\' {
            match it.next() {
                Some('t') => out.push('\t'),
                Some('n') => out.push('\n'),
                Some('r') => out.push('\r'),
                Some('\\') => out.push('\\'),
                Some(o) => out.push(o),
                None => {}
            }
        } else {
            out.push(c);
        }
    }
    out
}

fn finding_line(f: &Finding) -> String {
    format!("V\t{}\t{}\t{}\t{}\t{}\t{}\t{}\n", f.stage, f.case, esc(&f.fingerprint), esc(&f.decoded), esc(&f.expected), esc(&f.observed), esc(&f.payload))
}

struct Log {
    file: Mutex<std::fs::File>,
}

impl Log {
    fn write(&self, s: &str) {
        let mut f = self.file.lock().unwrap_or_else(|e| e.into_inner());
        let _ = f.write_all(s.as_bytes());
        let _ = f.flush();
    }
}

// ------------------------------------------------------------------------------------------ child

fn worker_loop<S: Stages>(st: &S, slot: &Slot, log: &Log, stage: u32, start: u64, end: u64, classes: &Mutex<std::collections::HashSet<u64>>) {
    vmc::explore::install_panic_hook();
    let mut local: std::collections::HashSet<u64> = std::collections::HashSet::new();
    for case in start..end {
        slot.cur.store(case, Relaxed);
        slot.in_case.store(1, Release);
        arm(true);
        let t_case = Instant::now();
        let r = vmc::catch(|| st.run(stage, case));
        arm(false);
        if slow_ms() > 0 && t_case.elapsed().as_millis() as u64 >= slow_ms() {
            log.write(&format!("S\t{stage}\t{case}\t{}\t{}\n", t_case.elapsed().as_millis(), esc(&st.describe(stage, case).0.chars().take(300).collect::<String>())));
        }
        slot.in_case.store(0, Release);
        slot.counters[C_CASES].fetch_add(1, Relaxed);
        match r {
            Ok(Verdict::Fine { class, ok }) => {
                slot.counters[if ok { C_OK } else { C_ERR }].fetch_add(1, Relaxed);
                local.insert(class);
            }
            Ok(Verdict::Trivial) => {
                slot.counters[C_TRIVIAL].fetch_add(1, Relaxed);
            }
            Ok(Verdict::Violation(f)) => {
                slot.counters[C_NONTERM].fetch_add(1, Relaxed);
                log.write(&finding_line(&f));
            }
            Err((msg, file)) => {
                slot.counters[C_PANIC].fetch_add(1, Relaxed);
                let (decoded, _, payload) = st.describe(stage, case);
                let overflow = if msg.contains("overflow") && msg.starts_with("attempt to") { " overflow-check=yes" } else { "" };
                let file = norm_file(&file);
                let f = Finding {
                    fingerprint: format!("{} outcome=panic{overflow} msg={} file={}", st.fp_prefix(stage, case), st.norm_panic_msg(stage, &msg), file),
                    decoded,
                    expected: "Ok or io::Error".into(),
                    observed: format!("panic: {msg} in {file}"),
                    payload,
                    stage,
                    case,
                };
                log.write(&finding_line(&f));
            }
        }
    }
    if let Ok(mut g) = classes.lock() {
        if g.len() < 4_000_000 {
            g.extend(local);
        }
    }
    slot.wstate.store(W_DONE, Release);
}

/// Sends the process's stderr to `path` (truncated): the parent reads it when the process dies (the Rust runtime
/// reports a stack overflow there before it aborts).
fn redirect_stderr(path: &std::path::Path) {
    use std::os::unix::ffi::OsStrExt;
    let Ok(c) = std::ffi::CString::new(path.as_os_str().as_bytes()) else { return };
    unsafe {
        let fd = libc::open(c.as_ptr(), libc::O_CREAT | libc::O_WRONLY | libc::O_TRUNC | libc::O_APPEND, 0o600);
        if fd >= 0 {
            libc::dup2(fd, 2);
            libc::close(fd);
        }
    }
}

pub const STACK_OVERFLOW_MSG: &str = "has overflowed its stack";

/// How a process died, from its wait status and what it wrote to stderr: a stack overflow (the runtime's guard-page
/// handler prints "thread '..' has overflowed its stack" and aborts) is its own outcome.
fn death_outcome(status: i32, stderr_path: &std::path::Path) -> (String, String) {
    let err = std::fs::read(stderr_path).map(|b| String::from_utf8_lossy(&b[b.len().saturating_sub(4096)..]).into_owned()).unwrap_or_default();
    let sig = if libc::WIFSIGNALED(status) { signal_name(libc::WTERMSIG(status)).to_string() } else { format!("exit status {}", libc::WEXITSTATUS(status)) };
    if let Some(line) = err.lines().find(|l| l.contains(STACK_OVERFLOW_MSG)).or_else(|| err.lines().find(|l| l.contains("fatal runtime error: stack overflow"))) {
        return ("outcome=abort cause=stack-overflow".into(), format!("stack overflow: the process wrote \"{}\" to stderr and died ({sig})", line.trim()));
    }
    let how = if libc::WIFSIGNALED(status) { format!("crash signal={sig}") } else { format!("exit status={}", libc::WEXITSTATUS(status)) };
    let tail: String = err.lines().rev().take(2).collect::<Vec<_>>().join(" | ");
    (format!("outcome={how}"), format!("the process died ({how}){}", if tail.is_empty() { String::new() } else { format!("; stderr: {tail}") }))
}

fn child_main<S: Stages>(st: &'static S, slot: &'static Slot, log_path: PathBuf) -> ! {
    // do not outlive the parent
    unsafe { libc::prctl(libc::PR_SET_PDEATHSIG, libc::SIGKILL) };
    SLOT.store(slot as *const Slot as *mut Slot, Release);
    redirect_stderr(&log_path.with_extension("err"));
    let file = std::fs::OpenOptions::new().create(true).append(true).open(&log_path).unwrap_or_else(|_| unsafe { libc::_exit(90) });
    let log: &'static Log = Box::leak(Box::new(Log { file: Mutex::new(file) }));
    let classes: &'static Mutex<std::collections::HashSet<u64>> = Box::leak(Box::new(Mutex::new(Default::default())));
    let mut parked = 0u32;
    let flush_classes = |stage: u32| {
        let mut g = classes.lock().unwrap_or_else(|e| e.into_inner());
        let mut s = String::new();
        for c in g.drain() {
            s.push_str(&format!("C\t{stage}\t{c}\n"));
        }
        if !s.is_empty() {
            log.write(&s);
        }
    };
    loop {
        match slot.state.load(Acquire) {
            QUIT => unsafe { libc::_exit(0) },
            ASSIGNED => {
                let stage = slot.stage.load(Relaxed);
                let mut start = slot.start.load(Relaxed);
                let end = slot.end.load(Relaxed);
                slot.cur.store(start, Relaxed);
                slot.state.store(RUNNING, Release);
                'chunk: loop {
                    slot.wstate.store(W_RUN, Release);
                    let spawned = std::thread::Builder::new().stack_size(8 << 20).spawn(move || worker_loop(st, slot, log, stage, start, end, classes));
                    if spawned.is_err() {
                        unsafe { libc::_exit(91) };
                    }
                    loop {
                        match slot.wstate.load(Acquire) {
                            W_DONE => break 'chunk,
                            w @ (W_PARKED_BIG | W_PARKED_ABORT) => {
                                let n = slot.event_len.load(Relaxed) as usize;
                                let site: String = (0..n).map(|i| slot.event[i].load(Relaxed) as char).collect();
                                let case = slot.cur.load(Relaxed);
                                slot.in_case.store(0, Release);
                                slot.counters[C_CASES].fetch_add(1, Relaxed);
                                if w == W_PARKED_ABORT {
                                    slot.counters[C_PANIC].fetch_add(1, Relaxed);
                                    let (decoded, _, payload) = st.describe(stage, case);
                                    let f = Finding {
                                        fingerprint: format!("{} outcome=abort cause=allocation>=16GiB site={site}", st.fp_prefix(stage, case)),
                                        decoded,
                                        expected: "Ok or io::Error".into(),
                                        observed: format!("a single allocation of {} bytes was requested (the process would abort in handle_alloc_error) at {site}", slot.event_size.load(Relaxed)),
                                        payload,
                                        stage,
                                        case,
                                    };
                                    log.write(&finding_line(&f));
                                } else {
                                    slot.counters[C_BIG].fetch_add(1, Relaxed);
                                    log.write(&format!("B\t{stage}\t{case}\t{}\n", esc(&site)));
                                }
                                parked += 1;
                                start = case + 1;
                                if start >= end {
                                    break 'chunk;
                                }
                                if parked >= MAX_PARKED || LIVE.load(Relaxed) > RECYCLE_LIVE {
                                    // hand the rest of the chunk back and let the parent fork a fresh worker
                                    flush_classes(stage);
                                    slot.start.store(start, Relaxed);
                                    slot.state.store(RECYCLE, Release);
                                    unsafe { libc::_exit(0) };
                                }
                                continue 'chunk;
                            }
                            _ => std::thread::sleep(Duration::from_micros(300)),
                        }
                    }
                }
                flush_classes(stage);
                if parked >= MAX_PARKED || (parked > 0 && LIVE.load(Relaxed) > RECYCLE_LIVE) {
                    slot.start.store(end, Relaxed);
                    slot.state.store(RECYCLE, Release);
                    unsafe { libc::_exit(0) };
                }
                slot.state.store(IDLE, Release);
            }
            _ => std::thread::sleep(Duration::from_micros(200)),
        }
    }
}

// ------------------------------------------------------------------------------------------ parent

struct Child {
    pid: libc::pid_t,
    /// (case, when the parent first saw it being executed)
    seen: Option<(u64, Instant)>,
    /// CPU seconds of the worker process when the case had been running for 1 s of wall time, and when that
    /// was last sampled.
    cpu0: Option<(f64, Instant)>,
    /// The chunk this child is working on.
    chunk: Option<(u32, u64, u64)>,
}

fn signal_name(sig: i32) -> &'static str {
    match sig {
        libc::SIGSEGV => "SIGSEGV",
        libc::SIGABRT => "SIGABRT",
        libc::SIGBUS => "SIGBUS",
        libc::SIGILL => "SIGILL",
        libc::SIGKILL => "SIGKILL",
        libc::SIGFPE => "SIGFPE",
        _ => "signal",
    }
}

/// CPU seconds (user + system) consumed so far by a process.
fn cpu_seconds(pid: libc::pid_t) -> Option<f64> {
    let stat = std::fs::read_to_string(format!("/proc/{pid}/stat")).ok()?;
    let rest = &stat[stat.rfind(')')? + 2..];
    let f: Vec<&str> = rest.split(' ').collect();
    // fields after "pid (comm) ": state is index 0, utime index 11, stime index 12
    let ut: f64 = f.get(11)?.parse().ok()?;
    let stt: f64 = f.get(12)?.parse().ok()?;
    let hz = unsafe { libc::sysconf(libc::_SC_CLK_TCK) } as f64;
    Some((ut + stt) / hz.max(1.0))
}

/// Wall-clock limit of the isolated confirmation run of a suspected hang.
pub const CONFIRM_DEADLINE: Duration = Duration::from_secs(15);
/// A case that is blocked (no CPU use) is given up after this long.
const BLOCKED_DEADLINE: Duration = Duration::from_secs(60);

fn verdict_line(v: &Result<Verdict, (String, String)>) -> String {
    match v {
        Ok(Verdict::Fine { .. }) => "FINE".into(),
        Ok(Verdict::Trivial) => "FINE".into(),
        Ok(Verdict::Violation(f)) => finding_line(f),
        Err((msg, file)) => format!("PANIC\t{}\t{}", esc(msg), esc(file)),
    }
}

/// Runs all stages in forked workers. Must be called from a single-threaded process.
pub fn run_stages<S: Stages>(st: &'static S, workers: usize, dir: &std::path::Path, stage_filter: impl Fn(u32) -> bool, time_limit: Option<Duration>) -> Vec<StageResult> {
    let _ = std::fs::create_dir_all(dir);
    prewarm();
    let n = workers.max(1);
    let bytes = std::mem::size_of::<Slot>() * n;
    let mem = unsafe { libc::mmap(std::ptr::null_mut(), bytes, libc::PROT_READ | libc::PROT_WRITE, libc::MAP_SHARED | libc::MAP_ANONYMOUS, -1, 0) };
    if mem == libc::MAP_FAILED {
        vmc::machinery("c15: mmap of the shared slots failed");
    }
    // zeroed memory is a valid Slot (all atomics 0)
    let slots: &'static [Slot] = unsafe { std::slice::from_raw_parts(mem as *const Slot, n) };
    let mut children: Vec<Option<Child>> = (0..n).map(|_| None).collect();
    let mut results = Vec::new();
    let t_all = Instant::now();
    let mut confirmed_hangs: std::collections::HashSet<String> = Default::default();

    let spawn = |i: usize| -> Child {
        let slot = &slots[i];
        slot.state.store(IDLE, Release);
        slot.in_case.store(0, Release);
        let path = dir.join(format!("worker-{i}.log"));
        let pid = unsafe { libc::fork() };
        if pid < 0 {
            vmc::machinery("c15: fork failed");
        }
        if pid == 0 {
            child_main(st, slot, path);
        }
        Child { pid, seen: None, cpu0: None, chunk: None }
    };

    let order: Vec<u32> = st.order().into_iter().filter(|s| stage_filter(*s)).collect();
    for &stage in &order {
        let t0 = Instant::now();
        let total = st.stage_len(stage);
        let name = st.stage_name(stage);
        eprintln!("[C15] stage {name}: {total} cases ...");
        let mut res = StageResult { name: name.clone(), ..Default::default() };
        let chunk = (total / (n as u64 * 128)).clamp(1, 50_000);
        let mut queue: Vec<(u64, u64)> = Vec::new();
        let mut p = 0;
        while p < total {
            queue.push((p, (p + chunk).min(total)));
            p += chunk;
        }
        queue.reverse();
        let mut extra: Vec<Finding> = Vec::new();
        let mut capped = false;
        let mut slow_cases = 0u64;
        // counters are cumulative per slot: remember the baseline
        let base: Vec<[u64; N_COUNTERS]> = slots.iter().map(|s| std::array::from_fn(|k| s.counters[k].load(Relaxed))).collect();
        loop {
            let mut busy = 0;
            for i in 0..n {
                if children[i].is_none() {
                    if queue.is_empty() {
                        continue;
                    }
                    children[i] = Some(spawn(i));
                }
                let slot = &slots[i];
                let c = children[i].as_mut().unwrap();
                // exited?
                let mut status = 0;
                let w = unsafe { libc::waitpid(c.pid, &mut status, libc::WNOHANG) };
                if w == c.pid {
                    let state = slot.state.load(Acquire);
                    if let Some((stg, _s, e)) = c.chunk.take() {
                        if state == RECYCLE {
                            let s2 = slot.start.load(Relaxed);
                            if s2 < e {
                                queue.push((s2, e));
                            }
                        } else {
                            // died while running a case
                            let case = slot.cur.load(Relaxed);
                            let (outcome, how) = death_outcome(status, &dir.join(format!("worker-{i}.err")));
                            let (decoded, _, payload) = st.describe(stg, case);
                            if std::env::var("C15_DEBUG_DEATHS").is_ok() {
                                eprintln!("[death] stage={stg} case={case} {outcome}");
                            }
                            extra.push(Finding {
                                fingerprint: format!("{} {outcome}", st.fp_prefix(stg, case)),
                                decoded,
                                expected: "Ok or io::Error".into(),
                                observed: format!("while executing this case in a pool worker: {how}"),
                                payload,
                                stage: stg,
                                case,
                            });
                            slot.counters[C_CASES].fetch_add(1, Relaxed);
                            slot.counters[C_PANIC].fetch_add(1, Relaxed);
                            if case + 1 < e {
                                queue.push((case + 1, e));
                            }
                        }
                        res.workers_restarted += 1;
                    }
                    children[i] = None;
                    busy += 1; // re-examine this slot in the next round
                    continue;
                }
                match slot.state.load(Acquire) {
                    IDLE => {
                        c.chunk = None;
                        c.seen = None;
                        if let Some((s, e)) = queue.pop() {
                            slot.stage.store(stage, Relaxed);
                            slot.start.store(s, Relaxed);
                            slot.end.store(e, Relaxed);
                            slot.cur.store(s, Relaxed);
                            c.chunk = Some((stage, s, e));
                            slot.state.store(ASSIGNED, Release);
                            busy += 1;
                        }
                    }
                    ASSIGNED => busy += 1,
                    RUNNING => {
                        busy += 1;
                        let cur = slot.cur.load(Relaxed);
                        let in_case = slot.in_case.load(Acquire) == 1;
                        match c.seen {
                            Some((k, t)) if k == cur && in_case => {
                                let wall = t.elapsed();
                                let mut hung = wall > BLOCKED_DEADLINE;
                                if wall > Duration::from_millis(400) {
                                    match c.cpu0 {
                                        None => c.cpu0 = cpu_seconds(c.pid).map(|x| (x, Instant::now())),
                                        Some((base, last)) if last.elapsed() > Duration::from_millis(100) => {
                                            if let Some(now) = cpu_seconds(c.pid) {
                                                if now - base > CASE_DEADLINE.as_secs_f64() {
                                                    hung = true;
                                                }
                                                c.cpu0 = Some((base, Instant::now()));
                                            }
                                        }
                                        _ => {}
                                    }
                                }
                                if hung {
                                    // suspected hang: kill the worker, hand the rest of the chunk back
                                    unsafe {
                                        libc::kill(c.pid, libc::SIGKILL);
                                        let mut st2 = 0;
                                        libc::waitpid(c.pid, &mut st2, 0);
                                    }
                                    if let Some((stg, _s, e)) = c.chunk.take() {
                                        let fp = format!("{} outcome=hang", st.fp_prefix(stg, cur));
                                        // the first suspect of a class is confirmed in isolation with a longer deadline
                                        let confirmed = if confirmed_hangs.contains(&fp) {
                                            true
                                        } else {
                                            let r = run_isolated(
                                                || {
                                                    arm(false);
                                                    verdict_line(&vmc::catch(|| st.run(stg, cur)))
                                                },
                                                CONFIRM_DEADLINE,
                                            );
                                            match r {
                                                Err(e) if e.contains("hang") => {
                                                    confirmed_hangs.insert(fp.clone());
                                                    true
                                                }
                                                Err(e) => {
                                                    // died in isolation: a crash, reported as such
                                                    let (decoded, _, payload) = st.describe(stg, cur);
                                                    extra.push(Finding {
                                                        fingerprint: format!("{} {e}", st.fp_prefix(stg, cur)),
                                                        decoded,
                                                        expected: "Ok or io::Error".into(),
                                                        observed: format!("the isolated re-run died: {e}"),
                                                        payload,
                                                        stage: stg,
                                                        case: cur,
                                                    });
                                                    false
                                                }
                                                Ok(line) => {
                                                    slow_cases += 1;
                                                    let parts: Vec<&str> = line.trim_end().split('\t').collect();
                                                    match parts.as_slice() {
                                                        ["V", stage, case, fp, decoded, expected, observed, payload] => {
                                                            if let (Ok(stage), Ok(case)) = (stage.parse(), case.parse()) {
                                                                extra.push(Finding { fingerprint: unesc(fp), decoded: unesc(decoded), expected: unesc(expected), observed: unesc(observed), payload: unesc(payload), stage, case });
                                                            }
                                                        }
                                                        ["PANIC", msg, file] => {
                                                            let (decoded, _, payload) = st.describe(stg, cur);
                                                            let msg = unesc(msg);
                                                            extra.push(Finding {
                                                                fingerprint: format!("{} outcome=panic msg={} file={}", st.fp_prefix(stg, cur), st.norm_panic_msg(stg, &msg), norm_file(&unesc(file))),
                                                                decoded,
                                                                expected: "Ok or io::Error".into(),
                                                                observed: format!("panic: {msg}"),
                                                                payload,
                                                                stage: stg,
                                                                case: cur,
                                                            });
                                                        }
                                                        _ => {}
                                                    }
                                                    false
                                                }
                                            }
                                        };
                                        if confirmed {
                                            let (decoded, _, payload) = st.describe(stg, cur);
                                            extra.push(Finding {
                                                fingerprint: fp,
                                                decoded,
                                                expected: format!("Ok or io::Error within {} s of CPU time", CASE_DEADLINE.as_secs()),
                                                observed: format!("no result after {} s of CPU time (and, for the first case of this class, {} s in an isolated re-run); the worker was killed", CASE_DEADLINE.as_secs(), CONFIRM_DEADLINE.as_secs()),
                                                payload,
                                                stage: stg,
                                                case: cur,
                                            });
                                            slot.counters[C_NONTERM].fetch_add(1, Relaxed);
                                        }
                                        slot.counters[C_CASES].fetch_add(1, Relaxed);
                                        // hangs cluster: spread the rest of the chunk over the workers
                                        let rest = e.saturating_sub(cur + 1);
                                        // once the time limit was hit nothing is queued again (the stage is reported as capped)
                                        let over = capped || time_limit.map(|l| t_all.elapsed() > l).unwrap_or(false);
                                        if rest > 0 && over {
                                            capped = true;
                                        }
                                        if rest > 0 && !over {
                                            let piece = rest.div_ceil(n as u64).max(1);
                                            let mut p = cur + 1;
                                            while p < e {
                                                queue.push((p, (p + piece).min(e)));
                                                p += piece;
                                            }
                                        }
                                    }
                                    res.workers_restarted += 1;
                                    children[i] = None;
                                }
                            }
                            _ => {
                                c.seen = Some((cur, Instant::now()));
                                c.cpu0 = None;
                            }
                        }
                    }
                    _ => busy += 1,
                }
            }
            if busy == 0 && queue.is_empty() {
                break;
            }
            if let Some(l) = time_limit {
                if t_all.elapsed() > l && !queue.is_empty() {
                    capped = true;
                    queue.clear();
                }
            }
            std::thread::sleep(Duration::from_micros(500));
        }
        for (i, s) in slots.iter().enumerate() {
            for k in 0..N_COUNTERS {
                res.counters[k] += s.counters[k].load(Relaxed) - base[i][k];
            }
        }
        res.cases = res.counters[C_CASES];
        res.slow_cases = slow_cases;
        res.wall_s = t0.elapsed().as_secs_f64();
        if capped {
            res.name = format!("{name} CAPPED");
        }
        for f in extra {
            let e = res.findings.entry(f.fingerprint.clone()).or_insert((f.clone(), 0));
            e.1 += 1;
            if f.case < e.0.case {
                e.0 = f;
            }
        }
        results.push(res);
    }
    // stop the workers
    for i in 0..n {
        if let Some(c) = &children[i] {
            slots[i].state.store(QUIT, Release);
            let t = Instant::now();
            loop {
                let mut status = 0;
                let w = unsafe { libc::waitpid(c.pid, &mut status, libc::WNOHANG) };
                if w == c.pid {
                    break;
                }
                if t.elapsed() > Duration::from_secs(3) {
                    unsafe {
                        libc::kill(c.pid, libc::SIGKILL);
                        libc::waitpid(c.pid, &mut status, 0);
                    }
                    break;
                }
                std::thread::sleep(Duration::from_millis(1));
            }
        }
    }
    // collect the worker logs
    let stage_pos: BTreeMap<u32, usize> = {
        let mut m = BTreeMap::new();
        for (k, &stage) in order.iter().enumerate() {
            m.insert(stage, k);
        }
        m
    };
    for i in 0..n {
        let path = dir.join(format!("worker-{i}.log"));
        let Ok(text) = std::fs::read_to_string(&path) else { continue };
        for line in text.lines() {
            let parts: Vec<&str> = line.split('\t').collect();
            match parts.as_slice() {
                ["V", stage, case, fp, decoded, expected, observed, payload] => {
                    let (Ok(stage), Ok(case)) = (stage.parse::<u32>(), case.parse::<u64>()) else { continue };
                    let Some(&pos) = stage_pos.get(&stage) else { continue };
                    let f = Finding { fingerprint: unesc(fp), decoded: unesc(decoded), expected: unesc(expected), observed: unesc(observed), payload: unesc(payload), stage, case };
                    let e = results[pos].findings.entry(f.fingerprint.clone()).or_insert((f.clone(), 0));
                    e.1 += 1;
                    if f.case < e.0.case {
                        e.0 = f;
                    }
                }
                ["B", stage, _case, site] => {
                    let Ok(stage) = stage.parse::<u32>() else { continue };
                    let Some(&pos) = stage_pos.get(&stage) else { continue };
                    *results[pos].big_alloc_sites.entry(unesc(site)).or_insert(0) += 1;
                }
                ["C", stage, class] => {
                    let (Ok(stage), Ok(class)) = (stage.parse::<u32>(), class.parse::<u64>()) else { continue };
                    let Some(&pos) = stage_pos.get(&stage) else { continue };
                    results[pos].classes.insert(class);
                }
                _ => {}
            }
        }
        if slow_ms() > 0 {
            for line in text.lines().filter(|l| l.starts_with("S\t")) {
                eprintln!("[slow] {line}");
            }
        }
        let _ = std::fs::remove_file(&path);
    }
    unsafe { libc::munmap(mem, bytes) };
    results
}

/// Runs one closure in a forked child with a deadline; returns its verdict line or a pool-made description.
pub fn run_isolated(f: impl FnOnce() -> String, deadline: Duration) -> Result<String, String> {
    let mut fds = [0i32; 2];
    if unsafe { libc::pipe(fds.as_mut_ptr()) } != 0 {
        return Err("pipe failed".into());
    }
    static ISO: AtomicU64 = AtomicU64::new(0);
    let err_path = std::env::temp_dir().join(format!("vs-c15-iso-{}-{}.err", std::process::id(), ISO.fetch_add(1, Relaxed)));
    let pid = unsafe { libc::fork() };
    if pid < 0 {
        return Err("fork failed".into());
    }
    if pid == 0 {
        unsafe { libc::close(fds[0]) };
        redirect_stderr(&err_path);
        let out = f();
        let b = out.as_bytes();
        let mut off = 0;
        while off < b.len() {
            let n = unsafe { libc::write(fds[1], b[off..].as_ptr() as *const libc::c_void, b.len() - off) };
            if n <= 0 {
                break;
            }
            off += n as usize;
        }
        unsafe { libc::_exit(0) };
    }
    unsafe { libc::close(fds[1]) };
    let t = Instant::now();
    let mut out = Vec::new();
    unsafe {
        let fl = libc::fcntl(fds[0], libc::F_GETFL);
        libc::fcntl(fds[0], libc::F_SETFL, fl | libc::O_NONBLOCK);
    }
    let mut status = 0;
    let mut exited = false;
    loop {
        let mut buf = [0u8; 65536];
        let n = unsafe { libc::read(fds[0], buf.as_mut_ptr() as *mut libc::c_void, buf.len()) };
        if n > 0 {
            out.extend_from_slice(&buf[..n as usize]);
            continue;
        }
        if exited {
            break;
        }
        let w = unsafe { libc::waitpid(pid, &mut status, libc::WNOHANG) };
        if w == pid {
            exited = true;
            continue;
        }
        // the deadline counts the child's CPU time (a loaded machine must not turn a slow case into a hang);
        // wall time only bounds a child that is blocked
        let cpu = if t.elapsed() > deadline { cpu_seconds(pid) } else { None };
        let over = match cpu {
            Some(c) => c > deadline.as_secs_f64() || t.elapsed() > deadline * 12,
            None => t.elapsed() > deadline * 12,
        };
        if over {
            unsafe {
                libc::kill(pid, libc::SIGKILL);
                libc::waitpid(pid, &mut status, 0);
                libc::close(fds[0]);
            }
            let _ = std::fs::remove_file(&err_path);
            return Err("outcome=hang".into());
        }
        std::thread::sleep(Duration::from_millis(1));
    }
    unsafe { libc::close(fds[0]) };
    let died = libc::WIFSIGNALED(status) || libc::WEXITSTATUS(status) != 0;
    let outcome = if died { Some(death_outcome(status, &err_path).0) } else { None };
    let _ = std::fs::remove_file(&err_path);
    if let Some(o) = outcome {
        return Err(o);
    }
    Ok(String::from_utf8_lossy(&out).into_owned())
}
