//! Standalone reproduction of the principal C15 findings through the public API only (no harness code).
//! Every case runs in a child process (`repro <case>`), because several of them abort or do not terminate.
use std::{io::Write, process::Command, time::Duration};

fn bam_with_n_ref(n_ref: u32) -> Vec<u8> {
    let mut raw = b"BAM\x01".to_vec();
    raw.extend_from_slice(&0u32.to_le_bytes()); // l_text
    raw.extend_from_slice(&n_ref.to_le_bytes());
    let mut w = noodles_bgzf::io::Writer::new(Vec::new());
    w.write_all(&raw).unwrap();
    w.finish().unwrap()
}

fn run(case: &str) {
    match case {
        // D16: with_capacity(n_ref) -> "memory allocation of … bytes failed", SIGABRT
        "bam-n_ref" => {
            let file = bam_with_n_ref(0x7fff_ffff);
            let mut r = noodles_bam::io::Reader::new(&file[..]);
            println!("{:?}", r.read_header().map(|h| h.reference_sequences().len()));
        }
        "bai-n_ref" => {
            let mut b = b"BAI\x01".to_vec();
            b.extend_from_slice(&0x7fff_ffffu32.to_le_bytes());
            println!("{:?}", noodles_bam::bai::io::Reader::new(&b[..]).read_index().map(|_| ()));
        }
        "bai-n_bin" => {
            let mut b = b"BAI\x01".to_vec();
            b.extend_from_slice(&1u32.to_le_bytes());
            b.extend_from_slice(&0x7fff_ffffu32.to_le_bytes());
            println!("{:?}", noodles_bam::bai::io::Reader::new(&b[..]).read_index().map(|_| ()));
        }
        // D18: iterators that never advance past a malformed element
        "gff-attributes" => {
            let mut r = noodles_gff::io::Reader::new(&b"sq0\t.\tgene\t1\t2\t.\t+\t.\tI\n"[..]);
            let mut line = noodles_gff::Line::default();
            r.read_line(&mut line).unwrap();
            let rec = line.as_record().unwrap().unwrap();
            let n = rec.attributes().iter().take(1_000_000).count();
            println!("attributes().iter() yielded {n} items (capped at 1000000) from a 1-byte attribute column");
        }
        "sam-cigar" => {
            let mut r = noodles_sam::io::Reader::new(&b"r0\t0\tsq0\t1\t0\t+\t*\t0\t0\tACGT\tIIII\n"[..]);
            let mut rec = noodles_sam::Record::default();
            r.read_record(&mut rec).unwrap();
            let n = rec.cigar().iter().take(1_000_000).count();
            println!("cigar().iter() yielded {n} items (capped at 1000000) from the CIGAR \"+\"");
        }
        "sam-data" => {
            let mut r = noodles_sam::io::Reader::new(&b"r0\t4\t*\t0\t0\t*\t*\t0\t0\tA\tI\tN\n"[..]);
            let mut rec = noodles_sam::Record::default();
            r.read_record(&mut rec).unwrap();
            let n = rec.data().iter().take(1_000_000).count();
            println!("data().iter() yielded {n} items (capped at 1000000) from the 1-byte data field \"N\"");
        }
        // D20: gtf::Record through the gff::feature::Record view
        "gtf-attributes" => {
            let mut r = noodles_gtf::io::Reader::new(&b"sq0\t.\tgene\t1\t2\t.\t+\t.\tgene_id\n"[..]);
            for l in r.line_bufs() {
                println!("{:?}", l.map(|_| ()));
            }
        }
        _ => println!("unknown case"),
    }
}

fn main() {
    let args: Vec<String> = std::env::args().collect();
    if args.len() > 1 {
        run(&args[1]);
        return;
    }
    for case in ["bam-n_ref", "bai-n_ref", "bai-n_bin", "gff-attributes", "sam-cigar", "sam-data", "gtf-attributes"] {
        let mut child = Command::new(&args[0]).arg(case).stdout(std::process::Stdio::piped()).stderr(std::process::Stdio::piped()).spawn().unwrap();
        let t = std::time::Instant::now();
        let status = loop {
            if let Some(s) = child.try_wait().unwrap() {
                break Some(s);
            }
            if t.elapsed() > Duration::from_secs(20) {
                let _ = child.kill();
                break None;
            }
            std::thread::sleep(Duration::from_millis(20));
        };
        let out = child.wait_with_output().unwrap();
        let text = format!("{}{}", String::from_utf8_lossy(&out.stdout), String::from_utf8_lossy(&out.stderr));
        let last = text.lines().filter(|l| !l.trim().is_empty()).last().unwrap_or("").to_string();
        println!("{case:16} -> {:?}; {}", status.map(|s| s.to_string()).unwrap_or_else(|| "still running after 20 s".into()), last.chars().take(160).collect::<String>());
    }
}
