//! Nested-stripe generator / runner (the C15 `nesting` stage's inputs).
//!
//! usage: nest <entry> <leaf> <depth> [stack MiB | hex]
//!   entry: rans_nx16 | aac | "name_tokenizer(rans_nx16)" | "name_tokenizer(aac)"     leaf: cat | order0
//!   `hex` prints the input; otherwise the input is decoded on a thread with the given stack (default 8 MiB):
//!   a stack overflow aborts the process ("thread 'nest-stack-8MiB' has overflowed its stack").
#[path = "../src/nest.rs"]
#[allow(dead_code)]
mod nest;

fn main() {
    let a: Vec<String> = std::env::args().collect();
    if a.len() < 4 {
        eprintln!("usage: nest <entry> <leaf> <depth> [stack MiB | hex]");
        std::process::exit(2);
    }
    if a[1] == "amplify" {
        // nest amplify <rans_nx16|aac> <n zero bytes> <depth>: time of decoding `depth` stripes around the encoder's
        // order-0 stream of n zero bytes (every level transposes the whole payload)
        let aac = a[2] == "aac";
        let n: usize = a[3].parse().expect("n");
        let depth: usize = a.get(4).and_then(|s| s.parse().ok()).unwrap_or(1);
        let raw = vec![0u8; n];
        let input = nest::nested(aac, nest::Leaf::Order0, &raw, depth).expect("input");
        let t = std::time::Instant::now();
        let r = std::thread::Builder::new()
            .stack_size(64 << 20)
            .spawn(move || if aac { noodles_cram::verif::aac_decode(&input, 0).map(|v| (v.len(), input.len())) } else { noodles_cram::verif::rans_nx16_decode(&input, 0).map(|v| (v.len(), input.len())) })
            .unwrap()
            .join()
            .unwrap();
        println!("{} n={n} depth={depth}: {:?} (output bytes, input bytes) in {:.2}s", a[2], r, t.elapsed().as_secs_f64());
        return;
    }
    let entry = nest::Entry::parse(&a[1]).expect("entry");
    let depth: usize = a[3].parse().expect("depth");
    let mut c = nest::NestCase { entry, leaf: nest::Leaf::parse(&a[2]), depth, stack: 8 << 20 };
    let target = if matches!(entry, nest::Entry::CramRans | nest::Entry::CramAac) || entry.is_bcf() { nest::Targets::find(&vnd::corpus(false)) } else { nest::Targets { cram: None, bcf_id: None, bcf_format: None } };
    if a.get(4).map(|s| s == "hex").unwrap_or(false) {
        let b = nest::input(&c, &target).expect("input");
        println!("{}", b.iter().map(|x| format!("{x:02x}")).collect::<String>());
        return;
    }
    if let Some(m) = a.get(4).and_then(|s| s.parse::<usize>().ok()) {
        c.stack = m << 20;
    }
    let n = nest::input(&c, &target).map(|b| b.len()).unwrap_or(0);
    let out = match nest::run(&c, &target, || {}) {
        nest::Out::Ok => if entry.has_payload() { "decoded to the payload".to_string() } else { "read to EOF without error".to_string() },
        nest::Out::Err(e) => format!("Err({e})"),
        nest::Out::Wrong(w) => format!("WRONG OUTPUT: {w}"),
        nest::Out::Panic(m, f) => format!("PANIC: {m} in {f}"),
        nest::Out::NoInput => "no input".into(),
    };
    println!("{} leaf={} depth={} stack={} MiB input={} bytes: {out}", entry.name(), c.leaf.name(), depth, c.stack >> 20, n);
}
