//! gcram: shared generator and oracles for the CRAM properties C07 and C19.
//!
//! * [`refs`]   — three short references (upper / lower / IUPAC / N), repository and header
//! * [`rec`]    — harness-side SAM record model and normalised SAM-line rendering
//! * [`stream`] — deviation-bounded grammar of sorted record streams with consistent mates
//! * [`io`]     — driving the real writer / reader under a configuration
//! * [`walk`]   — independent CRAM container walker (CRAM v3 §6–§9)

pub mod io;
pub mod rec;
pub mod refs;
pub mod stream;
pub mod walk;
