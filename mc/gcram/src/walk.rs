//! Independent CRAM 3.x container walker, written from the CRAM v3 specification §6–§9 (file
//! definition, container header, block structure, slice header, EOF container). It shares no code
//! with noodles: own ITF8/LTF8 readers, crc32fast, md-5, miniz_oxide (gzip), bzip2, lzma-rust2 (xz).
//! Only the CRAM 3.1 entropy coders and rANS 4x8 are decoded through noodles' own decoders (hook
//! H3) — those blocks are marked `independent = false`.

use std::io::Read;

use crate::{
    rec::Rec,
    refs::{RefSeq, md5_of_span},
};

/// The 38-byte CRAM 3.x end-of-file container (§9).
pub const EOF_V3: [u8; 38] = [
    0x0f, 0x00, 0x00, 0x00, 0xff, 0xff, 0xff, 0xff, 0x0f, 0xe0, 0x45, 0x4f, 0x46, 0x00, 0x00, 0x00, 0x00, 0x01, 0x00,
    0x05, 0xbd, 0xd9, 0x4f, 0x00, 0x01, 0x00, 0x06, 0x06, 0x01, 0x00, 0x01, 0x00, 0x01, 0x00, 0xee, 0x63, 0x01, 0x4b,
];

pub const CT_FILE_HEADER: u8 = 0;
pub const CT_COMPRESSION_HEADER: u8 = 1;
pub const CT_SLICE_HEADER: u8 = 2;
pub const CT_EXTERNAL: u8 = 4;
pub const CT_CORE: u8 = 5;

pub const METHOD_NAMES: [&str; 9] = ["raw", "gzip", "bzip2", "lzma", "rans4x8", "ransNx16", "aac", "fqzcomp", "tok3"];

#[derive(Clone, Debug)]
pub struct WalkErr {
    /// class-level, value-free (used in fingerprints)
    pub what: String,
    pub detail: String,
}

fn err<T>(what: &str, detail: impl Into<String>) -> Result<T, WalkErr> {
    Err(WalkErr { what: what.to_string(), detail: detail.into() })
}

struct Cur<'a> {
    b: &'a [u8],
    p: usize,
}

impl<'a> Cur<'a> {
    fn u8(&mut self) -> Result<u8, WalkErr> {
        if self.p >= self.b.len() {
            return err("truncated", format!("byte at {}", self.p));
        }
        self.p += 1;
        Ok(self.b[self.p - 1])
    }
    fn take(&mut self, n: usize) -> Result<&'a [u8], WalkErr> {
        if n > self.b.len() - self.p {
            return err("truncated", format!("{n} bytes at {} of {}", self.p, self.b.len()));
        }
        self.p += n;
        Ok(&self.b[self.p - n..self.p])
    }
    fn i32le(&mut self) -> Result<i32, WalkErr> {
        let s = self.take(4)?;
        Ok(i32::from_le_bytes([s[0], s[1], s[2], s[3]]))
    }
    fn u32le(&mut self) -> Result<u32, WalkErr> {
        let s = self.take(4)?;
        Ok(u32::from_le_bytes([s[0], s[1], s[2], s[3]]))
    }
    /// ITF8 (§2.3).
    fn itf8(&mut self) -> Result<i32, WalkErr> {
        let b0 = self.u8()? as u32;
        let v: u32 = if b0 < 0x80 {
            b0
        } else if b0 < 0xc0 {
            ((b0 & 0x3f) << 8) | self.u8()? as u32
        } else if b0 < 0xe0 {
            let b1 = self.u8()? as u32;
            let b2 = self.u8()? as u32;
            ((b0 & 0x1f) << 16) | (b1 << 8) | b2
        } else if b0 < 0xf0 {
            let b1 = self.u8()? as u32;
            let b2 = self.u8()? as u32;
            let b3 = self.u8()? as u32;
            ((b0 & 0x0f) << 24) | (b1 << 16) | (b2 << 8) | b3
        } else {
            let b1 = self.u8()? as u32;
            let b2 = self.u8()? as u32;
            let b3 = self.u8()? as u32;
            let b4 = self.u8()? as u32;
            ((b0 & 0x0f) << 28) | (b1 << 20) | (b2 << 12) | (b3 << 4) | (b4 & 0x0f)
        };
        Ok(v as i32)
    }
    /// LTF8 (§2.3).
    fn ltf8(&mut self) -> Result<i64, WalkErr> {
        let b0 = self.u8()? as u64;
        let (mask, extra): (u64, usize) = if b0 < 0x80 {
            (0x7f, 0)
        } else if b0 < 0xc0 {
            (0x3f, 1)
        } else if b0 < 0xe0 {
            (0x1f, 2)
        } else if b0 < 0xf0 {
            (0x0f, 3)
        } else if b0 < 0xf8 {
            (0x07, 4)
        } else if b0 < 0xfc {
            (0x03, 5)
        } else if b0 < 0xfe {
            (0x01, 6)
        } else if b0 < 0xff {
            (0x00, 7)
        } else {
            (0x00, 8)
        };
        let mut v = b0 & mask;
        for _ in 0..extra {
            v = (v << 8) | self.u8()? as u64;
        }
        Ok(v as i64)
    }
}

#[derive(Clone, Debug)]
pub struct WBlock {
    /// offset of the block relative to the end of the container header
    pub rel_offset: usize,
    pub size: usize,
    pub method: u8,
    pub ctype: u8,
    pub cid: i32,
    pub csize: usize,
    pub rsize: usize,
    /// decompressed content
    pub raw: Vec<u8>,
    /// false when the raw size was established with noodles' own decoder
    pub independent: bool,
}

#[derive(Clone, Debug)]
pub struct WSlice {
    pub landmark: usize,
    /// bytes from the landmark to the next landmark / the end of the container
    pub length: usize,
    pub ref_id: i32,
    pub start: i32,
    pub span: i32,
    pub n_records: i32,
    pub counter: i64,
    pub n_blocks: i32,
    pub content_ids: Vec<i32>,
    pub embedded_ref_id: i32,
    pub md5: [u8; 16],
    /// indices into `WContainer::blocks` of the core and external blocks of this slice
    pub first_block: usize,
    pub end_block: usize,
}

#[derive(Clone, Debug)]
pub struct WContainer {
    /// absolute file offset of the container header
    pub offset: u64,
    pub header_len: usize,
    pub length: usize,
    pub ref_id: i32,
    pub start: i32,
    pub span: i32,
    pub n_records: i32,
    pub counter: i64,
    pub bases: i64,
    pub n_blocks: i32,
    pub landmarks: Vec<i32>,
    pub blocks: Vec<WBlock>,
    pub slices: Vec<WSlice>,
}

#[derive(Clone, Debug)]
pub struct Walked {
    pub version: (u8, u8),
    pub header_text: Vec<u8>,
    /// data containers only (the file header container and the EOF container are checked and dropped)
    pub containers: Vec<WContainer>,
    pub n_blocks_total: usize,
    pub n_blocks_not_independent: usize,
    pub methods_seen: [u32; 9],
}

fn gunzip(src: &[u8], declared: usize) -> Result<Vec<u8>, WalkErr> {
    let mut c = Cur { b: src, p: 0 };
    let id1 = c.u8()?;
    let id2 = c.u8()?;
    let cm = c.u8()?;
    if id1 != 0x1f || id2 != 0x8b || cm != 8 {
        return err("gzip-bad-magic", format!("{id1:02x} {id2:02x} cm={cm}"));
    }
    let flg = c.u8()?;
    c.take(6)?; // mtime, xfl, os
    if flg & 4 != 0 {
        let s = c.take(2)?;
        let xlen = u16::from_le_bytes([s[0], s[1]]) as usize;
        c.take(xlen)?;
    }
    for bit in [8u8, 16] {
        if flg & bit != 0 {
            while c.u8()? != 0 {}
        }
    }
    if flg & 2 != 0 {
        c.take(2)?;
    }
    let body = &src[c.p..];
    let max_out = declared.saturating_mul(2).max(declared + 65536);
    let (out, consumed) = match vmc::oracle::bgzf::inflate_raw(body, max_out) {
        Ok(x) => x,
        Err(e) => return err("gzip-inflate-failed", e),
    };
    let tail = &body[consumed..];
    if tail.len() != 8 {
        return err("gzip-trailer-size", format!("{} bytes after the deflate stream", tail.len()));
    }
    let crc = u32::from_le_bytes([tail[0], tail[1], tail[2], tail[3]]);
    let isize = u32::from_le_bytes([tail[4], tail[5], tail[6], tail[7]]);
    if crc != crc32fast::hash(&out) {
        return err("gzip-crc", "gzip member CRC32 does not match its payload");
    }
    if isize as usize != out.len() {
        return err("gzip-isize", format!("ISIZE {isize} vs {}", out.len()));
    }
    Ok(out)
}

fn decompress(method: u8, src: &[u8], rsize: usize) -> Result<(Vec<u8>, bool), WalkErr> {
    use noodles_cram::verif as h;
    let io_err = |what: &str, e: std::io::Error| WalkErr { what: what.to_string(), detail: e.to_string() };
    match method {
        0 => Ok((src.to_vec(), true)),
        1 => gunzip(src, rsize).map(|v| (v, true)),
        2 => {
            let mut out = Vec::new();
            bzip2::read::BzDecoder::new(src)
                .read_to_end(&mut out)
                .map_err(|e| io_err("bzip2-decode-failed", e))?;
            Ok((out, true))
        }
        3 => {
            let mut out = Vec::new();
            lzma_rust2::XzReader::new(src, false)
                .read_to_end(&mut out)
                .map_err(|e| io_err("xz-decode-failed", e))?;
            Ok((out, true))
        }
        4 => {
            // the rANS 4x8 stream itself carries its sizes: order(1) comp(4) raw(4)
            if src.len() >= 9 {
                let comp = u32::from_le_bytes([src[1], src[2], src[3], src[4]]) as usize;
                let raw = u32::from_le_bytes([src[5], src[6], src[7], src[8]]) as usize;
                if raw != rsize {
                    return err("rans4x8-stream-raw-size", format!("stream says {raw}, block says {rsize}"));
                }
                if comp + 9 != src.len() {
                    return err("rans4x8-stream-comp-size", format!("stream says {comp}+9, block has {}", src.len()));
                }
            }
            match vmc::catch(|| h::rans_4x8_decode(src)) {
                Ok(Ok(v)) => Ok((v, false)),
                Ok(Err(e)) => Err(io_err("rans4x8-decode-failed", e)),
                Err((m, _)) => err("rans4x8-decode-panic", m),
            }
        }
        5 => match vmc::catch(|| h::rans_nx16_decode(src, rsize)) {
            Ok(Ok(v)) => Ok((v, false)),
            Ok(Err(e)) => Err(io_err("ransNx16-decode-failed", e)),
            Err((m, _)) => err("ransNx16-decode-panic", m),
        },
        6 => match vmc::catch(|| h::aac_decode(src, rsize)) {
            Ok(Ok(v)) => Ok((v, false)),
            Ok(Err(e)) => Err(io_err("aac-decode-failed", e)),
            Err((m, _)) => err("aac-decode-panic", m),
        },
        7 => match vmc::catch(|| h::fqzcomp_decode(src)) {
            Ok(Ok(v)) => Ok((v, false)),
            Ok(Err(e)) => Err(io_err("fqzcomp-decode-failed", e)),
            Err((m, _)) => err("fqzcomp-decode-panic", m),
        },
        8 => match vmc::catch(|| h::name_tokenizer_decode(src)) {
            Ok(Ok(v)) => Ok((v, false)),
            Ok(Err(e)) => Err(io_err("tok3-decode-failed", e)),
            Err((m, _)) => err("tok3-decode-panic", m),
        },
        m => err("block-method-unknown", format!("method {m}")),
    }
}

fn read_block(c: &mut Cur, base: usize, version: (u8, u8)) -> Result<WBlock, WalkErr> {
    let start = c.p;
    let method = c.u8()?;
    let ctype = c.u8()?;
    let cid = c.itf8()?;
    let csize = c.itf8()?;
    let rsize = c.itf8()?;
    if csize < 0 || rsize < 0 {
        return err("block-negative-size", format!("csize {csize} rsize {rsize}"));
    }
    if !matches!(ctype, 0 | 1 | 2 | 4 | 5) {
        return err("block-content-type-unknown", format!("type {ctype}"));
    }
    if method > 8 {
        return err("block-method-unknown", format!("method {method}"));
    }
    if method > 4 && version < (3, 1) {
        return err(
            &format!("block-method-{}-in-cram-3.0", METHOD_NAMES[method as usize]),
            format!("method {method} in a {}.{} file", version.0, version.1),
        );
    }
    let data = c.take(csize as usize)?;
    let crc_calc = crc32fast::hash(&c.b[start..c.p]);
    let crc = c.u32le()?;
    if crc != crc_calc {
        return err("block-crc32", format!("stored {crc:08x}, computed {crc_calc:08x}"));
    }
    let m = METHOD_NAMES[method as usize];
    let (raw, independent) = if rsize == 0 && method != 0 {
        // §8: blocks with a raw size of zero are empty irrespective of the method byte
        (Vec::new(), true)
    } else {
        decompress(method, data, rsize as usize).map_err(|e| WalkErr {
            what: format!("block-{}", e.what),
            detail: format!("method {m} content type {ctype} id {cid}: {}", e.detail),
        })?
    };
    if raw.len() != rsize as usize {
        return err(
            &format!("block-raw-size method={m}"),
            format!(
                "method {m} content type {ctype} id {cid}: declared raw size {rsize}, decompressed {} (compressed {csize})",
                raw.len()
            ),
        );
    }
    if method == 0 && csize != rsize {
        return err("block-raw-size method=raw", format!("raw block with csize {csize} != rsize {rsize}"));
    }
    Ok(WBlock {
        rel_offset: start - base,
        size: c.p - start,
        method,
        ctype,
        cid,
        csize: csize as usize,
        rsize: rsize as usize,
        raw,
        independent,
    })
}

fn parse_slice_header(raw: &[u8]) -> Result<(i32, i32, i32, i32, i64, i32, Vec<i32>, i32, [u8; 16], usize), WalkErr> {
    let mut c = Cur { b: raw, p: 0 };
    let ref_id = c.itf8()?;
    let start = c.itf8()?;
    let span = c.itf8()?;
    let n_records = c.itf8()?;
    let counter = c.ltf8()?;
    let n_blocks = c.itf8()?;
    let n_ids = c.itf8()?;
    if !(0..=100000).contains(&n_ids) {
        return err("slice-header-content-id-count", format!("{n_ids}"));
    }
    let mut ids = Vec::new();
    for _ in 0..n_ids {
        ids.push(c.itf8()?);
    }
    let embedded = c.itf8()?;
    let md5: [u8; 16] = c.take(16)?.try_into().unwrap();
    Ok((ref_id, start, span, n_records, counter, n_blocks, ids, embedded, md5, raw.len() - c.p))
}

/// Structural walk of a whole file. Everything that can be judged from the bytes alone is judged
/// here; [`check_against_records`] adds what needs the written records and the reference.
pub fn walk(bytes: &[u8]) -> Result<Walked, WalkErr> {
    let mut c = Cur { b: bytes, p: 0 };
    let magic = c.take(4).map_err(|_| WalkErr { what: "file-definition-truncated".into(), detail: String::new() })?;
    if magic != b"CRAM" {
        return err("file-definition-magic", vmc::hex(magic));
    }
    let major = c.u8()?;
    let minor = c.u8()?;
    if major != 3 || minor > 1 {
        return err("file-definition-version", format!("{major}.{minor}"));
    }
    c.take(20)?; // file id
    let version = (major, minor);

    let mut out = Walked {
        version,
        header_text: Vec::new(),
        containers: Vec::new(),
        n_blocks_total: 0,
        n_blocks_not_independent: 0,
        methods_seen: [0; 9],
    };
    let mut seen_header = false;
    let mut seen_eof = false;
    let mut next_counter: i64 = 0;

    while c.p < bytes.len() {
        if seen_eof {
            return err("bytes-after-eof-container", format!("{} bytes", bytes.len() - c.p));
        }
        let offset = c.p;
        let length = c.i32le()?;
        let ref_id = c.itf8()?;
        let start = c.itf8()?;
        let span = c.itf8()?;
        let n_records = c.itf8()?;
        let counter = c.ltf8()?;
        let bases = c.ltf8()?;
        let n_blocks = c.itf8()?;
        let n_landmarks = c.itf8()?;
        if !(0..=100000).contains(&n_landmarks) {
            return err("container-landmark-count", format!("{n_landmarks}"));
        }
        let mut landmarks = Vec::new();
        for _ in 0..n_landmarks {
            landmarks.push(c.itf8()?);
        }
        let crc_calc = crc32fast::hash(&bytes[offset..c.p]);
        let crc = c.u32le()?;
        if crc != crc_calc {
            return err("container-header-crc32", format!("stored {crc:08x}, computed {crc_calc:08x} at offset {offset}"));
        }
        let header_len = c.p - offset;
        if length < 0 || n_blocks < 0 || n_records < 0 {
            return err("container-negative-field", format!("length {length} blocks {n_blocks} records {n_records}"));
        }
        let base = c.p;
        if length as usize > bytes.len() - base {
            return err("container-length-beyond-file", format!("length {length} at {offset}, file has {} more", bytes.len() - base));
        }

        // EOF container: recognised by content, then required to be the exact 38 bytes
        if &bytes[offset..(offset + 38).min(bytes.len())] == &EOF_V3[..] {
            c.p = offset + 38;
            seen_eof = true;
            continue;
        }

        let mut blocks = Vec::new();
        for _ in 0..n_blocks {
            if c.p - base >= length as usize {
                return err(
                    "container-block-count",
                    format!("header says {n_blocks} blocks, only {} fit into length {length}", blocks.len()),
                );
            }
            let b = read_block(&mut c, base, version)?;
            out.n_blocks_total += 1;
            out.methods_seen[b.method as usize] += 1;
            if !b.independent {
                out.n_blocks_not_independent += 1;
            }
            blocks.push(b);
        }
        if c.p - base != length as usize {
            return err(
                "container-length",
                format!("header length {length}, sum of the {n_blocks} block sizes {}", c.p - base),
            );
        }

        if !seen_header {
            // file header container (§7.1): FILE_HEADER block(s); int32 length + SAM text
            seen_header = true;
            if blocks.is_empty() || blocks[0].ctype != CT_FILE_HEADER {
                return err("file-header-container-first-block", "first block is not FILE_HEADER");
            }
            let raw = &blocks[0].raw;
            if raw.len() < 4 {
                return err("file-header-block-short", format!("{} bytes", raw.len()));
            }
            let l = i32::from_le_bytes([raw[0], raw[1], raw[2], raw[3]]);
            if l < 0 || l as usize > raw.len() - 4 {
                return err("file-header-text-length", format!("{l} of {}", raw.len() - 4));
            }
            out.header_text = raw[4..4 + l as usize].to_vec();
            continue;
        }

        // data container
        if blocks.is_empty() || blocks[0].ctype != CT_COMPRESSION_HEADER {
            return err("container-first-block-not-compression-header", format!("{} blocks", blocks.len()));
        }
        if blocks[0].method != 0 && blocks[0].method != 1 {
            return err("compression-header-method", format!("{}", blocks[0].method));
        }
        {
            // the compression header is three byte arrays (preservation map, data series encodings,
            // tag encodings): itf8 size + payload each, together exactly the block
            let mut h = Cur { b: &blocks[0].raw, p: 0 };
            for part in ["preservation-map", "data-series-encodings", "tag-encodings"] {
                let n = h.itf8().map_err(|_| WalkErr { what: format!("compression-header-{part}-truncated"), detail: String::new() })?;
                if n < 0 || h.take(n as usize).is_err() {
                    return err(&format!("compression-header-{part}-size"), format!("{n}"));
                }
            }
            if h.p != blocks[0].raw.len() {
                return err("compression-header-trailing-bytes", format!("{} of {}", h.p, blocks[0].raw.len()));
            }
        }
        if landmarks.is_empty() {
            return err("container-no-landmarks", format!("{n_records} records"));
        }
        if counter != next_counter {
            return err("container-record-counter", format!("container at {offset} has counter {counter}, expected {next_counter}"));
        }

        let mut slices = Vec::new();
        let slice_header_blocks: Vec<usize> =
            blocks.iter().enumerate().filter(|(_, b)| b.ctype == CT_SLICE_HEADER).map(|(i, _)| i).collect();
        if slice_header_blocks.len() != landmarks.len() {
            return err(
                "container-landmark-count",
                format!("{} landmarks, {} slice header blocks", landmarks.len(), slice_header_blocks.len()),
            );
        }
        let mut slice_counter = counter;
        let mut record_sum: i64 = 0;
        for (k, (&lm, &bi)) in landmarks.iter().zip(slice_header_blocks.iter()).enumerate() {
            if lm < 0 || blocks[bi].rel_offset != lm as usize {
                return err(
                    "container-landmark",
                    format!("landmark[{k}] = {lm}, slice header block {k} starts at {}", blocks[bi].rel_offset),
                );
            }
            if blocks[bi].method != 0 && blocks[bi].method != 1 {
                return err("slice-header-method", format!("{}", blocks[bi].method));
            }
            let (s_ref, s_start, s_span, s_n, s_counter, s_blocks, ids, embedded, md5, trailing) =
                parse_slice_header(&blocks[bi].raw).map_err(|e| WalkErr { what: format!("slice-header-{}", e.what), detail: e.detail })?;
            let _ = trailing; // optional tags
            let end_block = slice_header_blocks.get(k + 1).copied().unwrap_or(blocks.len());
            let first_block = bi + 1;
            let present = end_block - first_block;
            if s_blocks < 0 || s_blocks as usize != present {
                return err(
                    "slice-block-count",
                    format!("slice {k} header says {s_blocks} blocks, {present} follow before the next slice / container end"),
                );
            }
            // one core block (type 5, id 0) then external blocks
            let cores: Vec<&WBlock> = blocks[first_block..end_block].iter().filter(|b| b.ctype == CT_CORE).collect();
            if cores.len() != 1 || blocks[first_block].ctype != CT_CORE {
                return err("slice-core-block", format!("{} core blocks, first block type {}", cores.len(), blocks[first_block].ctype));
            }
            if cores[0].cid != 0 {
                return err("slice-core-block-id", format!("{}", cores[0].cid));
            }
            let mut ext: Vec<i32> = Vec::new();
            for b in &blocks[first_block + 1..end_block] {
                if b.ctype != CT_EXTERNAL {
                    return err("slice-block-type", format!("block of type {} inside a slice", b.ctype));
                }
                ext.push(b.cid);
            }
            let mut ext_sorted = ext.clone();
            ext_sorted.sort();
            if ext_sorted.windows(2).any(|w| w[0] == w[1]) {
                return err("slice-duplicate-external-id", format!("{ext:?}"));
            }
            // the content-id list names the blocks of the slice; listing the core block (id 0) as
            // well is accepted (both conventions exist)
            let mut listed = ids.clone();
            listed.sort();
            let mut with_core = ext_sorted.clone();
            with_core.insert(0, 0);
            if listed != ext_sorted && listed != with_core {
                return err("slice-content-ids", format!("header lists {ids:?}, external blocks present {ext:?}"));
            }
            if embedded != -1 && !ext.contains(&embedded) {
                return err("slice-embedded-reference-id", format!("{embedded} not among {ext:?}"));
            }
            if s_counter != slice_counter {
                return err(
                    "slice-record-counter",
                    format!("slice {k} counter {s_counter}, expected {slice_counter} (container {counter} + preceding slices)"),
                );
            }
            if s_n < 0 {
                return err("slice-record-count-negative", format!("{s_n}"));
            }
            slice_counter += s_n as i64;
            record_sum += s_n as i64;
            let next_lm = landmarks.get(k + 1).map(|x| *x as usize).unwrap_or(length as usize);
            slices.push(WSlice {
                landmark: lm as usize,
                length: next_lm - lm as usize,
                ref_id: s_ref,
                start: s_start,
                span: s_span,
                n_records: s_n,
                counter: s_counter,
                n_blocks: s_blocks,
                content_ids: ids,
                embedded_ref_id: embedded,
                md5,
                first_block,
                end_block,
            });
        }
        if slice_header_blocks[0] != 1 {
            return err("container-blocks-before-first-slice", format!("first slice header is block {}", slice_header_blocks[0]));
        }
        if record_sum != n_records as i64 {
            return err("container-record-count", format!("header {n_records}, sum over slices {record_sum}"));
        }
        next_counter = counter + n_records as i64;
        out.containers.push(WContainer {
            offset: offset as u64,
            header_len,
            length: length as usize,
            ref_id,
            start,
            span,
            n_records,
            counter,
            bases,
            n_blocks,
            landmarks,
            blocks,
            slices,
        });
    }
    if !seen_header {
        return err("no-file-header-container", "");
    }
    if !seen_eof {
        let tail = &bytes[bytes.len().saturating_sub(38)..];
        return err("no-eof-container", format!("file ends with {}", vmc::hex(tail)));
    }
    Ok(out)
}

/// Acceptable reference context of a set of records: `(ref_id, start, end_lo..=end_hi)`.
/// A placed unmapped read has no CIGAR; whether it covers nothing, one base or `read length` bases
/// is not fixed by the specification, so its end may be anywhere in that range.
#[derive(Clone, Debug, PartialEq)]
pub enum Ctx {
    Single { rid: usize, start: usize, end_lo: usize, end_hi: usize },
    Unmapped,
    Multi,
}

pub fn placed_end_range(r: &Rec) -> Option<(usize, usize)> {
    let p = r.pos?;
    r.rid?;
    if r.is_unmapped() || r.ref_span() == 0 {
        // covers nothing (end = start - 1), one base, or `read length` bases
        let l = r.seq.len().max(1);
        Some((p - 1, p + l - 1))
    } else {
        let e = p + r.ref_span() - 1;
        Some((e, e))
    }
}

pub fn context_of(recs: &[Rec]) -> Ctx {
    let mut ctx: Option<Ctx> = None;
    for r in recs {
        let this = match (r.rid, r.pos, placed_end_range(r)) {
            (Some(rid), Some(p), Some((lo, hi))) => Ctx::Single { rid, start: p, end_lo: lo, end_hi: hi },
            _ => Ctx::Unmapped,
        };
        ctx = Some(match (ctx, this) {
            (None, t) => t,
            (Some(Ctx::Unmapped), Ctx::Unmapped) => Ctx::Unmapped,
            (
                Some(Ctx::Single { rid, start, end_lo, end_hi }),
                Ctx::Single { rid: r2, start: s2, end_lo: l2, end_hi: h2 },
            ) if rid == r2 => Ctx::Single { rid, start: start.min(s2), end_lo: end_lo.max(l2), end_hi: end_hi.max(h2) },
            _ => Ctx::Multi,
        });
    }
    ctx.unwrap_or(Ctx::Unmapped)
}

/// A header that says "multiple references" (−2) is accepted on any content: the records then carry
/// their own reference ids (RI series), which is legal if wasteful. The converse is not: a header that
/// names a reference or says "unmapped" must be true for every record.
fn check_ctx(what: &str, ref_id: i32, start: i32, span: i32, want: &Ctx, _strict_multi: bool) -> Result<(), WalkErr> {
    match want {
        Ctx::Single { rid, start: s, end_lo, end_hi } => {
            if ref_id == -2 {
                return Ok(());
            }
            if ref_id != *rid as i32 {
                return err(&format!("{what}-reference-id"), format!("header {ref_id}, records are all on {rid}"));
            }
            if start != *s as i32 {
                return err(&format!("{what}-alignment-start"), format!("header {start}, leftmost record starts at {s}"));
            }
            let end = start as i64 + span as i64 - 1;
            if end < *end_lo as i64 || end > *end_hi as i64 {
                return err(
                    &format!("{what}-alignment-span"),
                    format!("header start {start} span {span} (end {end}), records end at {end_lo}..={end_hi}"),
                );
            }
            Ok(())
        }
        Ctx::Unmapped => {
            if ref_id != -1 && ref_id != -2 {
                return err(&format!("{what}-reference-id"), format!("header {ref_id}, records are all unplaced"));
            }
            Ok(())
        }
        Ctx::Multi => {
            if ref_id != -2 {
                return err(&format!("{what}-reference-id"), format!("header {ref_id}, records are on several references / partly unplaced"));
            }
            Ok(())
        }
    }
}

/// What needs the written records and the reference: base counts, record totals, reference
/// contexts and the slice reference MD5.
pub fn check_against_records(w: &Walked, recs: &[Rec], refs: &[RefSeq]) -> Result<(), WalkErr> {
    let total: i64 = w.containers.iter().map(|c| c.n_records as i64).sum();
    if total != recs.len() as i64 {
        return err("file-record-total", format!("containers hold {total} records, {} were written", recs.len()));
    }
    let mut i = 0usize;
    for (ci, c) in w.containers.iter().enumerate() {
        let crecs = &recs[i..i + c.n_records as usize];
        let bases: usize = crecs.iter().map(|r| r.seq.len()).sum();
        if c.bases != bases as i64 {
            return err("container-base-count", format!("container {ci}: header {}, sum of read lengths {bases}", c.bases));
        }
        check_ctx("container", c.ref_id, c.start, c.span, &context_of(crecs), c.slices.len() == 1)
            .map_err(|e| WalkErr { what: e.what, detail: format!("container {ci}: {}", e.detail) })?;
        for (si, s) in c.slices.iter().enumerate() {
            let srecs = &recs[i..i + s.n_records as usize];
            i += s.n_records as usize;
            let want = context_of(srecs);
            check_ctx("slice", s.ref_id, s.start, s.span, &want, true)
                .map_err(|e| WalkErr { what: e.what, detail: format!("container {ci} slice {si}: {}", e.detail) })?;
            if s.ref_id >= 0 {
                let r = match refs.get(s.ref_id as usize) {
                    Some(r) => r,
                    None => return err("slice-reference-id-unknown", format!("{}", s.ref_id)),
                };
                let (a, b) = (s.start as usize, (s.start + s.span - 1) as usize);
                if a < 1 || b > r.seq.len() || a > b {
                    return err("slice-span-outside-reference", format!("{a}..={b} on {} ({} bp)", r.name, r.seq.len()));
                }
                if s.md5 != [0u8; 16] {
                    let want = md5_of_span(r, a, b);
                    if s.md5 != want {
                        let whole = md5_of_span(r, 1, r.seq.len());
                        return err(
                            "slice-reference-md5",
                            format!(
                                "container {ci} slice {si}: stored {}, md5(upper({}[{a}..={b}])) = {}{}",
                                vmc::hex(&s.md5),
                                r.name,
                                vmc::hex(&want),
                                if s.md5 == whole { " (stored value is the MD5 of the whole reference)" } else { "" }
                            ),
                        );
                    }
                }
            } else if s.md5 != [0u8; 16] {
                return err("slice-reference-md5-nonzero", format!("container {ci} slice {si}: ref id {} with md5 {}", s.ref_id, vmc::hex(&s.md5)));
            }
        }
    }
    Ok(())
}

/// Number of slices whose header says "multiple references" although all their records lie on one
/// reference (or are all unplaced) — legal, counted for the evidence.
pub fn loose_multi_slices(w: &Walked, recs: &[Rec]) -> usize {
    let mut i = 0usize;
    let mut n = 0;
    for c in &w.containers {
        for s in &c.slices {
            let k = (s.n_records as usize).min(recs.len() - i);
            if s.ref_id == -2 && context_of(&recs[i..i + k]) != Ctx::Multi {
                n += 1;
            }
            i += k;
        }
    }
    n
}

/// One expected CRAI entry, computed without noodles.
#[derive(Clone, Debug, PartialEq)]
pub struct IndexEntry {
    pub rid: Option<usize>,
    pub start: usize,
    /// acceptable spans (`lo..=hi`): exact unless placed unmapped reads are involved
    pub span_lo: usize,
    pub span_hi: usize,
    pub offset: u64,
    pub landmark: u64,
    pub slice_length: u64,
}

/// The index the file should have: per slice one entry (single-reference / unmapped slices) or
/// one entry per reference present plus one for unplaced records (multi-reference slices), ordered
/// by reference id with the unplaced entry … where the implementation puts it (order within one
/// slice is not prescribed; callers compare per slice as sets).
pub fn expected_index(w: &Walked, recs: &[Rec]) -> Vec<Vec<IndexEntry>> {
    let mut out = Vec::new();
    let mut i = 0usize;
    for c in &w.containers {
        for s in &c.slices {
            let srecs = &recs[i..i + s.n_records as usize];
            i += s.n_records as usize;
            let mut per: std::collections::BTreeMap<Option<usize>, Vec<Rec>> = Default::default();
            for r in srecs {
                let key = if r.rid.is_some() && r.pos.is_some() { r.rid } else { None };
                per.entry(key).or_default().push(r.clone());
            }
            let mut entries = Vec::new();
            for (rid, rs) in per {
                let (start, lo, hi) = match context_of(&rs) {
                    Ctx::Single { start, end_lo, end_hi, .. } => (start, end_lo + 1 - start, end_hi + 1 - start),
                    _ => (0, 0, 0),
                };
                entries.push(IndexEntry {
                    rid,
                    start,
                    span_lo: lo,
                    span_hi: hi,
                    offset: c.offset,
                    landmark: s.landmark as u64,
                    slice_length: s.length as u64,
                });
            }
            out.push(entries);
        }
    }
    out
}
