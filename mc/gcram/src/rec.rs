//! Harness-side SAM record model: conversion to and from `RecordBuf` and an own SAM-line rendering
//! (normalised as far as the CRAM format itself cannot distinguish: `=`/`X` ≡ `M`, adjacent equal
//! operations merged, bases upper case, integer tags numeric).

use bstr::BString;
use noodles_core::Position;
use noodles_sam::{
    self as sam,
    alignment::{
        RecordBuf,
        record::{
            Flags, MappingQuality,
            cigar::{Op, op::Kind},
            data::field::Tag,
        },
        record_buf::{
            QualityScores, Sequence,
            data::field::{Value, value::Array},
        },
    },
};

#[derive(Clone, Debug, PartialEq)]
pub enum Tv {
    A(u8),
    I8(i8),
    U8(u8),
    I16(i16),
    U16(u16),
    I32(i32),
    U32(u32),
    F(f32),
    Z(Vec<u8>),
    H(Vec<u8>),
    BI8(Vec<i8>),
    BU8(Vec<u8>),
    BI16(Vec<i16>),
    BU16(Vec<u16>),
    BI32(Vec<i32>),
    BU32(Vec<u32>),
    BF(Vec<f32>),
}

fn join<T: std::fmt::Display>(prefix: &str, xs: &[T]) -> String {
    let mut s = String::from(prefix);
    for x in xs {
        s.push(',');
        s.push_str(&x.to_string());
    }
    s
}

impl Tv {
    /// SAM text of the value with its type letter; integers are all `i` (SAM has one integer type).
    pub fn render(&self) -> String {
        match self {
            Tv::A(c) => format!("A:{}", *c as char),
            Tv::I8(n) => format!("i:{n}"),
            Tv::U8(n) => format!("i:{n}"),
            Tv::I16(n) => format!("i:{n}"),
            Tv::U16(n) => format!("i:{n}"),
            Tv::I32(n) => format!("i:{n}"),
            Tv::U32(n) => format!("i:{n}"),
            Tv::F(x) => format!("f:{x}"),
            Tv::Z(s) => format!("Z:{}", String::from_utf8_lossy(s)),
            Tv::H(s) => format!("H:{}", String::from_utf8_lossy(s)),
            Tv::BI8(v) => join("B:c", v),
            Tv::BU8(v) => join("B:C", v),
            Tv::BI16(v) => join("B:s", v),
            Tv::BU16(v) => join("B:S", v),
            Tv::BI32(v) => join("B:i", v),
            Tv::BU32(v) => join("B:I", v),
            Tv::BF(v) => join("B:f", v),
        }
    }

    pub fn to_value(&self) -> Value {
        match self {
            Tv::A(c) => Value::Character(*c),
            Tv::I8(n) => Value::Int8(*n),
            Tv::U8(n) => Value::UInt8(*n),
            Tv::I16(n) => Value::Int16(*n),
            Tv::U16(n) => Value::UInt16(*n),
            Tv::I32(n) => Value::Int32(*n),
            Tv::U32(n) => Value::UInt32(*n),
            Tv::F(x) => Value::Float(*x),
            Tv::Z(s) => Value::String(BString::from(s.clone())),
            Tv::H(s) => Value::Hex(BString::from(s.clone())),
            Tv::BI8(v) => Value::Array(Array::Int8(v.clone())),
            Tv::BU8(v) => Value::Array(Array::UInt8(v.clone())),
            Tv::BI16(v) => Value::Array(Array::Int16(v.clone())),
            Tv::BU16(v) => Value::Array(Array::UInt16(v.clone())),
            Tv::BI32(v) => Value::Array(Array::Int32(v.clone())),
            Tv::BU32(v) => Value::Array(Array::UInt32(v.clone())),
            Tv::BF(v) => Value::Array(Array::Float(v.clone())),
        }
    }

    pub fn from_value(v: &Value) -> Tv {
        match v {
            Value::Character(c) => Tv::A(*c),
            Value::Int8(n) => Tv::I8(*n),
            Value::UInt8(n) => Tv::U8(*n),
            Value::Int16(n) => Tv::I16(*n),
            Value::UInt16(n) => Tv::U16(*n),
            Value::Int32(n) => Tv::I32(*n),
            Value::UInt32(n) => Tv::U32(*n),
            Value::Float(x) => Tv::F(*x),
            Value::String(s) => Tv::Z(s.to_vec()),
            Value::Hex(s) => Tv::H(s.to_vec()),
            Value::Array(Array::Int8(v)) => Tv::BI8(v.clone()),
            Value::Array(Array::UInt8(v)) => Tv::BU8(v.clone()),
            Value::Array(Array::Int16(v)) => Tv::BI16(v.clone()),
            Value::Array(Array::UInt16(v)) => Tv::BU16(v.clone()),
            Value::Array(Array::Int32(v)) => Tv::BI32(v.clone()),
            Value::Array(Array::UInt32(v)) => Tv::BU32(v.clone()),
            Value::Array(Array::Float(v)) => Tv::BF(v.clone()),
        }
    }

    pub fn literal(&self) -> String {
        format!("{self:?}")
    }
}

pub const PAIRED: u16 = 0x1;
pub const PROPER: u16 = 0x2;
pub const UNMAPPED: u16 = 0x4;
pub const MATE_UNMAPPED: u16 = 0x8;
pub const REVERSE: u16 = 0x10;
pub const MATE_REVERSE: u16 = 0x20;
pub const FIRST: u16 = 0x40;
pub const LAST: u16 = 0x80;
pub const SECONDARY: u16 = 0x100;
pub const QCFAIL: u16 = 0x200;
pub const DUPLICATE: u16 = 0x400;
pub const SUPPLEMENTARY: u16 = 0x800;

#[derive(Clone, Debug, PartialEq)]
pub struct Rec {
    pub name: Option<Vec<u8>>,
    pub flags: u16,
    /// 0-based reference index.
    pub rid: Option<usize>,
    /// 1-based.
    pub pos: Option<usize>,
    /// `None` = 255.
    pub mapq: Option<u8>,
    /// (op char, length)
    pub cigar: Vec<(u8, usize)>,
    pub mrid: Option<usize>,
    pub mpos: Option<usize>,
    pub tlen: i32,
    pub seq: Vec<u8>,
    /// raw phred values
    pub qual: Vec<u8>,
    pub tags: Vec<([u8; 2], Tv)>,
}

pub fn consumes_ref(op: u8) -> bool {
    matches!(op, b'M' | b'D' | b'N' | b'=' | b'X')
}

pub fn consumes_read(op: u8) -> bool {
    matches!(op, b'M' | b'I' | b'S' | b'=' | b'X')
}

fn kind_of(op: u8) -> Kind {
    match op {
        b'M' => Kind::Match,
        b'I' => Kind::Insertion,
        b'D' => Kind::Deletion,
        b'N' => Kind::Skip,
        b'S' => Kind::SoftClip,
        b'H' => Kind::HardClip,
        b'P' => Kind::Pad,
        b'=' => Kind::SequenceMatch,
        b'X' => Kind::SequenceMismatch,
        _ => panic!("harness: bad cigar op {op}"),
    }
}

fn char_of(kind: Kind) -> u8 {
    match kind {
        Kind::Match => b'M',
        Kind::Insertion => b'I',
        Kind::Deletion => b'D',
        Kind::Skip => b'N',
        Kind::SoftClip => b'S',
        Kind::HardClip => b'H',
        Kind::Pad => b'P',
        Kind::SequenceMatch => b'=',
        Kind::SequenceMismatch => b'X',
    }
}

impl Rec {
    pub fn is_unmapped(&self) -> bool {
        self.flags & UNMAPPED != 0
    }

    /// Σ M/D/N/=/X (SAM span rule).
    pub fn ref_span(&self) -> usize {
        self.cigar.iter().filter(|(op, _)| consumes_ref(*op)).map(|(_, n)| *n).sum()
    }

    pub fn read_len_from_cigar(&self) -> usize {
        self.cigar.iter().filter(|(op, _)| consumes_read(*op)).map(|(_, n)| *n).sum()
    }

    /// Last reference base covered (1-based, inclusive); `None` when unplaced or the span is 0.
    pub fn end(&self) -> Option<usize> {
        let p = self.pos?;
        let s = self.ref_span();
        if s == 0 { None } else { Some(p + s - 1) }
    }

    pub fn to_record_buf(&self) -> RecordBuf {
        let mut b = RecordBuf::builder().set_flags(Flags::from(self.flags));
        if let Some(n) = &self.name {
            b = b.set_name(BString::from(n.clone()));
        }
        if let Some(r) = self.rid {
            b = b.set_reference_sequence_id(r);
        }
        if let Some(p) = self.pos {
            b = b.set_alignment_start(Position::new(p).expect("pos >= 1"));
        }
        if let Some(q) = self.mapq {
            if let Some(q) = MappingQuality::new(q) {
                b = b.set_mapping_quality(q);
            }
        }
        let ops: Vec<Op> = self.cigar.iter().map(|(op, n)| Op::new(kind_of(*op), *n)).collect();
        b = b.set_cigar(ops.into());
        if let Some(r) = self.mrid {
            b = b.set_mate_reference_sequence_id(r);
        }
        if let Some(p) = self.mpos {
            b = b.set_mate_alignment_start(Position::new(p).expect("mpos >= 1"));
        }
        b = b.set_template_length(self.tlen);
        b = b.set_sequence(Sequence::from(self.seq.clone()));
        b = b.set_quality_scores(QualityScores::from(self.qual.clone()));
        let data = self
            .tags
            .iter()
            .map(|(t, v)| (Tag::new(t[0], t[1]), v.to_value()))
            .collect();
        b = b.set_data(data);
        b.build()
    }

    pub fn from_record_buf(r: &RecordBuf) -> Rec {
        Rec {
            name: r.name().map(|n| n.to_vec()),
            flags: u16::from(r.flags()),
            rid: r.reference_sequence_id(),
            pos: r.alignment_start().map(usize::from),
            mapq: r.mapping_quality().map(u8::from),
            cigar: r.cigar().as_ref().iter().map(|op| (char_of(op.kind()), op.len())).collect(),
            mrid: r.mate_reference_sequence_id(),
            mpos: r.mate_alignment_start().map(usize::from),
            tlen: r.template_length(),
            seq: r.sequence().as_ref().to_vec(),
            qual: r.quality_scores().as_ref().to_vec(),
            tags: r
                .data()
                .iter()
                .map(|(t, v)| {
                    let t: &[u8; 2] = t.as_ref();
                    (*t, Tv::from_value(v))
                })
                .collect(),
        }
    }

    /// CIGAR as CRAM can represent it: `=`/`X` become `M`, adjacent equal operations merge,
    /// zero-length operations vanish.
    pub fn cigar_normalised(&self) -> Vec<(u8, usize)> {
        let mut out: Vec<(u8, usize)> = Vec::new();
        for &(op, n) in &self.cigar {
            if n == 0 {
                continue;
            }
            let op = if op == b'=' || op == b'X' { b'M' } else { op };
            match out.last_mut() {
                Some((last, m)) if *last == op => *m += n,
                _ => out.push((op, n)),
            }
        }
        out
    }

    /// The eleven mandatory SAM columns, normalised, as named fields (for field-level diffs).
    pub fn columns(&self, ref_names: &[&str]) -> Vec<(&'static str, String)> {
        let rname = |r: Option<usize>| match r {
            Some(i) => ref_names.get(i).map(|s| s.to_string()).unwrap_or(format!("#{i}")),
            None => "*".to_string(),
        };
        let cigar = {
            let c = self.cigar_normalised();
            if c.is_empty() {
                "*".to_string()
            } else {
                c.iter().map(|(op, n)| format!("{n}{}", *op as char)).collect()
            }
        };
        let seq = if self.seq.is_empty() {
            "*".to_string()
        } else {
            self.seq.iter().map(|b| b.to_ascii_uppercase() as char).collect()
        };
        let qual = if self.qual.is_empty() {
            "*".to_string()
        } else {
            self.qual
                .iter()
                .map(|q| if *q <= 93 { (q + 33) as char } else { '\u{fffd}' })
                .collect()
        };
        let mut tags: Vec<String> = self
            .tags
            .iter()
            .map(|(t, v)| format!("{}{}:{}", t[0] as char, t[1] as char, v.render()))
            .collect();
        tags.sort();
        vec![
            ("name", self.name.as_ref().map(|n| String::from_utf8_lossy(n).into_owned()).unwrap_or("*".into())),
            ("flags", self.flags.to_string()),
            ("rname", rname(self.rid)),
            ("pos", self.pos.unwrap_or(0).to_string()),
            ("mapq", self.mapq.unwrap_or(255).to_string()),
            ("cigar", cigar),
            ("rnext", rname(self.mrid)),
            ("pnext", self.mpos.unwrap_or(0).to_string()),
            ("tlen", self.tlen.to_string()),
            ("seq", seq),
            ("qual", qual),
            ("tags", tags.join("\t")),
        ]
    }

    /// Normalised SAM line (tags sorted: CRAM keeps `RG` apart from the other tags, so tag order is
    /// not part of what the format stores).
    pub fn sam_line(&self, ref_names: &[&str]) -> String {
        let cols = self.columns(ref_names);
        let mut s = String::new();
        for (i, (_, v)) in cols.iter().enumerate() {
            if i == 11 && v.is_empty() {
                break;
            }
            if i > 0 {
                s.push('\t');
            }
            s.push_str(v);
        }
        s
    }

    /// Tags in their written order (to observe reordering without judging it).
    pub fn tag_order(&self) -> Vec<[u8; 2]> {
        self.tags.iter().map(|(t, _)| *t).collect()
    }

    /// A Rust literal that rebuilds the record through `RecordBuf::builder()` (for repro text).
    pub fn literal(&self) -> String {
        let cigar: String = self.cigar.iter().map(|(op, n)| format!("{n}{}", *op as char)).collect();
        format!(
            "Rec{{name:{:?},flags:{:#x},rid:{:?},pos:{:?},mapq:{:?},cigar:\"{}\",mrid:{:?},mpos:{:?},tlen:{},seq:{:?},qual:{:?},tags:{:?}}}",
            self.name.as_ref().map(|n| String::from_utf8_lossy(n).into_owned()),
            self.flags,
            self.rid,
            self.pos,
            self.mapq,
            cigar,
            self.mrid,
            self.mpos,
            self.tlen,
            String::from_utf8_lossy(&self.seq),
            self.qual,
            self.tags
                .iter()
                .map(|(t, v)| format!("{}{}:{}", t[0] as char, t[1] as char, v.render()))
                .collect::<Vec<_>>(),
        )
    }
}

/// First differing column between an expected and an observed record.
pub fn first_diff(
    expected: &Rec,
    observed: &Rec,
    ref_names: &[&str],
    accept_generated_name: bool,
) -> Option<(&'static str, String, String)> {
    let e = expected.columns(ref_names);
    let o = observed.columns(ref_names);
    for ((k, ev), (_, ov)) in e.iter().zip(o.iter()) {
        if *k == "name" && accept_generated_name {
            continue;
        }
        // CRAM stores MQ in the mapped-read part of a record only: the MAPQ of an unmapped read is
        // not representable (and not among the fields the statement lists)
        if *k == "mapq" && expected.is_unmapped() {
            continue;
        }
        if ev != ov {
            return Some((k, ev.clone(), ov.clone()));
        }
    }
    None
}

pub fn header_ref_names(h: &sam::Header) -> Vec<String> {
    h.reference_sequences().keys().map(|k| k.to_string()).collect()
}
