//! The small reference set shared by C07 and C19: three short sequences with upper case, lower
//! case, IUPAC codes and `N` runs, a `fasta::Repository` over them and the matching SAM header.

use std::num::NonZero;

use noodles_fasta as fasta;
use noodles_sam::{
    self as sam,
    header::record::value::{
        Map,
        map::{ReadGroup, ReferenceSequence},
    },
};

#[derive(Clone, Debug)]
pub struct RefSeq {
    pub name: &'static str,
    pub seq: Vec<u8>,
}

/// Read groups declared in the header (index = CRAM read group id).
pub const READ_GROUPS: [&str; 2] = ["rg0", "rg1"];

/// sq0: 60 bp, sq1: 24 bp (every `[a,b]` is enumerated on it), sq2: 200 bp.
pub fn references() -> Vec<RefSeq> {
    let sq0: Vec<u8> = [
        &b"ACGTACGTAC"[..], // 1-10 upper case
        b"acgtacgtac",      // 11-20 lower case
        b"NNNNACGTRY",      // 21-24 N, 29-30 IUPAC
        b"MKSWBDHVNA",      // 31-38 IUPAC, 39 N
        b"GATTACAGAT",      // 41-50
        b"TACACATTAG",      // 51-60
    ]
    .concat();
    let sq1: Vec<u8> = b"TTGACCAGTAgattNNRYACGTTG".to_vec();
    let mut sq2 = Vec::with_capacity(200);
    for i in 0..200usize {
        let mut b = b"ACGT"[(i * 7 + i / 3 + i / 11) % 4];
        if (50..70).contains(&i) {
            b = b.to_ascii_lowercase();
        }
        if (100..104).contains(&i) {
            b = b'N';
        }
        if (150..156).contains(&i) {
            b = b"RYKMSW"[i - 150];
        }
        sq2.push(b);
    }
    assert_eq!(sq0.len(), 60);
    assert_eq!(sq1.len(), 24);
    vec![
        RefSeq { name: "sq0", seq: sq0 },
        RefSeq { name: "sq1", seq: sq1 },
        RefSeq { name: "sq2", seq: sq2 },
    ]
}

pub fn repository(refs: &[RefSeq]) -> fasta::Repository {
    use fasta::record::{Definition, Sequence};
    let records: Vec<fasta::Record> = refs
        .iter()
        .map(|r| fasta::Record::new(Definition::new(r.name, None), Sequence::from(r.seq.clone())))
        .collect();
    fasta::Repository::new(records)
}

/// `@HD VN:1.6 SO:coordinate`, one `@SQ` per reference (no `M5`: the writer computes it), two `@RG`.
pub fn header(refs: &[RefSeq]) -> sam::Header {
    let mut b = sam::Header::builder().set_header(Default::default());
    for r in refs {
        let len = NonZero::try_from(r.seq.len()).expect("reference length");
        b = b.add_reference_sequence(r.name, Map::<ReferenceSequence>::new(len));
    }
    for rg in READ_GROUPS {
        b = b.add_read_group(rg, Map::<ReadGroup>::default());
    }
    b.build()
}

/// md5(upper(reference[start..=end])) with 1-based inclusive coordinates, as CRAM §8.5 defines the
/// slice reference checksum.
pub fn md5_of_span(r: &RefSeq, start: usize, end: usize) -> [u8; 16] {
    use md5::{Digest, Md5};
    let s: Vec<u8> = r.seq[start - 1..end].iter().map(|b| b.to_ascii_uppercase()).collect();
    let mut h = Md5::new();
    h.update(&s);
    h.finalize().into()
}
