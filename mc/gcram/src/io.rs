//! Driving the real CRAM writer and reader: configurations, encoder alphabet, write / read helpers
//! that turn errors and panics into classified failures.


use noodles_cram::{
    self as cram,
    codecs::{
        Encoder,
        aac::Flags as AacFlags,
        rans_4x8::Order,
        rans_nx16::Flags as NxFlags,
    },
    container::{
        BlockContentEncoderMap, block_content_encoder_map::Builder as MapBuilder,
        compression_header::data_series_encodings::DataSeries,
    },
};
use noodles_fasta as fasta;
use noodles_sam::{self as sam, alignment::io::Write as _};

use crate::rec::Rec;

pub const DATA_SERIES: [(DataSeries, &str); 28] = [
    (DataSeries::BamFlags, "BF"),
    (DataSeries::CramFlags, "CF"),
    (DataSeries::ReferenceSequenceIds, "RI"),
    (DataSeries::ReadLengths, "RL"),
    (DataSeries::AlignmentStarts, "AP"),
    (DataSeries::ReadGroupIds, "RG"),
    (DataSeries::Names, "RN"),
    (DataSeries::MateFlags, "MF"),
    (DataSeries::MateReferenceSequenceIds, "NS"),
    (DataSeries::MateAlignmentStarts, "NP"),
    (DataSeries::TemplateLengths, "TS"),
    (DataSeries::MateDistances, "NF"),
    (DataSeries::TagSetIds, "TL"),
    (DataSeries::FeatureCounts, "FN"),
    (DataSeries::FeatureCodes, "FC"),
    (DataSeries::FeaturePositionDeltas, "FP"),
    (DataSeries::DeletionLengths, "DL"),
    (DataSeries::StretchesOfBases, "BB"),
    (DataSeries::StretchesOfQualityScores, "QQ"),
    (DataSeries::BaseSubstitutionCodes, "BS"),
    (DataSeries::InsertionBases, "IN"),
    (DataSeries::ReferenceSkipLengths, "RS"),
    (DataSeries::PaddingLengths, "PD"),
    (DataSeries::HardClipLengths, "HC"),
    (DataSeries::SoftClipBases, "SC"),
    (DataSeries::MappingQualities, "MQ"),
    (DataSeries::Bases, "BA"),
    (DataSeries::QualityScores, "QS"),
];

/// An encoder of the alphabet: `(class name used in fingerprints, constructor)`.
#[derive(Clone, Debug, PartialEq)]
pub enum Enc {
    None,
    Gzip(u32),
    Bzip2(u32),
    Lzma(u32),
    R4x8o0,
    R4x8o1,
    Nx16(u8),
    Aac(u8),
    Tok3,
    Fqz,
}

fn flag_names(bits: u8, names: &[(u8, &str)]) -> String {
    let v: Vec<&str> = names.iter().filter(|(b, _)| bits & b != 0).map(|(_, n)| *n).collect();
    if v.is_empty() { "0".to_string() } else { v.join("|") }
}

impl Enc {
    /// Class used in fingerprints. For rANS Nx16 and the arithmetic coder the flag set is named
    /// without `NOSIZE` (it only drops the length prefix of the stream; over all 64 pairs of flag
    /// sets the observed symptom sets with and without it were identical).
    pub fn class(&self) -> String {
        match self {
            Enc::Nx16(f) if f & 0x10 != 0 => Enc::Nx16(f & !0x10).class(),
            Enc::Aac(f) if f & 0x10 != 0 => Enc::Aac(f & !0x10).class(),
            _ => self.full_name(),
        }
    }

    pub fn full_name(&self) -> String {
        match self {
            Enc::None => "none".into(),
            Enc::Gzip(l) => format!("gzip{l}"),
            Enc::Bzip2(l) => format!("bzip2-{l}"),
            Enc::Lzma(l) => format!("lzma{l}"),
            Enc::R4x8o0 => "rans4x8-o0".into(),
            Enc::R4x8o1 => "rans4x8-o1".into(),
            Enc::Nx16(f) => format!(
                "ransNx16-{}",
                flag_names(*f, &[(1, "ORDER"), (4, "N32"), (8, "STRIPE"), (0x10, "NOSIZE"), (0x20, "CAT"), (0x40, "RLE"), (0x80, "PACK")])
            ),
            Enc::Aac(f) => format!(
                "aac-{}",
                flag_names(*f, &[(1, "ORDER"), (4, "EXT"), (8, "STRIPE"), (0x10, "NOSIZE"), (0x20, "CAT"), (0x40, "RLE"), (0x80, "PACK")])
            ),
            Enc::Tok3 => "tok3".into(),
            Enc::Fqz => "fqzcomp".into(),
        }
    }

    pub fn build(&self) -> Option<Encoder> {
        match self {
            Enc::None => None,
            Enc::Gzip(l) => Some(Encoder::Gzip(flate2::Compression::new(*l))),
            Enc::Bzip2(l) => Some(Encoder::Bzip2(bzip2::Compression::new(*l))),
            Enc::Lzma(l) => Some(Encoder::Lzma(*l)),
            Enc::R4x8o0 => Some(Encoder::Rans4x8(Order::Zero)),
            Enc::R4x8o1 => Some(Encoder::Rans4x8(Order::One)),
            Enc::Nx16(f) => Some(Encoder::RansNx16(NxFlags::from(*f))),
            Enc::Aac(f) => Some(Encoder::AdaptiveArithmeticCoding(AacFlags::from(*f))),
            Enc::Tok3 => Some(Encoder::NameTokenizer),
            Enc::Fqz => Some(Encoder::Fqzcomp),
        }
    }

    pub fn is_3_1(&self) -> bool {
        matches!(self, Enc::Nx16(_) | Enc::Aac(_) | Enc::Tok3 | Enc::Fqz)
    }
}

/// Where an encoder is put.
#[derive(Clone, Debug, PartialEq)]
pub enum Target {
    /// the writer's default map, untouched
    DefaultMap,
    Core,
    Series(usize),
    /// every block the map does not name (tag value blocks)
    Tags,
    /// core, all 28 data series and the default (tags) at once
    AllSame,
}

impl Target {
    pub fn name(&self) -> String {
        match self {
            Target::DefaultMap => "all".into(),
            Target::Core => "core".into(),
            Target::Series(i) => DATA_SERIES[*i].1.into(),
            Target::Tags => "tags".into(),
            Target::AllSame => "all".into(),
        }
    }
}

#[derive(Clone, Debug)]
pub struct WriteCfg {
    /// `None` = the writer's own default (10240)
    pub records_per_slice: Option<usize>,
    /// 1 = what the real writer hard-codes; > 1 only together with `records_per_slice` (hook H4)
    pub slices_per_container: usize,
    pub preserve_names: bool,
    pub pos_delta: bool,
    pub target: Target,
    pub enc: Enc,
}

impl Default for WriteCfg {
    fn default() -> Self {
        WriteCfg { records_per_slice: None, slices_per_container: 1, preserve_names: true, pos_delta: true, target: Target::DefaultMap, enc: Enc::Gzip(6) }
    }
}

impl WriteCfg {
    pub fn encoder_map(&self) -> Option<BlockContentEncoderMap> {
        let e = self.enc.build();
        let b: MapBuilder = BlockContentEncoderMap::builder();
        match &self.target {
            Target::DefaultMap => None,
            Target::Core => Some(b.set_core_data_encoder(e).build()),
            Target::Series(i) => Some(b.set_data_series_encoder(DATA_SERIES[*i].0, e).build()),
            Target::Tags => Some(b.set_default_encoder(e).build()),
            Target::AllSame => {
                let mut b = b.set_core_data_encoder(e.clone()).set_default_encoder(e.clone());
                for (ds, _) in DATA_SERIES {
                    b = b.set_data_series_encoder(ds, e.clone());
                }
                Some(b.build())
            }
        }
    }

    pub fn describe(&self) -> String {
        format!(
            "records_per_slice={} slices_per_container={} preserve_read_names={} position_deltas={} encoder[{}]={}",
            self.records_per_slice.map(|n| n.to_string()).unwrap_or("default".into()),
            self.slices_per_container,
            self.preserve_names,
            self.pos_delta,
            self.target.name(),
            if self.target == Target::DefaultMap { "default-map".to_string() } else { self.enc.full_name() },
        )
    }

    /// encoder class for fingerprints
    pub fn enc_class(&self) -> String {
        if self.target == Target::DefaultMap { "default".into() } else { self.enc.class() }
    }
}

#[derive(Clone, Debug)]
pub struct Fail {
    /// `err:<normalised message>` or `panic:<normalised message>@<file>`
    pub symptom: String,
    pub detail: String,
}

fn classify<T>(r: Result<std::io::Result<T>, (String, String)>) -> Result<T, Fail> {
    match r {
        Ok(Ok(v)) => Ok(v),
        Ok(Err(e)) => Err(Fail {
            symptom: format!("err:{:?}:{}", e.kind(), vmc::normalise_msg(&e.to_string())),
            detail: format!("Err({:?}, {e})", e.kind()),
        }),
        Err((msg, file)) => {
            // path inside the repository, wherever the tree is checked out
            let file = file.find("noodles-").map(|i| file[i..].to_string()).unwrap_or(file);
            Err(Fail {
            symptom: format!("panic:{}@{}", vmc::normalise_msg(&msg), file),
            detail: format!("panic: {msg} in {file}"),
        })
        }
    }
}

/// Writes `recs` with the real writer into `sink`. `Err` carries the step (`header`, `record`,
/// `finish`) and the classified failure.
pub fn write_cram_to<W: std::io::Write>(
    sink: W,
    repo: &fasta::Repository,
    header: &sam::Header,
    recs: &[Rec],
    cfg: &WriteCfg,
) -> Result<W, (&'static str, Fail)> {
    let bufs: Vec<sam::alignment::RecordBuf> = recs.iter().map(|r| r.to_record_buf()).collect();
    let mut b = cram::io::writer::Builder::default()
        .set_reference_sequence_repository(repo.clone())
        .preserve_read_names(cfg.preserve_names)
        .encode_alignment_start_positions_as_deltas(cfg.pos_delta);
    if let Some(m) = cfg.encoder_map() {
        b = b.set_block_content_encoder_map(m);
    }
    let mut w = b.build_from_writer(sink);
    if let Some(n) = cfg.records_per_slice {
        w.verif_set_layout(n, cfg.slices_per_container.max(1));
    }
    classify(vmc::catch(|| w.write_header(header))).map_err(|f| ("header", f))?;
    for r in &bufs {
        classify(vmc::catch(|| w.write_alignment_record(header, r))).map_err(|f| ("record", f))?;
    }
    classify(vmc::catch(|| w.try_finish(header))).map_err(|f| ("finish", f))?;
    let mut inner = w.into_inner();
    let _ = inner.flush();
    Ok(inner)
}

pub fn write_cram(
    repo: &fasta::Repository,
    header: &sam::Header,
    recs: &[Rec],
    cfg: &WriteCfg,
) -> Result<Vec<u8>, (&'static str, Fail)> {
    write_cram_to(Vec::new(), repo, header, recs, cfg)
}

/// Full scan with the real reader.
pub fn read_cram(bytes: &[u8], repo: &fasta::Repository) -> Result<(sam::Header, Vec<Rec>), (&'static str, Fail)> {
    let mut r = cram::io::reader::Builder::default()
        .set_reference_sequence_repository(repo.clone())
        .build_from_reader(bytes);
    let header = classify(vmc::catch(|| r.read_header())).map_err(|f| ("header", f))?;
    let max = bytes.len() + 1000;
    let recs = classify(vmc::catch(|| {
        let mut out = Vec::new();
        for (i, res) in r.records(&header).enumerate() {
            out.push(Rec::from_record_buf(&res?));
            if i > max {
                return Err(std::io::Error::other("harness: reader yields more records than the file has bytes"));
            }
        }
        Ok(out)
    }))
    .map_err(|f| ("records", f))?;
    Ok((header, recs))
}

/// A record the writer must refuse (`Err`), by kind. The first group is built as `RecordBuf`, the
/// second as a lazy `sam::Record` parsed from a SAM line whose named field is malformed.
#[derive(Clone, Copy, Debug, PartialEq)]
pub enum Reject {
    UndeclaredReadGroup,
    ReadGroupNotAString,
    LineUnknownReference,
    LineUnknownMateReference,
    LineBadFlags,
    LineBadPosition,
    LineBadMappingQuality,
    LineBadCigarOp,
    LineBadTemplateLength,
    LineBadQualityChar,
    LineBadAuxType,
    LineUndeclaredReadGroup,
}

pub const REJECTS: [Reject; 12] = [
    Reject::UndeclaredReadGroup,
    Reject::ReadGroupNotAString,
    Reject::LineUnknownReference,
    Reject::LineUnknownMateReference,
    Reject::LineBadFlags,
    Reject::LineBadPosition,
    Reject::LineBadMappingQuality,
    Reject::LineBadCigarOp,
    Reject::LineBadTemplateLength,
    Reject::LineBadQualityChar,
    Reject::LineBadAuxType,
    Reject::LineUndeclaredReadGroup,
];

impl Reject {
    /// SAM line of the lazy kinds (bases match sq0:10-17 so that only the named field is wrong).
    pub fn line(&self) -> Option<&'static str> {
        Some(match self {
            Reject::UndeclaredReadGroup | Reject::ReadGroupNotAString => return None,
            Reject::LineUnknownReference => "bad\t0\tnope\t10\t30\t8M\t*\t0\t0\tCACGTACG\tIIIIIIII",
            Reject::LineUnknownMateReference => "bad\t1\tsq0\t10\t30\t8M\tnope\t5\t0\tCACGTACG\tIIIIIIII",
            Reject::LineBadFlags => "bad\tzz\tsq0\t10\t30\t8M\t*\t0\t0\tCACGTACG\tIIIIIIII",
            Reject::LineBadPosition => "bad\t0\tsq0\t-4\t30\t8M\t*\t0\t0\tCACGTACG\tIIIIIIII",
            Reject::LineBadMappingQuality => "bad\t0\tsq0\t10\t999\t8M\t*\t0\t0\tCACGTACG\tIIIIIIII",
            Reject::LineBadCigarOp => "bad\t0\tsq0\t10\t30\t4M2Q2M\t*\t0\t0\tCACGTACG\tIIIIIIII",
            Reject::LineBadTemplateLength => "bad\t0\tsq0\t10\t30\t8M\t*\t0\tx\tCACGTACG\tIIIIIIII",
            Reject::LineBadQualityChar => "bad\t0\tsq0\t10\t30\t8M\t*\t0\t0\tCACGTACG\tIIII\x01III",
            Reject::LineBadAuxType => "bad\t0\tsq0\t10\t30\t8M\t*\t0\t0\tCACGTACG\tIIIIIIII\tXX:q:1",
            Reject::LineUndeclaredReadGroup => "bad\t0\tsq0\t10\t30\t8M\t*\t0\t0\tCACGTACG\tIIIIIIII\tRG:Z:nope",
        })
    }

    pub fn describe(&self) -> String {
        match self.line() {
            Some(l) => format!("{self:?}: sam::Record::try_from({:?})", l),
            None => format!("{self:?}: RecordBuf 8M on sq0:10 with tag {}", if *self == Reject::UndeclaredReadGroup { "RG:Z:nope" } else { "RG:i:1" }),
        }
    }
}

#[derive(Clone, Debug)]
pub enum WriteOp {
    Accept(Rec),
    Reject(Reject),
}

#[derive(Clone, Debug, PartialEq)]
pub enum OpOutcome {
    Ok,
    Err(String),
    Panic(String),
}

/// Runs a sequence of writes — some of which must be refused — on ONE writer instance and finishes
/// it. Returns the outcome of every write, of `try_finish`, and the bytes.
pub fn write_cram_ops(
    repo: &fasta::Repository,
    header: &sam::Header,
    ops: &[WriteOp],
    cfg: &WriteCfg,
) -> (Vec<OpOutcome>, OpOutcome, Vec<u8>) {
    use crate::rec::Tv;
    let mut b = cram::io::writer::Builder::default()
        .set_reference_sequence_repository(repo.clone())
        .preserve_read_names(cfg.preserve_names)
        .encode_alignment_start_positions_as_deltas(cfg.pos_delta);
    if let Some(m) = cfg.encoder_map() {
        b = b.set_block_content_encoder_map(m);
    }
    let mut w = b.build_from_writer(Vec::new());
    if let Some(n) = cfg.records_per_slice {
        w.verif_set_layout(n, cfg.slices_per_container.max(1));
    }
    let to_outcome = |r: Result<std::io::Result<()>, (String, String)>| match r {
        Ok(Ok(())) => OpOutcome::Ok,
        Ok(Err(e)) => OpOutcome::Err(format!("{:?}: {e}", e.kind())),
        Err((m, f)) => OpOutcome::Panic(format!("{m} in {f}")),
    };
    let mut outcomes = Vec::new();
    if let o @ (OpOutcome::Err(_) | OpOutcome::Panic(_)) = to_outcome(vmc::catch(|| w.write_header(header))) {
        return (outcomes, o, Vec::new());
    }
    for op in ops {
        let o = match op {
            WriteOp::Accept(r) => {
                let buf = r.to_record_buf();
                to_outcome(vmc::catch(|| w.write_alignment_record(header, &buf)))
            }
            WriteOp::Reject(k) => match k.line() {
                Some(line) => match sam::Record::try_from(line.as_bytes()) {
                    Ok(lazy) => to_outcome(vmc::catch(|| w.write_alignment_record(header, &lazy))),
                    // refused even earlier, by the line splitter: still a refusal, nothing reached the writer
                    Err(e) => OpOutcome::Err(format!("(sam::Record::try_from) {e}")),
                },
                None => {
                    let mut r = Rec {
                        name: Some(b"bad".to_vec()),
                        flags: 0,
                        rid: Some(0),
                        pos: Some(10),
                        mapq: Some(30),
                        cigar: vec![(b'M', 8)],
                        mrid: None,
                        mpos: None,
                        tlen: 0,
                        seq: b"CACGTACG".to_vec(),
                        qual: vec![40; 8],
                        tags: Vec::new(),
                    };
                    r.tags.push((
                        [b'R', b'G'],
                        if *k == Reject::UndeclaredReadGroup { Tv::Z(b"nope".to_vec()) } else { Tv::I32(1) },
                    ));
                    let buf = r.to_record_buf();
                    to_outcome(vmc::catch(|| w.write_alignment_record(header, &buf)))
                }
            },
        };
        let stop = matches!(o, OpOutcome::Panic(_));
        outcomes.push(o);
        if stop {
            return (outcomes, OpOutcome::Ok, Vec::new());
        }
    }
    let fin = to_outcome(vmc::catch(|| w.try_finish(header)));
    (outcomes, fin, w.into_inner())
}
