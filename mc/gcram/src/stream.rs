//! Record-stream grammar (DESIGN §2.2): a few base streams of proto-records, per-record field
//! deviations taken from small ordered alphabets (first element = default), and a finalisation step
//! that sorts the stream and computes *mutually consistent* mate fields and TLEN from the final
//! coordinates of both records.

use vmc::Chooser;

use crate::{
    rec::{self, Rec, Tv},
    refs::RefSeq,
};

/// One segment of a CIGAR shape; the read bases are derived from the reference.
#[derive(Clone, Copy, Debug, PartialEq)]
pub enum Seg {
    /// `M`, read base = reference base (upper case)
    M(usize),
    /// `=`
    Eq(usize),
    /// `X` with mismatching bases
    X(usize),
    /// `M` with mismatching A/C/G/T bases (→ substitution, or read-base when the reference is IUPAC)
    Mis(usize),
    /// `M` with read base `N` (reference is not `N`)
    MisN(usize),
    /// `M` with a non-ACGTN read base
    MisIupac(usize),
    I(usize),
    D(usize),
    N(usize),
    S(usize),
    H(usize),
    P(usize),
}

pub struct Shape {
    pub name: &'static str,
    pub segs: &'static [Seg],
}

use Seg::*;

pub const SHAPES: &[Shape] = &[
    Shape { name: "8M", segs: &[M(8)] },
    Shape { name: "1M", segs: &[M(1)] },
    Shape { name: "3M-sub-4M", segs: &[M(3), Mis(1), M(4)] },
    Shape { name: "3=1X4=", segs: &[Eq(3), X(1), Eq(4)] },
    Shape { name: "4M2I4M", segs: &[M(4), I(2), M(4)] },
    Shape { name: "4M1I4M", segs: &[M(4), I(1), M(4)] },
    Shape { name: "4M2D4M", segs: &[M(4), D(2), M(4)] },
    Shape { name: "4M1D3M", segs: &[M(4), D(1), M(3)] },
    Shape { name: "3M5N3M", segs: &[M(3), N(5), M(3)] },
    Shape { name: "2S6M", segs: &[S(2), M(6)] },
    Shape { name: "6M1S", segs: &[M(6), S(1)] },
    Shape { name: "2H6M3H", segs: &[H(2), M(6), H(3)] },
    Shape { name: "3M1I2P1I3M", segs: &[M(3), I(1), P(2), I(1), M(3)] },
    Shape { name: "3M-N-4M", segs: &[M(3), MisN(1), M(4)] },
    Shape { name: "3M-iupac-4M", segs: &[M(3), MisIupac(1), M(4)] },
    Shape { name: "1M1I1M1D1M", segs: &[M(1), I(1), M(1), D(1), M(1)] },
    Shape {
        name: "mix",
        segs: &[H(1), S(2), M(2), I(1), M(2), D(2), Mis(1), M(2), N(3), M(1), MisN(1), S(1)],
    },
    Shape { name: "6sub", segs: &[Mis(6)] },
    Shape { name: "1S2I4M", segs: &[S(1), I(2), M(4)] },
    Shape { name: "sub-first-and-last", segs: &[Mis(1), M(4), Mis(1)] },
    Shape { name: "1X", segs: &[X(1)] },
];

pub fn shape_ref_span(shape: usize) -> usize {
    SHAPES[shape]
        .segs
        .iter()
        .map(|s| match s {
            M(n) | Eq(n) | X(n) | Mis(n) | MisN(n) | MisIupac(n) | D(n) | N(n) => *n,
            _ => 0,
        })
        .sum()
}

fn mismatch_base(refb: u8, salt: usize) -> u8 {
    let u = refb.to_ascii_uppercase();
    for k in 0..4 {
        let c = b"ACGT"[(salt + k) % 4];
        if c != u {
            return c;
        }
    }
    b'A'
}

/// CIGAR and read bases of a shape placed at 1-based `pos` (the caller guarantees that the shape
/// fits inside the reference).
pub fn realise(shape: usize, r: &RefSeq, pos: usize) -> (Vec<(u8, usize)>, Vec<u8>) {
    let mut cigar: Vec<(u8, usize)> = Vec::new();
    let mut seq = Vec::new();
    let mut rp = pos - 1;
    let ins = b"GATTACAT";
    let mut push = |op: u8, n: usize| match cigar.last_mut() {
        Some((last, m)) if *last == op => *m += n,
        _ => cigar.push((op, n)),
    };
    for seg in SHAPES[shape].segs {
        match *seg {
            M(n) => {
                push(b'M', n);
                for _ in 0..n {
                    seq.push(r.seq[rp].to_ascii_uppercase());
                    rp += 1;
                }
            }
            Eq(n) => {
                push(b'=', n);
                for _ in 0..n {
                    seq.push(r.seq[rp].to_ascii_uppercase());
                    rp += 1;
                }
            }
            X(n) | Mis(n) => {
                push(if matches!(seg, X(_)) { b'X' } else { b'M' }, n);
                for _ in 0..n {
                    seq.push(mismatch_base(r.seq[rp], rp));
                    rp += 1;
                }
            }
            MisN(n) => {
                push(b'M', n);
                for _ in 0..n {
                    seq.push(if r.seq[rp].to_ascii_uppercase() == b'N' { b'A' } else { b'N' });
                    rp += 1;
                }
            }
            MisIupac(n) => {
                push(b'M', n);
                for _ in 0..n {
                    seq.push(if r.seq[rp].to_ascii_uppercase() == b'K' { b'R' } else { b'K' });
                    rp += 1;
                }
            }
            I(n) => {
                push(b'I', n);
                for k in 0..n {
                    seq.push(ins[(seq.len() + k) % ins.len()]);
                }
            }
            S(n) => {
                push(b'S', n);
                for k in 0..n {
                    seq.push(ins[(seq.len() + k + 3) % ins.len()]);
                }
            }
            D(n) => {
                push(b'D', n);
                rp += n;
            }
            N(n) => {
                push(b'N', n);
                rp += n;
            }
            H(n) => push(b'H', n),
            P(n) => push(b'P', n),
        }
    }
    (cigar, seq)
}

#[derive(Clone, Copy, Debug, PartialEq)]
pub enum Place {
    Mapped,
    /// flag 0x4 but RNAME/POS set
    PlacedUnmapped,
    Unplaced,
}

#[derive(Clone, Copy, Debug, PartialEq)]
pub enum Role {
    Single,
    First,
    Last,
    /// supplementary alignment of the first / last segment
    SuppOfFirst,
    /// secondary alignment of the last segment
    SecOfLast,
}

#[derive(Clone, Copy, Debug, PartialEq)]
pub enum NameKind {
    Default,
    Missing,
    Long,
    Punct,
    Numeric,
    SameAsR0,
}

#[derive(Clone, Copy, Debug, PartialEq)]
pub enum QualKind {
    Varied,
    Missing,
    Same,
    WithZero,
    With93,
}

#[derive(Clone, Copy, Debug, PartialEq)]
pub enum PosKind {
    Base,
    First,
    Lower,
    IntoN,
    Iupac,
    AtEnd,
}

#[derive(Clone, Debug)]
pub struct Proto {
    pub id: usize,
    pub template: Option<usize>,
    pub role: Role,
    pub name: NameKind,
    pub place: Place,
    pub rid: usize,
    pub pos: usize,
    pub shape: usize,
    /// read length when unmapped
    pub ulen: usize,
    pub bases: bool,
    pub qual: QualKind,
    pub reverse: bool,
    pub xflags: u16,
    pub mapq: Option<u8>,
    pub tags: usize,
    pub rg: usize,
}

impl Proto {
    pub fn mapped(id: usize, rid: usize, pos: usize, shape: usize) -> Proto {
        Proto {
            id,
            template: None,
            role: Role::Single,
            name: NameKind::Default,
            place: Place::Mapped,
            rid,
            pos,
            shape,
            ulen: 8,
            bases: true,
            qual: QualKind::Varied,
            reverse: false,
            xflags: 0,
            mapq: Some(30),
            tags: 0,
            rg: 0,
        }
    }
    pub fn unplaced(id: usize, len: usize) -> Proto {
        let mut p = Proto::mapped(id, 0, 1, 0);
        p.place = Place::Unplaced;
        p.ulen = len;
        p.mapq = Some(0);
        p
    }
    pub fn pair(mut self, template: usize, role: Role) -> Proto {
        self.template = Some(template);
        self.role = role;
        self
    }
    pub fn rev(mut self) -> Proto {
        self.reverse = true;
        self
    }
    pub fn tags(mut self, t: usize) -> Proto {
        self.tags = t;
        self
    }
    pub fn rg(mut self, g: usize) -> Proto {
        self.rg = g;
        self
    }
    pub fn placed_unmapped(mut self) -> Proto {
        self.place = Place::PlacedUnmapped;
        self
    }
    /// read length of an unmapped read (0 together with `no_bases` = `SEQ *`)
    pub fn ulen(mut self, n: usize) -> Proto {
        self.ulen = n;
        self
    }
    pub fn no_bases(mut self) -> Proto {
        self.bases = false;
        self
    }
    /// class string used in fingerprints: placement/role
    pub fn class(&self) -> String {
        let p = match self.place {
            Place::Mapped => "mapped",
            Place::PlacedUnmapped => "placed-unmapped",
            Place::Unplaced => "unplaced",
        };
        let r = match self.role {
            Role::Single => "single",
            Role::First | Role::Last => "mate",
            Role::SuppOfFirst => "supplementary-of-mate",
            Role::SecOfLast => "secondary-of-mate",
        };
        format!("{p}/{r}")
    }
}

/// Tag sets: every aux type appears in at least one of them.
pub fn tag_set(i: usize) -> Vec<([u8; 2], Tv)> {
    let t = |s: &str| -> [u8; 2] { [s.as_bytes()[0], s.as_bytes()[1]] };
    match i {
        0 => vec![],
        1 => vec![(t("NM"), Tv::U8(1))],
        2 => vec![(t("XA"), Tv::A(b'Q'))],
        3 => vec![(t("Xc"), Tv::I8(-5)), (t("XC"), Tv::U8(200))],
        4 => vec![(t("Xs"), Tv::I16(-300)), (t("XS"), Tv::U16(65535))],
        5 => vec![(t("Xi"), Tv::I32(-70000)), (t("XI"), Tv::U32(4000000000))],
        6 => vec![(t("Xf"), Tv::F(1.5)), (t("Xg"), Tv::F(-0.1))],
        7 => vec![(t("XZ"), Tv::Z(b"hello world".to_vec()))],
        8 => vec![(t("XZ"), Tv::Z(Vec::new()))],
        9 => vec![(t("XH"), Tv::H(b"1AE301".to_vec()))],
        10 => vec![(t("Bc"), Tv::BI8(vec![-1, 0, 1])), (t("BC"), Tv::BU8(vec![0, 255]))],
        11 => vec![(t("Bs"), Tv::BI16(vec![-32768, 32767])), (t("BS"), Tv::BU16(vec![65535]))],
        12 => vec![(t("Bi"), Tv::BI32(vec![i32::MIN, i32::MAX])), (t("BI"), Tv::BU32(vec![u32::MAX, 7]))],
        13 => vec![(t("Bf"), Tv::BF(vec![0.0, 2.5, -1e10]))],
        14 => vec![(t("Be"), Tv::BU8(Vec::new()))],
        15 => vec![
            (t("NM"), Tv::U8(2)),
            (t("AS"), Tv::I16(-12)),
            (t("XZ"), Tv::Z(b"a b".to_vec())),
            (t("MD"), Tv::Z(b"3A4".to_vec())),
        ],
        // the same tag as set 1 with a different integer width (distinct CRAM tag key)
        16 => vec![(t("NM"), Tv::I32(100000))],
        _ => vec![(t("NM"), Tv::U8(1)), (t("XA"), Tv::A(b'x'))],
    }
}
pub const N_TAG_SETS: usize = 18;

/// rg index: 0 none, 1 `rg0`, 2 `rg1`, 3 a group the header does not declare (the writer rejects).
pub fn rg_name(i: usize) -> Option<&'static str> {
    match i {
        0 => None,
        1 => Some("rg0"),
        2 => Some("rg1"),
        _ => Some("nope"),
    }
}

pub const BASE_STREAMS: &[&str] = &["single", "multi", "pairs", "pairs-special", "supp", "rich", "shapes"];

pub fn base_stream(which: usize) -> Vec<Proto> {
    use Role::*;
    let m = Proto::mapped;
    let u = Proto::unplaced;
    match BASE_STREAMS[which] {
        "single" => vec![m(0, 0, 3, 0), m(1, 0, 10, 0), m(2, 0, 10, 0), m(3, 0, 30, 0)],
        "multi" => vec![
            m(0, 0, 5, 0),
            m(1, 0, 20, 0),
            m(2, 1, 2, 0),
            m(3, 1, 9, 0),
            m(4, 2, 50, 0),
            u(5, 8),
            u(6, 6),
        ],
        "pairs" => vec![
            m(0, 0, 4, 0).pair(0, First),
            m(1, 0, 8, 0).pair(0, Last).rev(),
            m(2, 0, 12, 0),
            m(3, 0, 20, 0).pair(1, First),
            m(4, 0, 30, 0).pair(2, First).rev(),
            m(5, 0, 40, 0).pair(1, Last).rev(),
            m(6, 0, 45, 0).pair(2, Last),
        ],
        "pairs-special" => vec![
            m(0, 0, 5, 0).pair(0, First),
            m(1, 0, 25, 0).pair(1, First),
            m(2, 0, 25, 0).pair(1, Last).placed_unmapped(),
            m(3, 1, 3, 0).pair(0, Last).rev(),
            u(4, 8).pair(2, First),
            u(5, 8).pair(2, Last),
        ],
        "supp" => vec![
            m(0, 0, 4, 0).pair(0, First),
            m(1, 0, 20, 9).pair(0, SuppOfFirst),
            m(2, 0, 40, 0).pair(0, Last).rev(),
            m(3, 1, 5, 0).pair(0, SecOfLast),
        ],
        "rich" => vec![
            m(0, 0, 2, 16).tags(15).rg(1),
            m(1, 0, 8, 2).pair(0, First).rev(),
            m(2, 0, 15, 4).tags(10),
            m(3, 0, 27, 14),
            m(4, 0, 33, 9).pair(0, Last),
            m(5, 1, 3, 6).rg(2),
            m(6, 1, 10, 11).tags(2),
            u(7, 8),
            u(8, 5).tags(6),
        ],
        // C19: every record shape that matters for "does it overlap": span != read length in both
        // directions (clips, insertions, deletions, skips, pads), CIGAR-less placed reads with and
        // without bases (SAM: they cover [POS, POS]), reads at position 1 and on the last base, two
        // records that differ in their mate fields only, records of an EARLIER reference at HIGHER
        // coordinates than everything on the next one, three references + unplaced tail
        "shapes" => {
            let pu = |id: usize, rid: usize, pos: usize, len: usize| {
                let p = m(id, rid, pos, 0).placed_unmapped().ulen(len);
                if len == 0 { p.no_bases() } else { p }
            };
            vec![
                m(0, 0, 40, 0),
                m(1, 0, 52, 10),
                pu(2, 1, 1, 0),
                m(3, 1, 1, 1),
                m(4, 1, 2, 9),
                pu(5, 1, 4, 8),
                m(6, 1, 5, 4),
                m(7, 1, 7, 6),
                pu(8, 1, 10, 0),
                m(9, 1, 11, 8),
                m(10, 1, 13, 11),
                m(11, 1, 15, 12),
                m(12, 1, 17, 0).pair(0, First),
                m(13, 1, 17, 0).pair(0, Last).rev(),
                pu(14, 1, 18, 7),
                m(15, 1, 24, 1),
                pu(16, 1, 24, 0),
                m(17, 2, 1, 0),
                pu(18, 2, 100, 8),
                m(19, 2, 193, 0),
                u(20, 8),
                u(21, 5),
            ]
        }
        _ => unreachable!(),
    }
}

/// Which record fields the explorer may deviate.
#[derive(Clone, Copy, Debug)]
pub struct DevSet {
    pub shape: bool,
    pub position: bool,
    pub placement: bool,
    pub content: bool,
    pub naming: bool,
    pub flags: bool,
    pub tags: bool,
}

impl DevSet {
    pub const ALL: DevSet =
        DevSet { shape: true, position: true, placement: true, content: true, naming: true, flags: true, tags: true };
    /// the fields that decide where a record lies (C19)
    pub const GEOMETRY: DevSet =
        DevSet { shape: true, position: true, placement: true, content: false, naming: false, flags: false, tags: false };
    pub const NONE: DevSet =
        DevSet { shape: false, position: false, placement: false, content: false, naming: false, flags: false, tags: false };
}

/// Applies the deviation choices of one record. Returns the list of deviations taken (for the
/// decoded description).
pub fn deviate(ch: &Chooser, p: &mut Proto, set: DevSet, taken: &mut Vec<String>) {
    let id = p.id;
    let mut note = |what: &str, v: String| taken.push(format!("r{id}.{what}={v}"));
    if set.shape && p.place == Place::Mapped {
        let k = ch.dev("shape", SHAPES.len());
        if k != 0 {
            // index 0 = keep the base shape; the others are the alphabet in order, skipping the base
            let alt: Vec<usize> = (0..SHAPES.len()).filter(|s| *s != p.shape).collect();
            p.shape = alt[k - 1];
            note("shape", SHAPES[p.shape].name.to_string());
        }
    }
    if set.position && p.place != Place::Unplaced {
        let kinds = [PosKind::Base, PosKind::First, PosKind::Lower, PosKind::IntoN, PosKind::Iupac, PosKind::AtEnd];
        let k = *ch.pick("pos", &kinds);
        match k {
            PosKind::Base => {}
            PosKind::First => p.pos = 1,
            PosKind::Lower => p.pos = 11,
            PosKind::IntoN => p.pos = 19,
            PosKind::Iupac => p.pos = 27,
            PosKind::AtEnd => p.pos = usize::MAX,
        }
        if k != PosKind::Base {
            note("pos", format!("{k:?}"));
        }
        if ch.dev("rid", 2) == 1 {
            p.rid = (p.rid + 1) % 3;
            note("rid", p.rid.to_string());
        }
    }
    if set.placement {
        match p.place {
            Place::Mapped => match ch.dev("place", 3) {
                1 => {
                    p.place = Place::PlacedUnmapped;
                    note("place", "placed-unmapped".into());
                }
                2 => {
                    p.place = Place::Unplaced;
                    note("place", "unplaced".into());
                }
                _ => {}
            },
            Place::PlacedUnmapped => {
                if ch.dev("place", 2) == 1 {
                    p.place = Place::Unplaced;
                    note("place", "unplaced".into());
                }
            }
            Place::Unplaced => {
                if ch.dev("place", 2) == 1 {
                    p.place = Place::PlacedUnmapped;
                    p.rid = 0;
                    p.pos = 10;
                    note("place", "placed-unmapped".into());
                }
            }
        }
    }
    if set.content {
        if ch.dev("bases", 2) == 1 {
            p.bases = false;
            note("bases", "missing".into());
        }
        let q = *ch.pick(
            "qual",
            &[QualKind::Varied, QualKind::Missing, QualKind::Same, QualKind::WithZero, QualKind::With93],
        );
        if q != QualKind::Varied {
            p.qual = q;
            note("qual", format!("{q:?}"));
        }
        if p.place != Place::Mapped {
            let l = *ch.pick("ulen", &[usize::MAX, 1, 0, 20]);
            if l != usize::MAX {
                p.ulen = l;
                note("ulen", l.to_string());
            }
        }
    }
    if set.naming {
        let n = *ch.pick(
            "name",
            &[NameKind::Default, NameKind::Missing, NameKind::Long, NameKind::Punct, NameKind::Numeric, NameKind::SameAsR0],
        );
        if n != NameKind::Default {
            p.name = n;
            note("name", format!("{n:?}"));
        }
    }
    if set.flags {
        if ch.dev("strand", 2) == 1 {
            p.reverse = !p.reverse;
            note("strand", "flipped".into());
        }
        let x = *ch.pick("xflags", &[0u16, rec::SECONDARY, rec::SUPPLEMENTARY, rec::QCFAIL, rec::DUPLICATE]);
        if x != 0 {
            p.xflags |= x;
            note("xflags", format!("{x:#x}"));
        }
        let q = *ch.pick("mapq", &[Some(30u8), Some(0), None, Some(254)]);
        if q != Some(30) {
            p.mapq = q;
            note("mapq", format!("{q:?}"));
        }
    }
    if set.tags {
        let t = ch.dev("tags", N_TAG_SETS);
        if t != 0 {
            let alt: Vec<usize> = (0..N_TAG_SETS).filter(|s| *s != p.tags).collect();
            p.tags = alt[t - 1];
            note("tags", p.tags.to_string());
        }
        let g = ch.dev("rg", 4);
        if g != 0 {
            let alt: Vec<usize> = (0..4).filter(|s| *s != p.rg).collect();
            p.rg = alt[g - 1];
            note("rg", format!("{:?}", rg_name(p.rg)));
        }
    }
}

fn quals(kind: QualKind, n: usize, salt: usize) -> Vec<u8> {
    (0..n)
        .map(|i| match kind {
            QualKind::Varied => 10 + ((i * 7 + salt * 3) % 30) as u8,
            QualKind::Missing => 0,
            QualKind::Same => 30,
            QualKind::WithZero => {
                if i % 2 == 0 {
                    0
                } else {
                    40
                }
            }
            QualKind::With93 => {
                if i % 3 == 0 {
                    93
                } else {
                    20
                }
            }
        })
        .collect()
}

fn default_name(p: &Proto) -> Vec<u8> {
    match p.template {
        Some(t) => format!("t{t}").into_bytes(),
        None => format!("r{}", p.id).into_bytes(),
    }
}

/// Names of *templates* stay distinct from each other under every name kind (records that share a
/// QNAME are one template by definition, so two templates with one name would be a four-segment
/// template with inconsistent mate fields — outside the statement). Unpaired records may collide.
fn name_of(kind: NameKind, p: &Proto) -> Option<Vec<u8>> {
    let t: Vec<u8> = match p.template {
        Some(t) => format!("t{t}").into_bytes(),
        None => Vec::new(),
    };
    match kind {
        NameKind::Default => Some(default_name(p)),
        NameKind::Missing => None,
        NameKind::Long => {
            let mut n = t.clone();
            n.resize(254, b'L');
            Some(n)
        }
        NameKind::Punct => Some([&b"x!#$%&'()+,-./:;<=>?[]^_`{|}~"[..], &t].concat()),
        NameKind::Numeric => Some(if t.is_empty() { b"1".to_vec() } else { t[1..].to_vec() }),
        NameKind::SameAsR0 => Some([&b"r0"[..], &t].concat()),
    }
}

/// A finalised stream: the records in file order plus, per record, the proto it came from.
pub struct Stream {
    pub recs: Vec<Rec>,
    pub protos: Vec<Proto>,
    /// class of each record for fingerprints: placement/role[/relation to its mate]
    pub classes: Vec<String>,
}

/// Sorts the protos and computes every field, including consistent mate fields and TLEN.
pub fn finalise(mut protos: Vec<Proto>, refs: &[RefSeq]) -> Stream {
    // a placed unmapped mate sits at its mapped mate's coordinates (SAM recommended practice)
    for i in 0..protos.len() {
        if protos[i].place == Place::PlacedUnmapped
            && matches!(protos[i].role, Role::First | Role::Last)
        {
            let other = if protos[i].role == Role::First { Role::Last } else { Role::First };
            if let Some(m) = protos
                .iter()
                .find(|q| q.template == protos[i].template && q.role == other && q.place == Place::Mapped)
                .cloned()
            {
                protos[i].rid = m.rid;
                protos[i].pos = m.pos;
            }
        }
    }
    // clamp positions so that no read hangs off the reference end
    for p in protos.iter_mut() {
        if p.place == Place::Unplaced {
            continue;
        }
        let l = refs[p.rid].seq.len();
        // a placed unmapped read occupies its POS only: its bases may run past the reference end (an
        // unmapped mate placed at the position of a read mapped near the end of the reference)
        let span = if p.place == Place::Mapped { shape_ref_span(p.shape) } else { 1 };
        let span = span.min(l);
        if p.pos == usize::MAX || p.pos + span - 1 > l {
            p.pos = l - span + 1;
        }
        if p.pos < 1 {
            p.pos = 1;
        }
    }
    // coordinate sort, unplaced last, stable
    let mut order: Vec<usize> = (0..protos.len()).collect();
    order.sort_by_key(|&i| {
        let p = &protos[i];
        match p.place {
            Place::Unplaced => (usize::MAX, 0, i),
            _ => (p.rid, p.pos, i),
        }
    });
    let protos: Vec<Proto> = order.into_iter().map(|i| protos[i].clone()).collect();

    // a template's name: that of its first member with a non-default name kind
    let template_name = |t: usize| -> Option<Vec<u8>> {
        let members: Vec<&Proto> = protos.iter().filter(|p| p.template == Some(t)).collect();
        let k = members.iter().map(|p| p.name).find(|k| *k != NameKind::Default).unwrap_or(NameKind::Default);
        name_of(k, members[0])
    };

    let mut recs: Vec<Rec> = Vec::new();
    for p in &protos {
        let (rid, pos) = match p.place {
            Place::Unplaced => (None, None),
            _ => (Some(p.rid), Some(p.pos)),
        };
        let (cigar, mut seq) = match p.place {
            Place::Mapped => realise(p.shape, &refs[p.rid], p.pos),
            _ => {
                let s: Vec<u8> = (0..p.ulen).map(|i| b"ACGTNRGA"[(i + p.id) % 8]).collect();
                (Vec::new(), s)
            }
        };
        if !p.bases {
            seq.clear();
        }
        let qual = if p.qual == QualKind::Missing || seq.is_empty() { Vec::new() } else { quals(p.qual, seq.len(), p.id) };
        let mut flags = p.xflags;
        if p.place != Place::Mapped {
            flags |= rec::UNMAPPED;
        }
        if p.reverse {
            flags |= rec::REVERSE;
        }
        let mut tags = tag_set(p.tags);
        if let Some(g) = rg_name(p.rg) {
            // RG in the middle of the list when there are other tags (CRAM stores it apart)
            let at = tags.len().min(1);
            tags.insert(at, ([b'R', b'G'], Tv::Z(g.as_bytes().to_vec())));
        }
        let name = match p.template {
            Some(t) => template_name(t),
            None => name_of(p.name, p),
        };
        recs.push(Rec {
            name,
            flags,
            rid,
            pos,
            mapq: if p.place == Place::Mapped { p.mapq } else { Some(0) },
            cigar,
            mrid: None,
            mpos: None,
            tlen: 0,
            seq,
            qual,
            tags,
        });
    }

    // mates
    let find = |t: Option<usize>, role: Role| -> Option<usize> {
        protos.iter().position(|p| p.template == t && p.role == role)
    };
    for i in 0..protos.len() {
        let p = &protos[i];
        if p.template.is_none() {
            continue;
        }
        let (mate, seg_flag) = match p.role {
            Role::Single => continue,
            Role::First => (find(p.template, Role::Last), rec::FIRST),
            Role::Last => (find(p.template, Role::First), rec::LAST),
            Role::SuppOfFirst => (find(p.template, Role::Last), rec::FIRST | rec::SUPPLEMENTARY),
            Role::SecOfLast => (find(p.template, Role::First), rec::LAST | rec::SECONDARY),
        };
        let Some(j) = mate else { continue };
        let (m_rid, m_pos, m_flags, m_end) = (recs[j].rid, recs[j].pos, recs[j].flags, recs[j].end());
        let me_end = recs[i].end();
        let r = &mut recs[i];
        r.flags |= rec::PAIRED | seg_flag;
        if m_flags & rec::REVERSE != 0 {
            r.flags |= rec::MATE_REVERSE;
        }
        if m_flags & rec::UNMAPPED != 0 {
            r.flags |= rec::MATE_UNMAPPED;
        }
        r.mrid = m_rid;
        r.mpos = m_pos;
        let both_mapped = r.flags & rec::UNMAPPED == 0 && m_flags & rec::UNMAPPED == 0;
        if both_mapped && r.rid.is_some() && r.rid == m_rid {
            if let (Some(a), Some(ae), Some(b), Some(be)) = (r.pos, me_end, m_pos, m_end) {
                r.flags |= rec::PROPER;
                let len = (ae.max(be) - a.min(b) + 1) as i32;
                // positive for the leftmost segment; on a tie the one earlier in the file
                let leftmost = a < b || (a == b && i < j);
                r.tlen = if leftmost { len } else { -len };
            }
        }
    }
    let classes = (0..protos.len())
        .map(|i| {
            let p = &protos[i];
            let mut c = p.class();
            if p.template.is_some() && p.role != Role::Single {
                let r = &recs[i];
                let rel = if r.flags & rec::UNMAPPED != 0 && r.flags & rec::MATE_UNMAPPED != 0 {
                    "both-unmapped"
                } else if r.flags & rec::UNMAPPED != 0 {
                    "self-unmapped"
                } else if r.flags & rec::MATE_UNMAPPED != 0 {
                    "mate-unmapped"
                } else if r.rid == r.mrid {
                    "same-reference"
                } else {
                    "other-reference"
                };
                c.push('/');
                c.push_str(rel);
            }
            c
        })
        .collect();
    Stream { recs, protos, classes }
}

/// Human-readable description of a stream (goes into `decoded`).
pub fn describe(recs: &[Rec], ref_names: &[&str]) -> String {
    let mut s = String::new();
    for (i, r) in recs.iter().enumerate() {
        if i > 0 {
            s.push_str(" | ");
        }
        s.push_str(&r.sam_line(ref_names).replace('\t', " "));
    }
    s
}
